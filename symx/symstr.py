"""symx string facility ("lite"): fixed-length strings whose characters are concrete or symbolic.

A symbolic integer formatted by the real code (`"{:>+10}".format(v)`, f-strings, `str(v)` through the `str`
shim) first becomes a *marker token* inside an ordinary Python string (Sym.__format__).  `SymStr.from_marked`
expands the markers: it forks on sign and digit count of each formatted Int, so the length is concrete per
path, and ties fresh digit variables to the value with ONE linear constraint (|v| = sum d_k 10^k, 0<=d_k<=9,
leading digit >= 1).  Div/mod digit extraction is never used (z3 does not finish on it).

The model of CPython's integer format-spec mini-language below (fill/align/sign/0/width, type d) is part of the
trusted base; `selfcheck_format_model()` compares it with CPython on boundary and random values on every run.
"""
import re
import random

import z3

from .core import Abort, Ctx, Sym, SymBool, lift, is_sym, AND, OR

_MARK = re.compile("\x00S(\\d+)\x00")
_SPEC = re.compile(r"^(?:(.)?([<>=^]))?([+\- ])?(#)?(0)?(\d+)?([,_])?(?:\.(\d+))?([a-zA-Z%])?$")

MAX_DIGITS = 12


class SymChar:
    """One character: code is a z3 Int term; cls is 'digit' (code = 48 + digit var) or 'any'."""

    __slots__ = ("code", "cls")

    def __init__(self, code, cls="any"):
        self.code = code
        self.cls = cls

    def __repr__(self):
        return "SymChar(%s)" % self.code


def _code(ch):
    return ch.code if isinstance(ch, SymChar) else z3.IntVal(ord(ch))


def char_eq(a, b):
    """z3 Bool / python bool for equality of two characters"""
    if not isinstance(a, SymChar) and not isinstance(b, SymChar):
        return a == b
    if isinstance(a, SymChar) and a.cls == "digit" and not isinstance(b, SymChar) and not b.isdigit():
        return False
    if isinstance(b, SymChar) and b.cls == "digit" and not isinstance(a, SymChar) and not a.isdigit():
        return False
    return SymBool(_code(a) == _code(b))


def parse_spec(spec):
    m = _SPEC.match(spec)
    if not m:
        raise Abort("unsupported format spec %r" % spec)
    fill, align, sign, alt, zero, width, grp, prec, typ = m.groups()
    if alt or grp or prec or (typ not in (None, "d")):
        raise Abort("unsupported format spec %r" % spec)
    width = int(width) if width else 0
    if zero:
        if fill is None:
            fill = "0"
        if not align:
            align = "="
    if not align:
        align = ">"
    if fill is None:
        fill = " "
    return fill, align, sign or "-", width


def render_int(v, spec):
    """chars of format(v, spec) for an Int-sorted proxy (forks on sign and digit count)."""
    ctx = Ctx.cur
    fill, align, sign, width = parse_spec(spec)
    if not isinstance(v, Sym):
        return list(format(v, spec))
    if not v.is_int:
        raise Abort("formatting a symbolic real")
    e = v.e
    neg = ctx.branch(e < 0)
    mag = -e if neg else e
    n = 1
    while ctx.branch(mag >= 10 ** n):
        n += 1
        if n > MAX_DIGITS:
            raise Abort("more than %d digits" % MAX_DIGITS)
    ds = [ctx.fresh_int("d") for _ in range(n)]  # most significant first
    cons = [z3.And(d >= 0, d <= 9) for d in ds]
    if n > 1:
        cons.append(ds[0] >= 1)
    cons.append(mag == z3.Sum([d * (10 ** (n - 1 - k)) for k, d in enumerate(ds)]))
    ctx.add_pc(z3.And(*cons), defining=True)
    digits = [SymChar(48 + d, "digit") for d in ds]
    pre = ["-"] if neg else (["+"] if sign == "+" else ([" "] if sign == " " else []))
    body = pre + digits
    pad = max(0, width - len(body))
    if align == "<":
        return body + [fill] * pad
    if align == ">":
        return [fill] * pad + body
    if align == "=":
        return pre + [fill] * pad + digits
    left = pad // 2
    return [fill] * left + body + [fill] * (pad - left)


class SymStr:
    """Immutable fixed-length string of concrete chars and SymChar."""

    __slots__ = ("cs",)

    def __init__(self, cs):
        self.cs = list(cs)

    @staticmethod
    def from_marked(s):
        """Expand marker tokens produced by Sym.__format__ / the str shim inside a python str."""
        if isinstance(s, SymStr):
            return s
        ctx = Ctx.cur
        out = []
        pos = 0
        for m in _MARK.finditer(s):
            out.extend(s[pos:m.start()])
            v, spec = ctx.markers[m.group(0)]
            if isinstance(v, SymStr):
                if spec not in ("", "s"):
                    raise Abort("unsupported format spec %r for a symbolic string" % spec)
                out.extend(v.cs)
            else:
                out.extend(render_int(v, spec))
            pos = m.end()
        out.extend(s[pos:])
        return SymStr(out)

    @staticmethod
    def has_marker(s):
        return isinstance(s, str) and "\x00S" in s

    def __len__(self):
        return len(self.cs)

    def __format__(self, spec):
        return Ctx.cur.format_marker(self, spec)

    def __getitem__(self, k):
        if isinstance(k, slice):
            return SymStr(self.cs[k])
        c = self.cs[k]
        return SymStr([c])

    def __iter__(self):
        return iter(SymStr([c]) for c in self.cs)

    def __add__(self, o):
        if isinstance(o, str):
            o = SymStr.from_marked(o)
        return SymStr(self.cs + o.cs)

    def __radd__(self, o):
        if isinstance(o, str):
            o = SymStr.from_marked(o)
        return SymStr(o.cs + self.cs)

    def is_concrete(self):
        return not any(isinstance(c, SymChar) for c in self.cs)

    def concrete(self):
        return "".join(self.cs)

    def __eq__(self, o):
        if isinstance(o, str):
            o = SymStr.from_marked(o) if SymStr.has_marker(o) else SymStr(o)
        if not isinstance(o, SymStr):
            return False
        if len(o) != len(self):
            return False
        return AND(*[char_eq(a, b) for a, b in zip(self.cs, o.cs)]) if self.cs else True

    def __ne__(self, o):
        r = self.__eq__(o)
        return (not r) if isinstance(r, bool) else SymBool(z3.Not(r.e))

    def __hash__(self):
        return hash(tuple(repr(c) for c in self.cs))

    def __lt__(self, o):
        """lexicographic order by code point (what sorted() of str uses)"""
        if isinstance(o, str):
            o = SymStr(o)
        res = z3.BoolVal(len(self) < len(o))  # all equal on the common prefix
        n = min(len(self), len(o))
        for k in range(n - 1, -1, -1):
            a, b = _code(self.cs[k]), _code(o.cs[k])
            res = z3.If(a < b, z3.BoolVal(True), z3.If(a > b, z3.BoolVal(False), res))
        res = z3.simplify(res)
        if z3.is_true(res):
            return True
        if z3.is_false(res):
            return False
        return SymBool(res)

    def __le__(self, o):
        return OR(self < o, self == o)

    def __gt__(self, o):
        if isinstance(o, str):
            o = SymStr(o)
        return o < self

    def __ge__(self, o):
        return OR(self > o, self == o)

    def __repr__(self):
        return "SymStr(%s)" % "".join(c if isinstance(c, str) else "?" for c in self.cs)

    def __str__(self):
        return self.__repr__()

    def strip(self, chars=None):
        return self.lstrip(chars).rstrip(chars)

    def _is_strippable(self, c, chars):
        if isinstance(c, SymChar):
            if c.cls == "digit":
                return False if chars is None else any(ch.isdigit() for ch in chars) and bool(
                    OR(*[char_eq(c, ch) for ch in chars if ch.isdigit()]))
            ws = chars if chars is not None else " \t\n\r\x0b\x0c"
            return bool(OR(*[char_eq(c, ch) for ch in ws]))
        return c.isspace() if chars is None else c in chars

    def lstrip(self, chars=None):
        k = 0
        while k < len(self.cs) and self._is_strippable(self.cs[k], chars):
            k += 1
        return SymStr(self.cs[k:])

    def rstrip(self, chars=None):
        k = len(self.cs)
        while k > 0 and self._is_strippable(self.cs[k - 1], chars):
            k -= 1
        return SymStr(self.cs[:k])

    def ljust(self, n, fill=" "):
        return SymStr(self.cs + [fill] * max(0, n - len(self.cs)))

    def rjust(self, n, fill=" "):
        return SymStr([fill] * max(0, n - len(self.cs)) + self.cs)

    def split(self, sep):
        parts, cur = [], []
        assert len(sep) == 1
        for c in self.cs:
            if bool(char_eq(c, sep)):
                parts.append(SymStr(cur))
                cur = []
            else:
                cur.append(c)
        parts.append(SymStr(cur))
        return parts

    def startswith(self, p):
        return len(self) >= len(p) and bool(SymStr(self.cs[:len(p)]) == p)

    def to_int(self):
        """int(self) with CPython's rules for decimal literals (optional surrounding whitespace, sign, digits;
        underscores unsupported). Raises ValueError on the paths where the text is not a valid literal."""
        s = self.strip()
        cs = list(s.cs)
        sign = 1
        if cs and not isinstance(cs[0], SymChar) and cs[0] in "+-":
            sign = -1 if cs[0] == "-" else 1
            cs = cs[1:]
        elif cs and isinstance(cs[0], SymChar) and cs[0].cls != "digit":
            if bool(char_eq(cs[0], "-")):
                sign, cs = -1, cs[1:]
            elif bool(char_eq(cs[0], "+")):
                cs = cs[1:]
        if not cs:
            raise ValueError("invalid literal for int() with base 10: %r" % (self,))
        val = z3.IntVal(0)
        for c in cs:
            if isinstance(c, SymChar):
                if c.cls != "digit":
                    ok = SymBool(z3.And(c.code >= 48, c.code <= 57))
                    if not bool(ok):
                        raise ValueError("invalid literal for int() with base 10: %r" % (self,))
                d = c.code - 48
            else:
                if not c.isdigit():
                    raise ValueError("invalid literal for int() with base 10: %r" % (self,))
                d = z3.IntVal(int(c))
            val = val * 10 + d
        val = z3.simplify(sign * val)
        if z3.is_int_value(val):
            return val.as_long()
        return Sym(val)


# ---------------------------------------------------------------------------
# module-level builtin shims for string kernels

_int = int
_str = str
_ord = ord
_chr = chr
_len = len


def int_shim(x=0, *a):
    if isinstance(x, SymStr):
        return x.to_int()
    if isinstance(x, str) and SymStr.has_marker(x):
        return SymStr.from_marked(x).to_int()
    if isinstance(x, Sym):
        if x.is_int:
            return x
        raise Abort("int() of a symbolic real")
    return _int(x, *a)


def str_shim(x=""):
    if isinstance(x, Sym):
        return SymStr(render_int(x, ""))
    if isinstance(x, SymStr):
        return x
    return _str(x)


def ord_shim(c):
    if isinstance(c, SymStr):
        if len(c) != 1:
            raise TypeError("ord() expected a character")
        ch = c.cs[0]
        return Sym(ch.code) if isinstance(ch, SymChar) else _ord(ch)
    return _ord(c)


def chr_shim(i):
    if isinstance(i, Sym):
        ctx = Ctx.cur
        if ctx.branch(z3.Or(i.e < 0, i.e > 0x10FFFF)):
            raise ValueError("chr() arg not in range(0x110000)")
        return SymStr([SymChar(i.e)])
    return _chr(i)


def symchar(ctx, name, alphabet):
    """A symbolic character drawn from a concrete alphabet (string of allowed characters)."""
    code = ctx.int(name, min(map(_ord, alphabet)), max(map(_ord, alphabet)))
    if ctx.mode == "conc":
        if _chr(code) not in alphabet:
            from .core import Reject
            raise Reject(name)
        return _chr(code)
    codes = sorted(set(map(_ord, alphabet)))
    # contiguous ranges -> compact constraint
    ranges, start, prev = [], codes[0], codes[0]
    for c in codes[1:]:
        if c != prev + 1:
            ranges.append((start, prev))
            start = c
        prev = c
    ranges.append((start, prev))
    ctx._assume_raw(z3.Or(*[z3.And(code.e >= a, code.e <= b) for a, b in ranges]))
    return SymStr([SymChar(code.e)])


# ---------------------------------------------------------------------------
# tiny regex matcher (literals, \d, ., X*, groups, ^ $) over SymStr -- enough for ^c(\d\d)n(\d\d).*$


def _parse_regex(p):
    toks = []
    i = 0
    groups = 0
    while i < len(p):
        c = p[i]
        if c == "^" and i == 0:
            toks.append(("bol",))
        elif c == "$" and i == len(p) - 1:
            toks.append(("eol",))
        elif c == "(":
            groups += 1
            toks.append(("open", groups))
        elif c == ")":
            toks.append(("close",))
        elif c == "\\":
            i += 1
            if p[i] == "d":
                toks.append(("digit",))
            else:
                toks.append(("lit", p[i]))
        elif c == ".":
            toks.append(("any",))
        elif c == "*":
            prev = toks.pop()
            if prev[0] not in ("digit", "lit", "any"):
                raise Abort("regex: unsupported starred group")
            toks.append(("star", prev))
        elif c in "+?[]{}|":
            raise Abort("regex: unsupported construct %r in %r" % (c, p))
        else:
            toks.append(("lit", c))
        i += 1
    return toks, groups


def _char_matches(tok, c):
    if tok[0] == "any":
        return True if not isinstance(c, SymChar) else (True if c.cls == "digit" else bool(SymBool(c.code != 10)))
    if tok[0] == "digit":
        if isinstance(c, SymChar):
            return True if c.cls == "digit" else bool(SymBool(z3.And(c.code >= 48, c.code <= 57)))
        return c.isdigit() and c.isascii()
    return bool(char_eq(c, tok[1]))


def regex_match(pattern, s):
    """re.match(pattern, s) for the supported subset; returns list of group SymStrs or None.
    Greedy with backtracking; character tests on symbolic characters fork the path."""
    if isinstance(s, str):
        s = SymStr.from_marked(s) if SymStr.has_marker(s) else SymStr(s)
    toks, ngroups = _parse_regex(pattern)
    cs = s.cs

    def go(ti, pos, opens, groups):
        if ti == len(toks):
            return groups
        t = toks[ti]
        if t[0] == "bol":
            return go(ti + 1, pos, opens, groups) if pos == 0 else None
        if t[0] == "eol":
            ok = pos == len(cs) or (pos == len(cs) - 1 and not isinstance(cs[pos], SymChar) and cs[pos] == "\n")
            return go(ti + 1, pos, opens, groups) if ok else None
        if t[0] == "open":
            return go(ti + 1, pos, opens + [(t[1], pos)], groups)
        if t[0] == "close":
            gi, start = opens[-1]
            g2 = dict(groups)
            g2[gi] = SymStr(cs[start:pos])
            return go(ti + 1, pos, opens[:-1], g2)
        if t[0] == "star":
            k = pos
            while k < len(cs) and _char_matches(t[1], cs[k]):
                k += 1
            while k >= pos:
                r = go(ti + 1, k, opens, groups)
                if r is not None:
                    return r
                k -= 1
            return None
        if pos < len(cs) and _char_matches(t, cs[pos]):
            return go(ti + 1, pos + 1, opens, groups)
        return None

    r = go(0, 0, [], {})
    if r is None:
        return None
    return [r.get(i + 1) for i in range(ngroups)]


# ---------------------------------------------------------------------------
# validation of the format model against CPython (run by harness modules at import / first use)


def selfcheck_format_model(specs, seed=0, n_random=200):
    """Render concrete ints through the same alignment/sign/padding code and compare with CPython."""
    rng = random.Random(seed)
    vals = [0, 9, -9, 10, -10, 99, 100, -100, 2 ** 31 - 1, -2 ** 31, 2 ** 31]
    for k in range(1, 11):
        vals += [10 ** k - 1, 10 ** k, -(10 ** k - 1), -(10 ** k)]
    vals += [rng.randint(-2 ** 33, 2 ** 33) for _ in range(n_random)]
    bad = []
    for spec in specs:
        fill, align, sign, width = parse_spec(spec)
        for v in vals:
            digits = list(_str(abs(v)))
            pre = ["-"] if v < 0 else (["+"] if sign == "+" else ([" "] if sign == " " else []))
            body = pre + digits
            pad = max(0, width - len(body))
            if align == "<":
                out = body + [fill] * pad
            elif align == ">":
                out = [fill] * pad + body
            elif align == "=":
                out = pre + [fill] * pad + digits
            else:
                out = [fill] * (pad // 2) + body + [fill] * (pad - pad // 2)
            if "".join(out) != format(v, spec):
                bad.append((spec, v, "".join(out), format(v, spec)))
    return bad


def symstring(ctx, name, alphabet, length):
    """A string of `length` symbolic characters from `alphabet`: SymStr symbolically, plain str concretely."""
    parts = [symchar(ctx, "%s%d" % (name, i), alphabet) for i in range(length)]
    if ctx.mode == "conc":
        return "".join(parts)
    out = SymStr([])
    for p in parts:
        out = out + p
    return out


def same_text(a, b):
    """equality of str / SymStr values as a bool or SymBool"""
    if isinstance(a, str) and isinstance(b, str) and not SymStr.has_marker(a) and not SymStr.has_marker(b):
        return a == b
    if isinstance(a, str):
        a = SymStr.from_marked(a)
    return a == b
