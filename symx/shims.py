"""Namespace shims applied to armi modules for symbolic runs.

Each shim is the identity (delegates to the real numpy/math/builtin) whenever no proxy is involved, so
concrete replays and self-test runs execute the unmodified behaviour.
"""
import builtins
import math as _math

import numpy as _np

from .core import Abort, Ctx, Sym, SymBool, is_sym, sym_sqrt, ITE

_float = builtins.float
_int = builtins.int
_isinstance = builtins.isinstance
_round = builtins.round


def symbolic_active():
    c = Ctx.cur
    return c is not None and c.mode == "sym"


def _has_sym(x):
    if is_sym(x):
        return True
    if _isinstance(x, _np.ndarray):
        return x.dtype == object and any(_has_sym(v) for v in x.flat)
    if _isinstance(x, (list, tuple)):
        return any(_has_sym(v) for v in x)
    return False


class NpShim:
    """numpy stand-in: float-array constructors give object arrays while a symbolic run is active."""

    def __getattr__(self, n):
        return getattr(_np, n)

    @staticmethod
    def zeros(shape, dtype=None, **kw):
        if symbolic_active() and dtype in (None, float, _np.float64):
            a = _np.empty(shape, dtype=object)
            a.fill(_np.float64(0.0))   # numpy scalars: 1/0 is inf with a warning as in a float array, not an exception
            return a
        return _np.zeros(shape, dtype=dtype or float, **kw)

    @staticmethod
    def ones(shape, dtype=None, **kw):
        if symbolic_active() and dtype in (None, float, _np.float64):
            a = _np.empty(shape, dtype=object)
            a.fill(_np.float64(1.0))
            return a
        return _np.ones(shape, dtype=dtype or float, **kw)

    @staticmethod
    def zeros_like(a, dtype=None, **kw):
        if symbolic_active() and dtype in (None, float, _np.float64):
            r = _np.empty(_np.shape(a), dtype=object)
            r.fill(_np.float64(0.0))
            return r
        return _np.zeros_like(a, dtype=dtype, **kw)

    @staticmethod
    def array(obj, dtype=None, **kw):
        if _has_sym(obj) and dtype not in (None, object):
            dtype = object
        return _np.array(obj, dtype=dtype, **kw)

    @staticmethod
    def asarray(obj, dtype=None, **kw):
        if _has_sym(obj) and dtype not in (None, object):
            dtype = object
        return _np.asarray(obj, dtype=dtype, **kw)

    @staticmethod
    def isnan(x):
        if is_sym(x):
            return False
        if _isinstance(x, _np.ndarray) and x.dtype == object:
            return _np.array([False if is_sym(v) else bool(_np.isnan(v)) for v in x.flat]).reshape(x.shape)
        return _np.isnan(x)

    @staticmethod
    def sqrt(x):
        if is_sym(x):
            return sym_sqrt(x)
        return _np.sqrt(x)

    @staticmethod
    def abs(x):
        if is_sym(x):
            return abs(x)
        return _np.abs(x)

    @staticmethod
    def mean(a, *args, **kw):
        if _has_sym(a) and not args and not kw:
            flat = list(_np.asarray(a, dtype=object).flat)
            return sum(flat[1:], flat[0]) / len(flat)
        return _np.mean(a, *args, **kw)

    @staticmethod
    def average(a, *args, **kw):
        return _np.average(a, *args, **kw)

    @staticmethod
    def isclose(a, b, rtol=1e-05, atol=1e-08, **kw):
        if is_sym(a) or is_sym(b):
            return abs(a - b) <= atol + rtol * abs(b)
        return _np.isclose(a, b, rtol=rtol, atol=atol, **kw)

    @staticmethod
    def interp(x, xp, fp, *a, **kw):
        if not (_has_sym(x) or _has_sym(xp) or _has_sym(fp)):
            return _np.interp(x, xp, fp, *a, **kw)
        xp, fp = list(xp), list(fp)
        if x <= xp[0]:
            return fp[0]
        for k in range(1, len(xp)):
            if x <= xp[k]:
                return fp[k - 1] + (fp[k] - fp[k - 1]) * (x - xp[k - 1]) / (xp[k] - xp[k - 1])
        return fp[-1]

    @staticmethod
    def digitize(x, bins, right=False):
        if not (_has_sym(x) or _has_sym(bins)):
            return _np.digitize(x, bins, right=right)
        bins = list(bins)
        n = 0
        for b in bins:
            if (x > b) if right else (x >= b):
                n += 1
            else:
                break
        return n


np_shim = NpShim()


class MathShim:
    def __getattr__(self, n):
        return getattr(_math, n)

    @staticmethod
    def sqrt(x):
        if is_sym(x):
            return sym_sqrt(x)
        return _math.sqrt(x)

    @staticmethod
    def isclose(a, b, rel_tol=1e-09, abs_tol=0.0):
        if is_sym(a) or is_sym(b):
            d = abs(a - b)
            return bool(d <= rel_tol * abs(a)) or bool(d <= rel_tol * abs(b)) or bool(d <= abs_tol)
        return _math.isclose(a, b, rel_tol=rel_tol, abs_tol=abs_tol)

    @staticmethod
    def ceil(x):
        if _isinstance(x, Sym):
            if x.is_int:
                return x
            ctx = Ctx.cur
            import z3

            n = ctx.fresh_int("ceil")
            ctx.add_pc(z3.And(z3.ToReal(n) >= x.e, z3.ToReal(n) < x.e + 1), defining=True)
            return Sym(n)
        return _math.ceil(x)

    @staticmethod
    def floor(x):
        if _isinstance(x, Sym):
            if x.is_int:
                return x
            ctx = Ctx.cur
            import z3

            n = ctx.fresh_int("floor")
            ctx.add_pc(z3.And(z3.ToReal(n) <= x.e, z3.ToReal(n) > x.e - 1), defining=True)
            return Sym(n)
        return _math.floor(x)

    @staticmethod
    def isnan(x):
        return False if is_sym(x) else _math.isnan(x)

    @staticmethod
    def isinf(x):
        return False if is_sym(x) else _math.isinf(x)

    @staticmethod
    def fabs(x):
        return abs(x) if is_sym(x) else _math.fabs(x)


math_shim = MathShim()


def float_shim(x=0.0):
    return x if _isinstance(x, Sym) else _float(x)


def int_shim(x=0, *a):
    if _isinstance(x, Sym):
        if x.is_int:
            return x
        # truncation toward zero of a symbolic real
        ctx = Ctx.cur
        import z3

        n = ctx.fresh_int("trunc")
        xe = x.e
        ctx.add_pc(z3.If(xe >= 0, z3.And(z3.ToReal(n) <= xe, z3.ToReal(n) > xe - 1),
                         z3.And(z3.ToReal(n) >= xe, z3.ToReal(n) < xe + 1)), defining=True)
        return Sym(n)
    return _int(x, *a)


def isinstance_shim(obj, cls):
    if _isinstance(obj, Sym):
        cl = cls if _isinstance(cls, tuple) else (cls,)
        if obj.is_int:
            if any(c in (int, float, _np.integer, _np.floating, _np.number) or c.__name__ in ("Number", "Real", "Integral") for c in cl):
                return True
        else:
            if any(c in (float, _np.floating, _np.number) or c.__name__ in ("Number", "Real") for c in cl):
                return True
        return _isinstance(obj, cls)
    if _isinstance(obj, SymBool):
        cl = cls if _isinstance(cls, tuple) else (cls,)
        if bool in cl or int in cl:
            return True
    return _isinstance(obj, cls)


def round_shim(x, ndigits=None):
    """round() used to MERGE nearly equal elevations in sets/dicts (armi: round(z, 8)): a proxy is returned in the
    normal form of its term, so that structurally different but equal terms hash alike; plain numbers are rounded."""
    if _isinstance(x, Sym):
        import z3

        e = z3.simplify(x.e)
        if z3.is_rational_value(e) or z3.is_int_value(e):
            f = e.as_fraction()
            return _round(_float(f), ndigits) if ndigits is not None else _round(_float(f))
        return Sym(e)
    return _round(x, ndigits) if ndigits is not None else _round(x)


_applied = []


def patch(module, **names):
    """Replace names in a module namespace (process-lifetime; harness processes are short lived)."""
    for k, v in names.items():
        _applied.append((module.__name__, k))
        setattr(module, k, v)


def applied():
    return sorted(set("%s.%s" % a for a in _applied))


class NpShimObjArrays(NpShim):
    """Variant for modules that later add proxies INTO arrays built from plain numbers (in-place `+=`): every numeric
    array built while a symbolic run is active is an object array."""

    @staticmethod
    def array(obj, dtype=None, **kw):
        a = NpShim.array(obj, dtype=dtype, **kw)
        if symbolic_active() and a.dtype != object and a.dtype.kind in "iuf":
            a = a.astype(object)
        return a


np_shim_obj = NpShimObjArrays()
