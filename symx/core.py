"""symx core: proxy-based symbolic execution of the real armi code with z3.

The harness is an ordinary Python function ``h(ctx, **params)``.  It declares
inputs through ``ctx`` (``ctx.int/real/bool/func``), passes them into real armi
objects/functions and states obligations (``ctx.check``, ``ctx.check_close``,
``ctx.check_eq``).  The same function runs in three modes:

* ``sym``    inputs are proxies over z3 terms; data-dependent branches fork
             (depth-first re-execution with a decision prefix); every
             obligation is discharged by the solver under the path condition;
* ``conc``   inputs are plain ``int``/``float``/``bool`` taken from a model (or a
             seeded random valid assignment); obligations are evaluated by
             Python -- this is the *replay on the real code without proxies*;
* ``pinned`` symbolic mode with every input pinned to a concrete value: the
             values the symbolic expressions take under the model are compared
             with the concrete run (differential self-test of the engine).
"""
import fractions
import math
import time

import z3

REL_TOL = 1e-9          # obligations on reals: |got-want| <= REL_TOL*scale
REL_MARGIN = 1e-6       # a counterexample must violate by this margin
REPLAY_TOL = 1e-7       # ... and reproduce concretely beyond this one


class Abort(BaseException):
    """Path abandoned (inconclusive); BaseException so armi's handlers do not catch it."""

    def __init__(self, reason):
        super().__init__(reason)
        self.reason = reason


class Reject(BaseException):
    """Concrete input vector does not satisfy an assumption."""


class Infeasible(BaseException):
    """An assume() made the path condition unsatisfiable: path silently dropped."""


# ---------------------------------------------------------------------------
# lifting helpers


def _rat(x):
    return z3.RealVal(fractions.Fraction(x))


def lift(x):
    """Python/numpy/proxy value -> z3 arithmetic/bool term."""
    if isinstance(x, Sym):
        return x.e
    if isinstance(x, SymBool):
        return x.e
    if isinstance(x, bool):
        return z3.BoolVal(x)
    if isinstance(x, int):
        return z3.IntVal(x)
    if isinstance(x, float):
        if math.isinf(x) or math.isnan(x):
            raise TypeError("non-finite float")
        return _rat(x)
    if isinstance(x, fractions.Fraction):
        return z3.RealVal(x)
    import numpy as np

    if isinstance(x, np.bool_):
        return z3.BoolVal(bool(x))
    if isinstance(x, np.integer):
        return z3.IntVal(int(x))
    if isinstance(x, np.floating):
        return lift(float(x))
    if isinstance(x, np.ndarray) and x.shape == ():
        return lift(x.item())
    raise TypeError(type(x))


def _num2(a, b):
    ea, eb = lift(a), lift(b)
    if z3.is_bool(ea):
        ea = z3.If(ea, z3.IntVal(1), z3.IntVal(0))
    if z3.is_bool(eb):
        eb = z3.If(eb, z3.IntVal(1), z3.IntVal(0))
    if ea.sort() != eb.sort():
        if z3.is_int(ea):
            ea = z3.ToReal(ea)
        if z3.is_int(eb):
            eb = z3.ToReal(eb)
    return ea, eb


def is_sym(x):
    return isinstance(x, (Sym, SymBool))


def _b(x):
    """value -> z3 Bool (for connectives)."""
    if isinstance(x, SymBool):
        return x.e
    if isinstance(x, Sym):
        return x.e != 0
    return z3.BoolVal(bool(x))


def AND(*xs):
    if not any(is_sym(x) for x in xs):
        return all(bool(x) for x in xs)
    return SymBool(z3.And(*[_b(x) for x in xs]))


def OR(*xs):
    if not any(is_sym(x) for x in xs):
        return any(bool(x) for x in xs)
    return SymBool(z3.Or(*[_b(x) for x in xs]))


def NOT(x):
    if not is_sym(x):
        return not x
    return SymBool(z3.Not(_b(x)))


def IMPLIES(a, b):
    if not is_sym(a) and not is_sym(b):
        return (not a) or bool(b)
    return SymBool(z3.Implies(_b(a), _b(b)))


def IFF(a, b):
    if not is_sym(a) and not is_sym(b):
        return bool(a) == bool(b)
    return SymBool(_b(a) == _b(b))


def ITE(c, a, b):
    """Non-forking if-then-else for oracles."""
    if not is_sym(c):
        return a if c else b
    ea, eb = _num2(a, b)
    return Sym(z3.If(_b(c), ea, eb))


def CLOSE(a, b, scale=None, abs_tol=0.0):
    """Approximate equality usable inside boolean oracles (1e-9 relative symbolically, 1e-7 on floats)."""
    if scale is None:
        scale = abs(a) + abs(b)
    if not (is_sym(a) or is_sym(b) or is_sym(scale)):
        return abs(a - b) <= REPLAY_TOL * abs(scale) + abs_tol
    d = a - b
    t = REL_TOL * scale + abs_tol
    return AND(d <= t, -d <= t)


def ABS(x):
    return abs(x)


def MAX(*xs):
    """Non-forking max for oracles."""
    r = xs[0]
    for x in xs[1:]:
        r = ITE(x > r, x, r)
    return r


def MIN(*xs):
    r = xs[0]
    for x in xs[1:]:
        r = ITE(x < r, x, r)
    return r


# ---------------------------------------------------------------------------
# proxies


class SymBool:
    __slots__ = ("e",)

    def __init__(self, e):
        self.e = e

    def __bool__(self):
        return Ctx.cur.branch(self.e)

    def __and__(self, o):
        return SymBool(z3.And(self.e, _b(o)))

    __rand__ = __and__

    def __or__(self, o):
        return SymBool(z3.Or(self.e, _b(o)))

    __ror__ = __or__

    def __invert__(self):
        return SymBool(z3.Not(self.e))

    def __eq__(self, o):
        return SymBool(self.e == _b(o))

    def __ne__(self, o):
        return SymBool(self.e != _b(o))

    def __hash__(self):
        return hash(self.e)

    # bool arithmetic (True + True) is rare; route through Sym
    def _asnum(self):
        return Sym(z3.If(self.e, z3.IntVal(1), z3.IntVal(0)))

    def __add__(self, o):
        return self._asnum() + o

    __radd__ = __add__

    def __mul__(self, o):
        return self._asnum() * o

    __rmul__ = __mul__

    def __repr__(self):
        return "SymBool(%s)" % self.e

    def __deepcopy__(self, memo):
        return self

    def __copy__(self):
        return self


class Sym:
    """Numeric proxy (z3 Int or Real sort)."""

    __slots__ = ("e",)

    def __init__(self, e):
        self.e = e

    # -- helpers
    @property
    def is_int(self):
        return z3.is_int(self.e)

    def _bin(self, o, f, r=False):
        try:
            a, b = _num2(self, o)
        except TypeError:
            return NotImplemented
        if r:
            a, b = b, a
        return Sym(f(a, b))

    def __add__(s, o):
        return s._bin(o, lambda a, b: a + b)

    def __radd__(s, o):
        return s._bin(o, lambda a, b: a + b, True)

    def __sub__(s, o):
        return s._bin(o, lambda a, b: a - b)

    def __rsub__(s, o):
        return s._bin(o, lambda a, b: a - b, True)

    def __mul__(s, o):
        return s._bin(o, lambda a, b: a * b)

    def __rmul__(s, o):
        return s._bin(o, lambda a, b: a * b, True)

    @staticmethod
    def _div(a, b):
        if z3.is_int(a):
            a = z3.ToReal(a)
        if z3.is_int(b):
            b = z3.ToReal(b)
        if Ctx.cur.branch(b == 0):
            raise ZeroDivisionError("symbolic division by zero")
        return a / b

    def __truediv__(s, o):
        return s._bin(o, Sym._div)

    def __rtruediv__(s, o):
        return s._bin(o, Sym._div, True)

    def __neg__(s):
        return Sym(-s.e)

    def __pos__(s):
        return s

    def __abs__(s):
        return Sym(z3.If(s.e >= 0, s.e, -s.e))

    def __pow__(s, o):
        if isinstance(o, Sym):
            oe = z3.simplify(o.e)
            if z3.is_int_value(oe):
                o = oe.as_long()
            elif z3.is_rational_value(oe):
                o = float(oe.as_fraction())
            else:
                raise Abort("symbolic exponent")
        if isinstance(o, float) and o == int(o):
            o = int(o)
        if isinstance(o, int):
            if o >= 0:
                if o == 0:
                    return 1
                r = s
                for _ in range(o - 1):
                    r = r * s
                return r
            return 1 / (s ** (-o))
        if isinstance(o, float) and o == 0.5:
            return sym_sqrt(s)
        raise Abort("unsupported exponent %r" % (o,))

    def __rpow__(s, o):
        raise Abort("symbolic exponent")

    # integer division / modulo with python floor semantics via fresh q, r
    def _divmod(s, o, r=False):
        try:
            a, b = _num2(s, o)
        except TypeError:
            return NotImplemented
        if r:
            a, b = b, a
        ctx = Ctx.cur
        if ctx.branch(b == 0):
            raise ZeroDivisionError("symbolic modulo by zero")
        if z3.is_int(a) and z3.is_int(b):
            q = ctx.fresh_int("q")
            rr = ctx.fresh_int("r")
        else:
            if z3.is_int(a):
                a = z3.ToReal(a)
            if z3.is_int(b):
                b = z3.ToReal(b)
            qi = ctx.fresh_int("q")
            q = z3.ToReal(qi)
            rr = ctx.fresh_real("r")
        bs = z3.simplify(b)
        if z3.is_int_value(bs) or z3.is_rational_value(bs):
            pos = (bs.as_long() if z3.is_int_value(bs) else bs.as_fraction()) > 0
            rng = z3.And(rr >= 0, rr < b) if pos else z3.And(rr <= 0, rr > b)
        else:
            rng = z3.If(b > 0, z3.And(rr >= 0, rr < b), z3.And(rr <= 0, rr > b))
        ctx.add_pc(z3.And(a == b * q + rr, rng), defining=True)
        return Sym(q), Sym(rr)

    def __floordiv__(s, o):
        r = s._divmod(o)
        return r if r is NotImplemented else r[0]

    def __rfloordiv__(s, o):
        r = s._divmod(o, True)
        return r if r is NotImplemented else r[0]

    def __mod__(s, o):
        r = s._divmod(o)
        return r if r is NotImplemented else r[1]

    def __rmod__(s, o):
        r = s._divmod(o, True)
        return r if r is NotImplemented else r[1]

    def __divmod__(s, o):
        return s._divmod(o)

    def __rdivmod__(s, o):
        return s._divmod(o, True)

    # comparisons
    def _cmp(s, o, f, inf_lt):
        if isinstance(o, float) and math.isinf(o):
            # inf_lt: result if self < o (o = +inf)
            return inf_lt if o > 0 else (not inf_lt)
        a, b = _num2(s, o)
        return SymBool(f(a, b))

    def __lt__(s, o):
        if isinstance(o, float) and math.isinf(o):
            return o > 0
        a, b = _num2(s, o)
        return SymBool(a < b)

    def __le__(s, o):
        if isinstance(o, float) and math.isinf(o):
            return o > 0
        a, b = _num2(s, o)
        return SymBool(a <= b)

    def __gt__(s, o):
        if isinstance(o, float) and math.isinf(o):
            return o < 0
        a, b = _num2(s, o)
        return SymBool(a > b)

    def __ge__(s, o):
        if isinstance(o, float) and math.isinf(o):
            return o < 0
        a, b = _num2(s, o)
        return SymBool(a >= b)

    def __eq__(s, o):
        if o is None or isinstance(o, (str, bytes, tuple, list, dict)):
            return False
        try:
            a, b = _num2(s, o)
        except TypeError:
            return NotImplemented
        return SymBool(a == b)

    def __ne__(s, o):
        if o is None or isinstance(o, (str, bytes, tuple, list, dict)):
            return True
        try:
            a, b = _num2(s, o)
        except TypeError:
            return NotImplemented
        return SymBool(a != b)

    def __hash__(s):
        ctx = Ctx.cur
        if ctx is not None:
            ctx.hashed[s.e.get_id()] = s.e
        return hash(s.e)

    def __bool__(s):
        return Ctx.cur.branch(s.e != 0)

    def __index__(s):
        return concretize(s)

    def __int__(s):
        # int() truncates; only Int-sorted proxies are concretised here
        if not s.is_int:
            raise Abort("int() of a symbolic real")
        return concretize(s)

    def __round__(s, n=None):
        if s.is_int:
            return s
        raise Abort("round() of a symbolic real")

    def __float__(s):
        raise Abort("float() of a proxy reached C code (needs a shim)")

    def __format__(s, spec):
        ctx = Ctx.cur
        if ctx is not None:
            return ctx.format_marker(s, spec)
        return "<sym>"

    def __repr__(s):
        return "Sym(%s)" % s.e

    __str__ = __repr__

    def __deepcopy__(self, memo):
        return self

    def __copy__(self):
        return self

    def __reduce__(self):
        ctx = Ctx.cur
        key = len(ctx.pickled)
        ctx.pickled.append(self)
        return (_unpickle_sym, (key,))

    # numpy asks for these on object arrays
    def sqrt(s):
        return sym_sqrt(s)

    def conjugate(s):
        return s


def _unpickle_sym(key):
    return Ctx.cur.pickled[key]


def sym_sqrt(x):
    """sqrt as an algebraic definition: fresh r >= 0 with r*r == x."""
    if not isinstance(x, Sym):
        return math.sqrt(x)
    ctx = Ctx.cur
    e = x.e if not z3.is_int(x.e) else z3.ToReal(x.e)
    if ctx.branch(e < 0):
        raise ValueError("math domain error")
    r = ctx.fresh_real("sqrt")
    ctx.add_pc(z3.And(r >= 0, r * r == e), defining=True)
    return Sym(r)


def concretize(s, cap=64):
    """Fork over every feasible integer value of s (domain must be bounded by the pc)."""
    ctx = Ctx.cur
    e = z3.simplify(s.e)
    if z3.is_int_value(e):
        return e.as_long()
    for _ in range(cap):
        n = len(ctx.trace)
        if n < len(ctx.prefix) and len(ctx.prefix[n]) > 2:
            # replaying a recorded decision: the value it was taken on is part of the record (the model of a
            # re-execution may differ from the original run's, the explored condition must not)
            v = ctx.prefix[n][2]
        else:
            m = ctx.get_model()
            if m is None:
                raise Abort("concretize: no model")
            v = m.eval(e, model_completion=True)
            v = z3.simplify(v)
            if not z3.is_int_value(v):
                raise Abort("concretize: non-integer model value")
            v = v.as_long()
        if ctx.branch(e == v, payload=v):
            return v
    raise Abort("concretize: domain larger than %d" % cap)


# ---------------------------------------------------------------------------
# context


class Ob:
    __slots__ = ("name", "kind", "formula", "margin_formula", "exact_formula", "got", "want", "scale", "ok", "detail")

    def __init__(self, name, kind):
        self.name = name
        self.kind = kind
        self.formula = None
        self.margin_formula = None
        self.exact_formula = None
        self.got = self.want = self.scale = None
        self.ok = None
        self.detail = None


class Ctx:
    cur = None

    def __init__(self, mode="sym", values=None, funcs=None, prefix=None, timeout_ms=10000, canary=False,
                 pins=None, rng=None):
        self.mode = mode              # 'sym' | 'conc'
        self.values = values or {}    # conc: name -> python value
        self.funcs = funcs or {}      # conc: name -> python callable
        self.pins = pins              # sym: name -> value to pin (pinned differential run)
        self.canary = canary
        self.rng = rng
        self.timeout_ms = timeout_ms
        self.prefix = prefix or []
        self.trace = []               # [decision, pending]
        self.pc = []
        self.assumes = []
        self.inputs = {}              # name -> z3 const (declaration order)
        self.input_bounds = {}        # name -> (kind, lo, hi)
        self.func_decls = {}
        self.obs = []
        self.hashed = {}
        self.pickled = []
        self.notes = []
        self.fresh = 0
        self.queries = 0
        self.solver_s = 0.0
        self.unknown_branches = 0
        self.fresh_queries = 0
        self._sqrtc = {}
        self.qtimeout_ms = timeout_ms
        self.max_depth = 4000
        self.model = None
        self.model_valid = False
        self.markers = {}
        if mode == "sym":
            self.solver = z3.Solver()
            self.solver.set("timeout", timeout_ms)
        else:
            self.solver = None

    # ---- declarations
    def _declare(self, name, kind, lo, hi, lo_open=False, hi_open=False):
        if name in self.inputs or (self.mode == "conc" and name in self.input_bounds):
            raise RuntimeError("duplicate input " + name)
        self.input_bounds[name] = (kind, lo, hi)
        if self.mode == "conc":
            if name not in self.values:
                raise Reject("no value for " + name)
            v = self.values[name]
            if kind == "int":
                v = int(v)
            elif kind == "real":
                v = float(v)
            else:
                v = bool(v)
            if lo is not None and (v < lo or (lo_open and v == lo)):
                raise Reject(name)
            if hi is not None and (v > hi or (hi_open and v == hi)):
                raise Reject(name)
            self.inputs[name] = v
            return v
        c = {"int": z3.Int, "real": z3.Real, "bool": z3.Bool}[kind](name)
        self.inputs[name] = c
        if lo is not None:
            self._assume_raw(c > lift(lo) if lo_open else c >= lift(lo))
        if hi is not None:
            self._assume_raw(c < lift(hi) if hi_open else c <= lift(hi))
        if self.pins is not None and name in self.pins:
            self._assume_raw(c == lift(self.pins[name]))
        return SymBool(c) if kind == "bool" else Sym(c)

    def int(self, name, lo=None, hi=None):
        return self._declare(name, "int", lo, hi)

    def real(self, name, lo=None, hi=None, lo_open=False, hi_open=False):
        return self._declare(name, "real", lo, hi, lo_open, hi_open)

    def pos(self, name, lo=1e-3, hi=1e4):
        """positive real in a physical window"""
        return self._declare(name, "real", lo, hi)

    def bool(self, name):
        return self._declare(name, "bool", None, None)

    def bv(self, name, width, hi=None):
        """unsigned bit-vector input of the given width (plain int in concrete mode); value <= hi if given"""
        from .bv import SymBV

        if name in self.inputs:
            raise RuntimeError("duplicate input " + name)
        top = (1 << width) - 1 if hi is None else hi
        self.input_bounds[name] = ("int", 0, top)
        if self.mode == "conc":
            if name not in self.values:
                raise Reject("no value for " + name)
            v = int(self.values[name])
            if v < 0 or v > top:
                raise Reject(name)
            self.inputs[name] = v
            return v
        # declared as an Int tied to the bit-vector so that sampling / model extraction stay uniform
        c = z3.Int(name)
        self.inputs[name] = c
        b = z3.BitVec(name + "!bv", width)
        self._assume_raw(z3.And(c >= 0, c <= top, b == z3.Int2BV(c, width), z3.BV2Int(b) == c))
        if self.pins is not None and name in self.pins:
            self._assume_raw(c == lift(self.pins[name]))
        return SymBV(b, width)

    def func(self, name, arity=1):
        """Uninterpreted Real^arity -> Real function (any material law)."""
        if self.mode == "conc":
            f = self.funcs.get(name)
            if f is None:
                raise Reject("no function " + name)
            return f
        decl = z3.Function(name, *([z3.RealSort()] * (arity + 1)))
        self.func_decls[name] = decl

        def call(*args):
            zs = []
            for a in args:
                ea = lift(a)
                if z3.is_int(ea):
                    ea = z3.ToReal(ea)
                zs.append(ea)
            if not any(isinstance(a, Sym) for a in args) and self.pins is None:
                pass
            return Sym(decl(*zs))

        return call

    def choice(self, name, options):
        """Pick one of options; symbolic index, forked."""
        options = list(options)
        k = self.int(name, 0, len(options) - 1)
        if self.mode == "conc":
            return options[k]
        return options[concretize(k, cap=len(options) + 1)]

    def sqrt_const(self, n):
        """sqrt(n) for the oracle: exact algebraic number in symbolic mode, math.sqrt otherwise."""
        if self.mode == "conc":
            return math.sqrt(n)
        if n in self._sqrtc:
            return self._sqrtc[n]      # one algebraic constant per path, however often the oracle asks for it
        r = self.fresh_real("sqrtc")
        lo = math.sqrt(n)
        self.add_pc(z3.And(r * r == lift(n), r > _rat(lo * 0.999), r < _rat(lo * 1.001)), defining=True)
        self._sqrtc[n] = Sym(r)
        return self._sqrtc[n]

    # ---- fresh internals
    def fresh_int(self, tag):
        self.fresh += 1
        return z3.Int("_%s%d" % (tag, self.fresh))

    def fresh_real(self, tag):
        self.fresh += 1
        return z3.Real("_%s%d" % (tag, self.fresh))

    def format_marker(self, s, spec):
        k = "\x00S%d\x00" % len(self.markers)
        self.markers[k] = (s, spec)
        return k

    # ---- path condition
    def add_pc(self, c, defining=False):
        self.pc.append(c)
        self.solver.add(c)
        if self.model_valid and not defining:
            try:
                v = self.model.eval(c, model_completion=True)
                if not z3.is_true(z3.simplify(v)):
                    self.model_valid = False
            except z3.Z3Exception:
                self.model_valid = False
        elif defining:
            self.model_valid = False

    def _assume_raw(self, c):
        self.assumes.append(c)
        self.add_pc(c)

    def assume(self, cond):
        if self.mode == "conc":
            if not cond:
                raise Reject("assume")
            return
        if isinstance(cond, bool):
            if not cond:
                raise Infeasible()
            return
        c = z3.simplify(_b(cond))
        if z3.is_true(c):
            return
        if z3.is_false(c):
            raise Infeasible()
        self._assume_raw(c)
        # make sure the path stays feasible
        if not self.model_valid:
            r = self._check()
            if r == "unsat":
                raise Infeasible()

    def _check(self, *extra, fresh=False):
        """Incremental query (push/pop) for branch feasibility; fresh=True builds a one-shot solver so that
        z3 selects its tactic-based (nlsat) strategy, which the incremental core does not use.  An incremental
        'unknown' is retried one-shot."""
        t = time.time()
        res = None
        m = None
        if not fresh:
            if extra:
                self.solver.push()
                for c in extra:
                    self.solver.add(c)
            r = self.solver.check()
            res = str(r)
            if res == "sat":
                m = self.solver.model()
            if extra:
                self.solver.pop()
            self.queries += 1
        if fresh or res == "unknown":
            s = z3.Solver()
            s.set("timeout", self.qtimeout_ms if fresh else self.timeout_ms)
            for c in self.pc:
                s.add(c)
            for c in extra:
                s.add(c)
            res = str(s.check())
            m = s.model() if res == "sat" else None
            self.queries += 1
            self.fresh_queries += 1
        self.solver_s += time.time() - t
        if not extra:
            if res == "sat":
                self.model, self.model_valid = m, True
            return res
        return res, m

    def get_model(self):
        if self.model_valid:
            return self.model
        r = self._check()
        if r == "sat":
            return self.model
        return None

    def branch(self, cond, payload=None):
        if self.mode == "conc":
            raise RuntimeError("symbolic branch in concrete mode")
        cond = z3.simplify(cond)
        if z3.is_true(cond):
            return True
        if z3.is_false(cond):
            return False
        n = len(self.trace)
        if n >= self.max_depth:
            raise Abort("decision depth cap")
        if n < len(self.prefix):
            d, pend = self.prefix[n][0], self.prefix[n][1]
            self.trace.append(list(self.prefix[n]))
            self.add_pc(cond if d else z3.Not(cond))
            return d
        # model-guided: the side the current model takes is feasible
        d0 = None
        m = self.get_model()
        if m is not None:
            try:
                v = z3.simplify(m.eval(cond, model_completion=True))
                if z3.is_true(v):
                    d0 = True
                elif z3.is_false(v):
                    d0 = False
            except z3.Z3Exception:
                d0 = None
        if d0 is not None:
            other = z3.Not(cond) if d0 else cond
            r, _ = self._check(other)
            if r == "unknown":
                self.unknown_branches += 1
            pend = r != "unsat"
            self.trace.append([d0, pend] if payload is None else [d0, pend, payload])
            keep = self.model
            self.add_pc(cond if d0 else z3.Not(cond))
            self.model, self.model_valid = keep, True
            return d0
        rt, mt = self._check(cond)
        rf, mf = self._check(z3.Not(cond))
        if rt == "unknown" or rf == "unknown":
            self.unknown_branches += 1
        ft, ff = rt != "unsat", rf != "unsat"
        if ft and ff:
            d = True
            self.trace.append([True, True])
        elif ft:
            d = True
            self.trace.append([True, False])
        elif ff:
            d = False
            self.trace.append([False, False])
        else:
            raise Infeasible()
        if payload is not None:
            self.trace[-1].append(payload)
        self.add_pc(cond if d else z3.Not(cond))
        mm = mt if d else mf
        if mm is not None:
            self.model, self.model_valid = mm, True
        return d

    # ---- obligations
    def check(self, name, cond):
        ob = Ob(name, "bool")
        if self.mode == "conc":
            ob.ok = bool(cond)
        else:
            ob.formula = _b(cond) if is_sym(cond) else z3.BoolVal(bool(cond))
        self.obs.append(ob)

    def check_eq(self, name, got, want):
        """Exact equality (integers, or exact rational arithmetic)."""
        ob = Ob(name, "eq")
        ob.got, ob.want = got, want
        if self.mode == "conc":
            ob.ok = bool(got == want)
            ob.detail = (repr(got), repr(want))
        else:
            if is_sym(got) or is_sym(want):
                if isinstance(got, SymBool) or isinstance(want, SymBool):
                    ob.formula = _b(got) == _b(want)
                else:
                    a, b = _num2(got, want)
                    ob.formula = a == b
            else:
                ob.formula = z3.BoolVal(bool(got == want))
        self.obs.append(ob)

    def check_close(self, name, got, want, scale=None, rel=REL_TOL, abs_tol=0.0):
        """|got - want| <= rel*scale + abs_tol ; scale defaults to |got|+|want|."""
        ob = Ob(name, "close")
        ob.got, ob.want = got, want
        if scale is None:
            scale = abs(got) + abs(want)
        ob.scale = scale
        if self.mode == "conc":
            g, w, s = float(got), float(want), float(scale)
            ob.ok = abs(g - w) <= REPLAY_TOL * abs(s) + abs_tol
            ob.detail = (g, w)
        else:
            if not (is_sym(got) or is_sym(want)):
                g, w, s = float(got), float(want), float(scale) if not is_sym(scale) else 0.0
                ob.formula = z3.BoolVal(abs(g - w) <= max(rel * abs(s), 1e-12 * (abs(g) + abs(w))) + abs_tol)
                ob.margin_formula = ob.formula
            else:
                a, b = _num2(got, want)
                if z3.is_int(a):
                    a, b = z3.ToReal(a), z3.ToReal(b)
                s = lift(scale)
                if z3.is_int(s):
                    s = z3.ToReal(s)
                d = a - b
                ob.exact_formula = a == b
                at = _rat(abs_tol)
                ob.formula = z3.And(d <= _rat(rel) * s + at, -d <= _rat(rel) * s + at)
                ob.margin_formula = z3.And(d <= _rat(REL_MARGIN) * s + 10 * at, -d <= _rat(REL_MARGIN) * s + 10 * at)
        self.obs.append(ob)

    def note(self, s):
        if s not in self.notes:
            self.notes.append(s)
