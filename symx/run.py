"""CLI: python -m symx.run Cxx [--tier quick|thorough] [--replay file] [--only harness] [-j N]"""
import argparse
import glob
import importlib
import json
import multiprocessing as mp
import os
import sys
import time

VERIF = os.path.dirname(os.path.dirname(os.path.abspath(__file__)))
os.environ.setdefault("MPLCONFIGDIR", os.path.join(VERIF, ".cache", "mpl"))
os.makedirs(os.environ["MPLCONFIGDIR"], exist_ok=True)
sys.path.insert(0, VERIF)
if os.environ.get("ARMI_REPO"):
    # evaluate a scratch copy of the repository (seeded-change rehearsal) instead of /repo
    sys.path.insert(0, os.path.realpath(os.environ["ARMI_REPO"]))


def _load(prop):
    from symx import engine

    mods = sorted(glob.glob(os.path.join(VERIF, "harness", prop + "_*.py")))
    for m in mods:
        importlib.import_module("harness." + os.path.basename(m)[:-3])
    return [h for h in engine.REGISTRY if h.prop == prop]


def _init_armi():
    import armi

    if not armi.isConfigured():
        armi.configure(permissive=True)
    from armi import runLog

    try:
        runLog.setVerbosity("error")
        # armi reports documented refusals with runLog.error before raising; thousands of paths would flood the
        # check's output (which carries the verdict lines): logging is silenced (logging is not under test)
        import logging

        logging.disable(logging.CRITICAL)
    except Exception:
        pass


def _work(job):
    prop, hname, idx, tier, seed, replay_dir = job
    sys.setrecursionlimit(20000)
    t0 = time.time()
    try:
        _init_armi()
        from symx import engine

        hs = [h for h in _load(prop) if h.name == hname]
        h = hs[0]
        params = (h.instances.get(tier, h.instances.get("quick")) or [])[idx]
        res = engine.run_instance(h, params, tier, seed, replay_dir)
    except BaseException as e:  # worker must always answer
        import traceback

        res = dict(property=prop, harness=hname, params={"_idx": idx}, tier=tier, paths=0, paths_nontrivial=0,
                   exhaustive=False, aborted=[], obligations=0, discharged=0, trivial=0, inconclusive=[],
                   violations=[], known=[], harness_errors=["worker crashed: %r\n%s" % (e, traceback.format_exc())],
                   queries=0, solver_s=0.0, unknown_branches=0, hash_ambiguous=0, canary=None, selftest=None,
                   functions=[], samples=[], notes=[], bounds="", stubs=[], outside=[], infeasible_paths=0)
    res["wall_s"] = time.time() - t0
    return res


def _child(job, conn):
    try:
        conn.send(_work(job))
    finally:
        conn.close()


def _killed(job, why, died=False):
    """died: the worker process vanished (interpreter crash inside C code, os._exit): nothing was decided for this
    instance and it must not pass as 'held' -> harness error (exit 3).  A wall-clock kill stays inconclusive."""
    prop, hname, idx, tier, seed, _ = job
    res = _killed0(job, why)
    if died:
        res["harness_errors"] = ["instance %d: %s (the interpreter crashed while running this harness: no verdict)"
                                 % (idx, why)]
    return res


def _killed0(job, why):
    prop, hname, idx, tier, seed, _ = job
    return dict(property=prop, harness=hname, params={"_idx": idx}, tier=tier, paths=0, paths_nontrivial=0,
                exhaustive=False, aborted=[why], obligations=0, discharged=0, trivial=0, inconclusive=[],
                violations=[], known=[], harness_errors=[], queries=0, solver_s=0.0, unknown_branches=0,
                hash_ambiguous=0, canary=None, selftest=None, functions=[], samples=[], notes=[why], bounds="",
                stubs=[], outside=[], infeasible_paths=0, wall_s=0.0)


def _schedule(jobs, nproc, hard_s):
    """One forked process per harness instance, at most nproc at a time, each under a hard wall-clock limit
    (a solver call that ignores its timeout must not hang the check; a killed instance is inconclusive)."""
    ctx = mp.get_context("fork")
    pending = list(enumerate(jobs))
    running = {}
    results = [None] * len(jobs)
    while pending or running:
        while pending and len(running) < max(1, nproc):
            i, job = pending.pop(0)
            pc, cc = ctx.Pipe(duplex=False)
            p = ctx.Process(target=_child, args=(job, cc), daemon=True)
            p.start()
            cc.close()
            running[i] = (p, pc, time.time(), job)
        time.sleep(0.05)
        for i in list(running):
            p, pc, t0, job = running[i]
            if pc.poll():
                try:
                    results[i] = pc.recv()
                except EOFError:
                    results[i] = _killed(job, "worker died without an answer", died=True)
                p.join(5)
                del running[i]
            elif not p.is_alive():
                results[i] = _killed(job, "worker died without an answer", died=True)
                del running[i]
            elif time.time() - t0 > hard_s:
                p.kill()
                p.join(5)
                results[i] = _killed(job, "instance killed after %ds wall clock (inconclusive)" % hard_s)
                del running[i]
    return results


def replay(prop, path):
    _init_armi()
    from symx import engine

    d = json.load(open(path))
    hs = [h for h in _load(prop) if h.name == d["harness"]]
    if not hs:
        print("unknown harness", d["harness"])
        return 3
    h = hs[0]
    funcs = {}
    for name, fd in (d.get("funcs") or {}).items():
        entries = fd["entries"]

        def f(*args, entries=entries, else_=fd["else_"]):
            for ea, v in entries:
                if max(abs(a - b) / (1e-12 + abs(a) + abs(b)) for a, b in zip(args, ea)) < 1e-9:
                    return v
            try:
                return float(else_)
            except Exception:
                return 0.0

        funcs[name] = f
    rep = engine.conc_run(h, d["params"], d["inputs"], funcs)
    if rep.status == "exception" and d["obligation"] == "no-unexpected-exception":
        print("VIOLATION property=%s replay=%s" % (prop, path))
        print("  real code raised", repr(rep.exc))
        return 1
    bad = [o for o in rep.ctx.obs if o.ok is False and o.name == d["obligation"]]
    if bad:
        print("VIOLATION property=%s replay=%s" % (prop, path))
        print("  obligation %s fails on the real code: %s" % (d["obligation"], bad[0].detail))
        return 1
    print("replay: obligation %s holds on the current tree (status=%s)" % (d["obligation"], rep.status))
    return 0


def main(argv=None):
    ap = argparse.ArgumentParser()
    ap.add_argument("prop")
    ap.add_argument("--tier", default=os.environ.get("VERIF_TIER", "quick"))
    ap.add_argument("--replay")
    ap.add_argument("--only")
    ap.add_argument("-j", type=int, default=int(os.environ.get("VERIF_JOBS", 0)) or min(16, os.cpu_count() or 4))
    ap.add_argument("--no-evidence", action="store_true")
    a = ap.parse_args(argv)
    tier = a.tier if a.tier in ("quick", "thorough") else "quick"
    os.environ["VERIF_TIER"] = tier          # visible to harness code in the forked workers
    seed = int(os.environ.get("VERIF_SEED", "0") or 0)
    if a.replay:
        return replay(a.prop, a.replay)
    t0 = time.time()
    sys.setrecursionlimit(20000)
    _init_armi()
    hs = _load(a.prop)
    if a.only:
        hs = [h for h in hs if a.only in h.name]
    if not hs:
        print("no harness for", a.prop)
        return 3
    replay_dir = os.path.join(VERIF, "replays")
    jobs = []
    for h in hs:
        inst = h.instances.get(tier, h.instances.get("quick")) or []
        for i in range(len(inst)):
            jobs.append((a.prop, h.name, i, tier, seed, replay_dir))
    results = _schedule(jobs, a.j, hard_s=int(os.environ.get("VERIF_HARD_S", 0)) or (600 if tier == "quick" else 3600))
    from symx import report

    code = report.finish(a.prop, tier, seed, results, time.time() - t0, write=not (a.no_evidence or a.only))
    return code


if __name__ == "__main__":
    sys.exit(main())
