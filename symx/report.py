"""Aggregate worker results into verdict lines, exit code and /verif/evidence/<id>.json"""
import json
import os

import z3

VERIF = os.path.dirname(os.path.dirname(os.path.abspath(__file__)))


def finish(prop, tier, seed, results, wall, write=True):
    tot = dict(paths=0, paths_nontrivial=0, obligations=0, discharged=0, trivial=0, queries=0, solver_s=0.0,
               normalised_identities=0, exact_identities=0, cvc5_checked=0, cvc5_agree=0, cvc5_unknown=0)
    viol, known, herr, inconc, aborted = [], [], [], [], []
    functions, stubs, outside, samples = set(), [], [], []
    canaries = caught = 0
    st_vectors = st_compared = 0
    per = []
    for r in results:
        for k in tot:
            tot[k] += r.get(k, 0)
        viol += r["violations"]
        known += r["known"]
        herr += ["%s: %s" % (r["harness"], e) for e in r["harness_errors"]]
        inconc += ["%s: %s" % (r["harness"], e) for e in r["inconclusive"]]
        aborted += ["%s: %s" % (r["harness"], e) for e in r["aborted"]]
        functions.update(r["functions"])
        for s in r["stubs"]:
            if s not in stubs:
                stubs.append(s)
        for s in r["outside"]:
            if s not in outside:
                outside.append(s)
        if len(samples) < 6:
            samples += r["samples"][:2]
        c = r.get("canary")
        if c is not None:
            canaries += 1
            if c["caught"]:
                caught += 1
            else:
                herr.append("%s %s: canary (deliberately wrong oracle) was NOT caught: %s" % (
                    r["harness"], r["params"], c))
        st = r.get("selftest")
        if st:
            st_vectors += st.get("vectors", 0)
            st_compared += st.get("compared", 0)
            herr += ["%s: selftest: %s" % (r["harness"], f) for f in st.get("failures", [])]
        per.append(dict(harness=r["harness"], params=r["params"], bounds=r["bounds"], paths=r["paths"],
                        exhaustive=r["exhaustive"], obligations=r["obligations"], discharged=r["discharged"],
                        inconclusive=len(r["inconclusive"]), aborted=len(r["aborted"]),
                        infeasible_paths=r.get("infeasible_paths", 0),
                        unknown_branches=r["unknown_branches"], queries=r["queries"],
                        solver_s=round(r["solver_s"], 3), wall_s=round(r["wall_s"], 2), canary=r.get("canary"),
                        selftest=r.get("selftest"), notes=r["notes"][:4]))
    for v in known:
        print("KNOWN-FINDING: property=%s %s [harness=%s obligation=%s inputs=%s]" % (
            prop, v.get("known"), v["harness"], v["obligation"], v["inputs"]))
    for v in viol:
        print("VIOLATION property=%s replay=%s" % (prop, v.get("replay")))
        print("  harness=%s obligation=%s inputs=%s observed=%s" % (
            v["harness"], v["obligation"], v["inputs"], v.get("observed")))
    for e in herr[:20]:
        print("HARNESS-ERROR:", e[:1500])
    if inconc or aborted:
        print("inconclusive obligations: %d, aborted paths: %d" % (len(inconc), len(aborted)))
        for e in (inconc + aborted)[:8]:
            print("   ", e[:300])
    if os.environ.get("VERIF_TIMES"):
        for r in sorted(results, key=lambda r: -r.get("wall_s", 0))[:int(os.environ["VERIF_TIMES"] or 10)]:
            print("   %7.1fs  %s %s" % (r.get("wall_s", 0), r["harness"], str(r.get("params"))[:150]))
    print("%s %s: harness instances=%d paths=%d obligations=%d discharged=%d (trivial %d) queries=%d "
          "solver=%.1fs canaries=%d/%d wall=%.1fs" % (prop, tier, len(results), tot["paths"], tot["obligations"],
                                                       tot["discharged"], tot["trivial"], tot["queries"],
                                                       tot["solver_s"], caught, canaries, wall))
    if write:
        ev = dict(
            property_id=prop, tier=tier, seed=seed, level="other", wall_s=round(wall, 2), violations=len(viol),
            coverage=dict(
                explanation="Bounded symbolic execution of the real armi functions (proxies over z3 terms, "
                            "depth-first path exploration) with every obligation discharged by the SMT solver "
                            "under the path condition; counterexamples are replayed on the real code with plain "
                            "numbers before being reported. Holds for all values within the stated bounds on the "
                            "functions listed, with the stubs listed; nothing is claimed outside them.",
                evaluations=tot["paths"],
                distinct_nontrivial=tot["paths_nontrivial"],
                rule="one evaluation = one feasible path of a harness through the real code (distinct branch-"
                     "decision vector); non-trivial = the path carried at least one obligation that did not "
                     "simplify to true and had to go to the solver",
                obligations=tot["obligations"], discharged=tot["discharged"],
                discharged_by_simplification=tot["trivial"],
                discharged_as_rational_function_identity=tot["normalised_identities"],
                discharged_as_exact_identity_by_solver=tot["exact_identities"],
                inconclusive=len(inconc), aborted_paths=len(aborted),
                exhaustive=all(r["exhaustive"] for r in results),
                paths_exhaustive_per_harness={"%s%s" % (r["harness"], json.dumps(r["params"], default=str)):
                                              r["exhaustive"] for r in results},
                queries=tot["queries"], solver_s=round(tot["solver_s"], 2),
                solver="z3 " + z3.get_version_string(),
                second_solver=dict(name="cvc5 (binary on PATH)", queries_rechecked=tot["cvc5_checked"],
                                   agree=tot["cvc5_agree"], unknown_or_timeout=tot["cvc5_unknown"],
                                   note="thorough tier only: a sample of the unsat verdicts is exported as SMT-LIB2 "
                                        "and re-decided by cvc5; a 'sat' answer is a harness error"),
                canaries=canaries, canaries_caught=caught,
                selftest_vectors=st_vectors, selftest_values_compared=st_compared,
                functions_encoded=sorted(functions), stubs=stubs, outside_claim=outside,
                harnesses=per, samples=samples or [dict(note="no non-trivial obligation reached")],
                known_findings=[dict(what=v.get("known"), harness=v["harness"], obligation=v["obligation"],
                                     inputs=v["inputs"]) for v in known],
                inconclusive_detail=(inconc + aborted)[:20], harness_errors=herr[:10],
            ),
            assumptions=["IEEE doubles are modelled as exact reals; obligations on reals carry a 1e-9 relative "
                         "tolerance and counterexamples must violate by 1e-6 and reproduce on floats",
                         "bounds per harness as listed in coverage.harnesses[].bounds",
                         "z3 is trusted; the proxy engine is differentially self-tested against plain-number runs "
                         "of the same code on every run"] + ["stub: " + s for s in stubs],
        )
        os.makedirs(os.path.join(VERIF, "evidence"), exist_ok=True)
        with open(os.path.join(VERIF, "evidence", prop + ".json"), "w") as f:
            json.dump(ev, f, indent=1, default=repr)
    if viol:
        return 1
    if herr:
        return 3
    return 0
