"""Rational-function normal form of z3 real/int arithmetic terms.

Used as a pre-pass for equalities between rational functions of the symbolic inputs: if
``num(a)*den(b) - num(b)*den(a)`` expands to the zero polynomial the identity holds wherever the
denominators are non-zero (which the path condition guarantees: every division forked on ``b == 0``).
Sub-terms that are not +,-,*,/ or constants (If, uninterpreted applications, variables) are opaque atoms.
The expanded difference is handed back as a z3 term so that the solver itself confirms the verdict.
"""
from fractions import Fraction

import z3


class TooBig(Exception):
    pass


LIMIT = 60000


def padd(p, q, sign=1):
    r = dict(p)
    for m, c in q.items():
        v = r.get(m, 0) + sign * c
        if v == 0:
            r.pop(m, None)
        else:
            r[m] = v
    return r


def pmul(p, q):
    if len(p) * len(q) > 4 * LIMIT:
        raise TooBig()
    r = {}
    for m1, c1 in p.items():
        for m2, c2 in q.items():
            if not m1:
                m = m2
            elif not m2:
                m = m1
            else:
                d = dict(m1)
                for v, e in m2:
                    d[v] = d.get(v, 0) + e
                m = tuple(sorted(d.items()))
            v = r.get(m, 0) + c1 * c2
            if v == 0:
                r.pop(m, None)
            else:
                r[m] = v
    if len(r) > LIMIT:
        raise TooBig()
    return r


def pkey(p):
    return frozenset(p.items())


ONE = {(): Fraction(1)}


class RF:
    """numerator polynomial / product of denominator factors (factor-key -> (poly, multiplicity))"""

    __slots__ = ("n", "d")

    def __init__(self, n, d=None):
        self.n = n
        self.d = d or {}


def _scale_to(rf, target):
    """numerator of rf over the denominator 'target' (a superset multiset of rf.d)"""
    n = rf.n
    for k, (p, mult) in target.items():
        have = rf.d.get(k, (None, 0))[1]
        for _ in range(mult - have):
            n = pmul(n, p)
    return n


def _lcm(d1, d2):
    r = dict(d1)
    for k, (p, m) in d2.items():
        if k in r:
            r[k] = (p, max(r[k][1], m))
        else:
            r[k] = (p, m)
    return r


def rf_add(a, b, sign=1):
    d = _lcm(a.d, b.d)
    return RF(padd(_scale_to(a, d), _scale_to(b, d), sign), d)


def _const_of(p):
    if len(p) == 1 and () in p:
        return p[()]
    return None


def rf_mul(a, b):
    d = {}
    for src in (a.d, b.d):
        for k, (p, m) in src.items():
            if k in d:
                d[k] = (p, d[k][1] + m)
            else:
                d[k] = (p, m)
    n1, n2 = a.n, b.n
    # cancel a numerator that is exactly a denominator factor
    for which in (0, 1):
        nn = n1 if which == 0 else n2
        k = pkey(nn)
        if k in d and len(nn) > 0:
            p, m = d[k]
            if m == 1:
                del d[k]
            else:
                d[k] = (p, m - 1)
            if which == 0:
                n1 = ONE
            else:
                n2 = ONE
    return RF(pmul(n1, n2), d)


def rf_inv(a):
    # 1 / (n / prod d) = prod d / n
    num = ONE
    for k, (p, m) in a.d.items():
        for _ in range(m):
            num = pmul(num, p)
    c = _const_of(a.n)
    if c is not None:
        if c == 0:
            raise ZeroDivisionError
        return RF({m: v / c for m, v in num.items()}, {})
    # normalise the factor so that equal factors share a key: make leading coeff 1
    lead = a.n[min(a.n)]
    p = {m: v / lead for m, v in a.n.items()}
    num = {m: v / lead for m, v in num.items()}
    return RF(num, {pkey(p): (p, 1)})


class Normalizer:
    def __init__(self):
        self.cache = {}
        self.atoms = {}   # id -> z3 term

    def atom(self, e):
        i = e.get_id()
        self.atoms[i] = e
        return RF({((i, 1),): Fraction(1)})

    def conv(self, e):
        i = e.get_id()
        r = self.cache.get(i)
        if r is None:
            r = self._conv(e)
            self.cache[i] = r
        return r

    def _conv(self, e):
        if z3.is_int_value(e):
            v = e.as_long()
            return RF({(): Fraction(v)} if v else {})
        if z3.is_rational_value(e):
            v = e.as_fraction()
            return RF({(): Fraction(v)} if v else {})
        if not z3.is_app(e):
            return self.atom(e)
        k = e.decl().kind()
        ch = e.children()
        if k == z3.Z3_OP_ADD:
            r = self.conv(ch[0])
            for c in ch[1:]:
                r = rf_add(r, self.conv(c))
            return r
        if k == z3.Z3_OP_SUB:
            r = self.conv(ch[0])
            for c in ch[1:]:
                r = rf_add(r, self.conv(c), -1)
            return r
        if k == z3.Z3_OP_UMINUS:
            a = self.conv(ch[0])
            return RF({m: -v for m, v in a.n.items()}, a.d)
        if k == z3.Z3_OP_MUL:
            r = self.conv(ch[0])
            for c in ch[1:]:
                r = rf_mul(r, self.conv(c))
            return r
        if k == z3.Z3_OP_DIV:
            return rf_mul(self.conv(ch[0]), rf_inv(self.conv(ch[1])))
        if k == z3.Z3_OP_TO_REAL:
            return self.conv(ch[0])
        if k == z3.Z3_OP_POWER and z3.is_int_value(ch[1]) and 0 <= ch[1].as_long() <= 6:
            r = RF(ONE)
            a = self.conv(ch[0])
            for _ in range(ch[1].as_long()):
                r = rf_mul(r, a)
            return r
        return self.atom(e)

    def difference_numerator(self, a, b):
        """polynomial P with a - b = P / (product of denominators)"""
        ra, rb = self.conv(a), self.conv(b)
        return rf_add(ra, rb, -1).n

    def to_z3(self, p):
        terms = []
        for m, c in p.items():
            t = z3.RealVal(c)
            for (i, e) in m:
                at = self.atoms[i]
                if z3.is_int(at):
                    at = z3.ToReal(at)
                for _ in range(e):
                    t = t * at
            terms.append(t)
        return z3.Sum(terms) if terms else z3.RealVal(0)


def identical(a, b):
    """True if a - b normalises to the zero polynomial; None if undecided / too big."""
    try:
        nz = Normalizer()
        p = nz.difference_numerator(a, b)
    except (TooBig, ZeroDivisionError, RecursionError):
        return None, None
    if not p:
        return True, z3.RealVal(0)
    return False, None
