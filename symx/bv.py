"""Fixed-width bit-vector proxy for bit kernels (unsigned semantics; width chosen by the harness so that the
Python-int computation cannot exceed it, which is asserted by the harness as an obligation where relevant)."""
import z3

from .core import Ctx, Sym, SymBool, Abort


def _lift(x, w):
    if isinstance(x, SymBV):
        if x.w != w:
            raise Abort("mixed bit widths")
        return x.e
    if isinstance(x, bool):
        return z3.BitVecVal(int(x), w)
    if isinstance(x, int):
        if x < 0 or x >= (1 << w):
            raise Abort("constant %d does not fit %d bits" % (x, w))
        return z3.BitVecVal(x, w)
    if isinstance(x, Sym) and x.is_int:
        return z3.Int2BV(x.e, w)
    raise TypeError(type(x))


class SymBV:
    __slots__ = ("e", "w")

    def __init__(self, e, w=None):
        self.e = e
        self.w = w or e.size()

    def _b(self, o, f, r=False):
        try:
            b = _lift(o, self.w)
        except TypeError:
            return NotImplemented
        a = self.e
        if r:
            a, b = b, a
        return SymBV(z3.simplify(f(a, b)), self.w)

    def __and__(s, o):
        return s._b(o, lambda a, b: a & b)

    __rand__ = __and__

    def __or__(s, o):
        return s._b(o, lambda a, b: a | b)

    __ror__ = __or__

    def __xor__(s, o):
        return s._b(o, lambda a, b: a ^ b)

    __rxor__ = __xor__

    def __lshift__(s, o):
        return s._b(o, lambda a, b: a << b)

    def __rlshift__(s, o):
        return s._b(o, lambda a, b: a << b, True)

    def __rshift__(s, o):
        return s._b(o, lambda a, b: z3.LShR(a, b))

    def __rrshift__(s, o):
        return s._b(o, lambda a, b: z3.LShR(a, b), True)

    def __add__(s, o):
        return s._b(o, lambda a, b: a + b)

    __radd__ = __add__

    def __sub__(s, o):
        return s._b(o, lambda a, b: a - b)

    def __invert__(s):
        return SymBV(~s.e, s.w)

    def _c(self, o, f):
        return SymBool(z3.simplify(f(self.e, _lift(o, self.w))))

    def __lt__(s, o):
        return s._c(o, z3.ULT)

    def __le__(s, o):
        return s._c(o, z3.ULE)

    def __gt__(s, o):
        return s._c(o, z3.UGT)

    def __ge__(s, o):
        return s._c(o, z3.UGE)

    def __eq__(s, o):
        try:
            return s._c(o, lambda a, b: a == b)
        except TypeError:
            return False

    def __ne__(s, o):
        try:
            return s._c(o, lambda a, b: a != b)
        except TypeError:
            return True

    def __hash__(s):
        return hash(s.e)

    def __bool__(s):
        return Ctx.cur.branch(s.e != 0)

    def __index__(s):
        raise Abort("bit-vector proxy used as an index")

    def bit(s, k):
        return SymBool(z3.Extract(k, k, s.e) == 1)

    def __repr__(s):
        return "SymBV(%s)" % s.e

    def __deepcopy__(self, memo):
        return self

    def __copy__(self):
        return self
