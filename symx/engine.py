"""Exploration driver: paths, obligation discharge, replay, canary, differential self-test."""
import fractions
import json
import math
import re
import os
import random
import sys
import time
import traceback

import z3

sys.set_int_max_str_digits(0)

from . import core, ratnorm
from .core import Abort, Ctx, Infeasible, Reject, Sym, SymBool

REPO_PREFIX = os.path.realpath(os.environ.get("ARMI_REPO", "/repo")) + os.sep


class Harness:
    def __init__(self, prop, name, fn, instances=None, bounds="", stubs=(), outside=(), max_paths=3000,
                 qtimeout_ms=10000, canary=True, selftest=True, budget_s=None, raises=()):
        self.prop = prop
        self.name = name
        self.fn = fn
        # instances: {'quick': [params...], 'thorough': [params...]}
        self.instances = instances or {"quick": [{}], "thorough": [{}]}
        self.bounds = bounds
        self.stubs = list(stubs)
        self.outside = list(outside)
        self.max_paths = max_paths
        self.qtimeout_ms = qtimeout_ms
        self.canary = canary
        self.selftest = selftest
        self.budget_s = budget_s
        self.raises = tuple(raises)


REGISTRY = []


def harness(prop, name=None, **kw):
    def deco(fn):
        h = Harness(prop, name or fn.__name__, fn, **kw)
        REGISTRY.append(h)
        fn.harness = h
        return fn

    return deco


# ---------------------------------------------------------------------------
# model -> python values


def _val_to_py(v, kind):
    v = z3.simplify(v)
    if kind == "bool":
        return bool(z3.is_true(v))
    if kind == "int":
        return v.as_long()
    if z3.is_int_value(v):
        return float(v.as_long())
    if z3.is_rational_value(v):
        return float(v.as_fraction())
    if z3.is_algebraic_value(v):
        return float(v.approx(30).as_fraction())
    raise ValueError("cannot concretise %s" % v)


def _func_from_model(model, decl):
    fi = model[decl]
    if fi is None:
        return lambda *a: 0.0
    entries = []
    for i in range(fi.num_entries()):
        e = fi.entry(i)
        args = [_val_to_py(e.arg_value(k), "real") for k in range(e.num_args())]
        entries.append((args, _val_to_py(e.value(), "real")))
    else_v = fi.else_value()
    arity = decl.arity()

    def f(*args):
        args = [float(a) for a in args]
        best = None
        for eargs, val in entries:
            d = max(abs(a - b) / (1e-12 + abs(a) + abs(b)) for a, b in zip(args, eargs))
            if d < 1e-9 and (best is None or d < best[0]):
                best = (d, val)
        if best is not None:
            return best[1]
        ev = else_v
        try:
            ev = z3.substitute_vars(else_v, *[z3.RealVal(fractions.Fraction(a)) for a in args])
        except Exception:
            pass
        return _val_to_py(ev, "real")

    f.entries = entries
    f.else_repr = str(else_v)
    f.arity = arity
    return f


def extract_inputs(ctx, model):
    vals = {}
    for name, c in ctx.inputs.items():
        kind = ctx.input_bounds[name][0]
        vals[name] = _val_to_py(model.eval(c, model_completion=True), kind)
    funcs = {name: _func_from_model(model, d) for name, d in ctx.func_decls.items()}
    return vals, funcs


# ---------------------------------------------------------------------------
# one execution of the harness in a given mode


class RunOut:
    def __init__(self):
        self.ctx = None
        self.status = "ok"       # ok | abort | infeasible | reject | exception
        self.exc = None
        self.reason = None
        self.tb = None


def run_once(h, params, **ctxkw):
    out = RunOut()
    ctx = Ctx(**ctxkw)
    out.ctx = ctx
    prev = Ctx.cur
    Ctx.cur = ctx
    try:
        h.fn(ctx, **params)
    except Abort as e:
        out.status, out.reason = "abort", e.reason
    except Infeasible:
        out.status = "infeasible"
    except Reject as e:
        out.status, out.reason = "reject", str(e)
    except RecursionError as e:
        out.status, out.reason = "abort", "recursion"
    except Exception as e:  # noqa: real code raised on this path
        out.status, out.exc = "exception", e
        out.tb = traceback.format_exc(limit=12)
    finally:
        Ctx.cur = prev
    return out


def conc_run(h, params, vals, funcs, canary=False):
    return run_once(h, params, mode="conc", values=vals, funcs=funcs, canary=canary)


# ---------------------------------------------------------------------------
# known findings


def load_known(path="/verif/known_findings.jsonl"):
    out = []
    if os.path.exists(path):
        for line in open(path):
            line = line.strip()
            if not line or line.startswith("#") or line.startswith("fixed:"):
                continue
            out.append(json.loads(line))
    return out


_PRED_ENV = {"abs": abs, "len": len, "set": set, "min": min, "max": max, "any": any, "all": all, "str": str, "int": int, "AND": core.AND, "OR": core.OR, "NOT": core.NOT, "True": True, "False": False}


def known_pred(entry, inputs, params):
    env = dict(_PRED_ENV)
    env.update(params)
    env.update({k: v for k, v in inputs.items() if k.isidentifier()})
    env["inputs"] = inputs
    env["params"] = params
    return eval(entry.get("when", "True"), {"__builtins__": {}}, env)  # noqa: S307 - committed file


# ---------------------------------------------------------------------------
# exploration


class Result:
    def __init__(self, h, params, tier):
        self.d = dict(
            property=h.prop, harness=h.name, params=params, tier=tier, bounds=h.bounds, stubs=h.stubs,
            outside=h.outside, paths=0, paths_nontrivial=0, exhaustive=False, aborted=[], obligations=0, discharged=0,
            trivial=0, normalised_identities=0, exact_identities=0, inconclusive=[], violations=[], known=[], harness_errors=[], queries=0, solver_s=0.0,
            unknown_branches=0, hash_ambiguous=0, canary=None, selftest=None, functions=[], samples=[], notes=[],
            wall_s=0.0, infeasible_paths=0,
        )


def _profile_functions(store):
    def prof(frame, event, arg):
        if event == "call":
            co = frame.f_code
            fn = co.co_filename
            if fn.startswith(REPO_PREFIX):
                mod = fn[len(REPO_PREFIX):-3].replace(os.sep, ".")
                store.add(mod + "." + getattr(co, "co_qualname", co.co_name))

    return prof


def _next_prefix(trace):
    tr = [list(x) for x in trace]
    while tr and not tr[-1][1]:
        tr.pop()
    if not tr:
        return None
    last = tr.pop()
    return tr + [[not last[0], False] + last[2:]]


def _smt(formula):
    s = formula.sexpr()
    return s if len(s) < 600 else s[:600] + " ..."


def _query(ctx, formula, extra=()):
    r, m = ctx._check(z3.Not(formula), *extra, fresh=True)
    if r == "unknown" and getattr(ctx, "qtimeout_ms", None):
        # an obligation query that timed out is asked once more with three times the budget (solver time depends
        # on machine load; an `unknown` is only ever reported as inconclusive, never as held)
        qt = ctx.qtimeout_ms
        ctx.qtimeout_ms = 3 * qt
        try:
            r, m = ctx._check(z3.Not(formula), *extra, fresh=True)
        finally:
            ctx.qtimeout_ms = qt
    return r, m


def _hash_ambiguity(ctx):
    """Two structurally different hashed proxies that may be equal under the pc make set/dict behaviour
    diverge from the float run: such a path is inconclusive."""
    items = list(ctx.hashed.values())
    n = 0
    if len(items) > 40:
        return 0
    for i in range(len(items)):
        for j in range(i + 1, len(items)):
            a, b = items[i], items[j]
            if a.sort() != b.sort():
                if z3.is_bool(a) or z3.is_bool(b):
                    continue
                a = z3.ToReal(a) if z3.is_int(a) else a
                b = z3.ToReal(b) if z3.is_int(b) else b
            if z3.is_true(z3.simplify(a != b)):
                continue
            r, _ = ctx._check(a == b)
            if r != "unsat":
                n += 1
    return n


def explore(h, params, tier, seed, canary=False, known=(), stop_on_violation=False, budget_s=None, replay_dir=None):
    res = Result(h, params, tier).d
    t0 = time.time()
    prefix = []
    funcs_seen = set()
    first_ctx = None
    first_ok = False
    budget_s = budget_s or h.budget_s or (240 if tier == "quick" else 3000)
    qt = h.qtimeout_ms if tier == "quick" else max(h.qtimeout_ms, 60000)
    while True:
        if res["paths"] + len(res["aborted"]) + res["infeasible_paths"] >= h.max_paths * (1 if tier == "quick" else 20):
            res["notes"].append("path cap reached")
            break
        if time.time() - t0 > budget_s:
            res["notes"].append("time budget reached")
            break
        profiling = res["paths"] == 0 and not canary and not funcs_seen
        if profiling:
            sys.setprofile(_profile_functions(funcs_seen))
        try:
            out = run_once(h, params, mode="sym", prefix=prefix, timeout_ms=qt, canary=canary)
        finally:
            if profiling:
                sys.setprofile(None)
        ctx = out.ctx
        if first_ctx is None or (not first_ok and out.status == "ok"):
            # the self-test samples input vectors from the assumptions of the first COMPLETED path
            first_ctx = ctx
            first_ok = out.status == "ok"
        if out.status == "infeasible":
            res["infeasible_paths"] += 1
        elif out.status == "abort":
            res["aborted"].append(out.reason)
        elif out.status == "exception" and not isinstance(out.exc, h.raises):
            # candidate: the real code raises on this path -> replay on plain numbers
            res["paths"] += 1
            m = ctx.get_model()
            handled = False
            if m is not None:
                vals, funcs = extract_inputs(ctx, m)
                rep = conc_run(h, params, vals, funcs, canary=canary)
                if rep.status == "exception" and (isinstance(rep.exc, type(out.exc))
                                                  or isinstance(out.exc, type(rep.exc))):
                    # (numpy raises subclasses, e.g. UFuncTypeError on arrays where proxies give TypeError)
                    v = dict(obligation="no-unexpected-exception", inputs=vals, observed=repr(rep.exc)[:300],
                             tb=rep.tb)
                    _record_violation(res, h, params, v, known, replay_dir)
                    handled = True
            if not handled:
                res["aborted"].append("unsupported on proxies: %r" % (out.exc,))
                res["notes"].append((out.tb or "")[-800:])
        else:
            res["paths"] += 1
            amb = _hash_ambiguity(ctx) if ctx.hashed else 0
            if amb:
                res["hash_ambiguous"] += 1
                res["aborted"].append("hash-ambiguous proxies")
            else:
                nontriv = _discharge(res, h, params, ctx, canary, known, replay_dir)
                if nontriv:
                    res["paths_nontrivial"] += 1
        res["queries"] += ctx.queries
        res["solver_s"] += ctx.solver_s
        res["unknown_branches"] += ctx.unknown_branches
        for n in ctx.notes:
            if n not in res["notes"]:
                res["notes"].append(n)
        if stop_on_violation and res["violations"]:
            break
        if len(res["violations"]) >= MAX_VIOLATIONS:
            res["notes"].append("violation cap reached: exploration stopped")
            break
        prefix = _next_prefix(ctx.trace)
        if prefix is None:
            res["exhaustive"] = not res["aborted"] and not res["unknown_branches"]
            break
    res["functions"] = sorted(funcs_seen)
    res["wall_s"] = time.time() - t0
    res["_first_ctx"] = first_ctx
    return res


def _record_violation(res, h, params, v, known, replay_dir):
    v = dict(v, property=h.prop, harness=h.name, params=params)
    for k in known:
        if k.get("property") == h.prop and k.get("harness") == h.name and \
                v["obligation"].startswith(k.get("obligation", "")) and \
                (not k.get("obligation_re") or re.search(k["obligation_re"], v["obligation"])):
            try:
                if known_pred(k, v["inputs"], params):
                    v["known"] = k.get("what", "")
                    if not any(x.get("known") == v["known"] for x in res["known"]):
                        res["known"].append(v)
                    return k
            except Exception:
                pass
    if replay_dir:
        os.makedirs(replay_dir, exist_ok=True)
        tag = "".join(ch if ch.isalnum() else "_" for ch in json.dumps(params, sort_keys=True, default=str))[:60]
        p = os.path.join(replay_dir, "%s_%s_%s_%d.json" % (h.prop, h.name, tag, len(res["violations"])))
        with open(p, "w") as f:
            json.dump({k: v[k] for k in v if k != "funcs"}, f, indent=1, default=repr)
        v["replay"] = p
    res["violations"].append(v)
    return None


def _pinned_search(ctx, goal, tries=6, free=2, timeout_ms=3000):
    """Look for a model of pc & goal with all but `free` inputs pinned to a random valid vector.
    The pins only restrict the query, so a model found is a genuine model of the full formula;
    it makes satisfiable (violated) obligations cheap where the unrestricted nlsat query is slow."""
    rng = random.Random(len(ctx.pc) * 7 + len(ctx.obs))
    names = [n for n in ctx.inputs]
    if len(names) <= free:
        return None
    saved = ctx.qtimeout_ms
    ctx.qtimeout_ms = timeout_ms
    found = None
    try:
        for t in range(tries):
            m0 = _sample_vector(ctx, rng)
            if m0 is None:
                continue
            keep = set(rng.sample(names, free))
            pins = []
            for n in names:
                if n in keep:
                    continue
                c = ctx.inputs[n]
                pins.append(c == m0.eval(c, model_completion=True))
            r, m = ctx._check(goal, *pins, fresh=True)
            if os.environ.get("SYMX_DEBUG"):
                print("pinned try", t, r, len(pins), file=sys.stderr)
            if r == "sat":
                found = m
                break
    finally:
        ctx.qtimeout_ms = saved
    return found


def _cvc5_crosscheck(res, ctx, goal):
    """Second opinion (thorough tier): export pc & goal as SMT-LIB2 and ask the cvc5 binary.  z3 said unsat;
    cvc5 answering sat is a solver disagreement (harness error), unknown/timeout is ignored."""
    import shutil
    import subprocess
    import tempfile

    exe = shutil.which("cvc5")
    if exe is None:
        return
    s = z3.Solver()
    for c in ctx.pc:
        s.add(c)
    s.add(goal)
    cache = os.path.join(os.path.dirname(os.path.dirname(os.path.abspath(__file__))), ".cache")
    os.makedirs(cache, exist_ok=True)
    fd, path = tempfile.mkstemp(suffix=".smt2", dir=cache)
    try:
        with os.fdopen(fd, "w") as f:
            f.write("(set-logic ALL)\n" + s.to_smt2())
        t = time.time()
        try:
            r = subprocess.run([exe, "--tlimit=20000", path], capture_output=True, text=True, timeout=40)
            ans = (r.stdout.strip().splitlines() or ["unknown"])[-1]
        except subprocess.TimeoutExpired:
            ans = "unknown"
        res["cvc5_s"] = res.get("cvc5_s", 0.0) + time.time() - t
        res["cvc5_checked"] = res.get("cvc5_checked", 0) + 1
        if ans == "unsat":
            res["cvc5_agree"] = res.get("cvc5_agree", 0) + 1
        elif ans == "sat":
            res["harness_errors"].append("solver disagreement: z3 unsat, cvc5 sat on %s" % _smt(goal))
        else:
            res["cvc5_unknown"] = res.get("cvc5_unknown", 0) + 1
    finally:
        try:
            os.remove(path)
        except OSError:
            pass


MAX_VIOLATIONS = 4   # per harness instance: enough to report; keeps a broken tree from costing hours


def _discharge(res, h, params, ctx, canary, known, replay_dir):
    nontriv = False
    for idx, ob in enumerate(ctx.obs):
        res["obligations"] += 1
        f = z3.simplify(ob.formula)
        if z3.is_true(f):
            res["discharged"] += 1
            res["trivial"] += 1
            continue
        nontriv = True
        if len(res["samples"]) < 4 and not canary:
            res["samples"].append(dict(harness=h.name, obligation=ob.name, negated_goal=_smt(z3.Not(f)),
                                       path_condition=[_smt(c) for c in ctx.pc[:12]]))
        extra = []
        pinned_model = None
        if len(res["violations"]) >= MAX_VIOLATIONS:
            res["inconclusive"].append(ob.name + ": not examined (violation cap reached)")
            continue
        if ob.kind == "close" and ob.exact_formula is not None:
            # exact identity first; it implies the tolerance form.  (i) rational-function normal form:
            # the expanded numerator of got-want is the zero polynomial; (ii) otherwise ask the solver.
            ea, eb = ob.exact_formula.children()
            same, _z = ratnorm.identical(ea, eb)
            if same:
                res["discharged"] += 1
                res["normalised_identities"] = res.get("normalised_identities", 0) + 1
                continue
            pinned_model = None
            if same is False and ob.margin_formula is not None:
                # not an identity of rational functions: look for a counterexample cheaply before the hard queries
                pinned_model = _pinned_search(ctx, z3.Not(ob.margin_formula), tries=4)
            r0 = "skipped" if pinned_model is not None else _query(ctx, ob.exact_formula, ())[0]
            if r0 == "unsat":
                res["discharged"] += 1
                res["exact_identities"] = res.get("exact_identities", 0) + 1
                if res["tier"] == "thorough" and not canary and res["exact_identities"] % 7 == 1 \
                        and res.get("cvc5_checked", 0) < 12:
                    _cvc5_crosscheck(res, ctx, z3.Not(ob.exact_formula))
                continue
        for _ in range(4):
            r = None
            if ob.kind == "close" and ob.margin_formula is not None and not extra:
                m = pinned_model if pinned_model is not None else _pinned_search(ctx, z3.Not(ob.margin_formula))
                pinned_model = None
                if m is not None:
                    r = "sat-pinned"
            if r is None:
                r, m = _query(ctx, ob.formula, extra)
            if r == "unsat":
                res["discharged"] += 1
                res["solver_discharged"] = res.get("solver_discharged", 0) + 1
                if res["tier"] == "thorough" and not canary and not extra and res["solver_discharged"] % 5 == 1 \
                        and res.get("cvc5_checked", 0) < 12:
                    _cvc5_crosscheck(res, ctx, z3.Not(ob.formula))
                break
            if r == "unknown":
                res["inconclusive"].append(ob.name + ": solver unknown")
                break
            if ob.kind == "close" and ob.margin_formula is not None and r != "sat-pinned":
                r2, m2 = _query(ctx, ob.margin_formula, extra)
                if r2 == "unsat":
                    res["inconclusive"].append(ob.name + ": deviation only inside the rounding band")
                    break
                if r2 == "unknown":
                    res["inconclusive"].append(ob.name + ": solver unknown (margin)")
                    break
                m = m2
            try:
                vals, funcs = extract_inputs(ctx, m)
            except Exception as e:
                res["harness_errors"].append("%s: cannot concretise model: %r" % (ob.name, e))
                break
            rep = conc_run(h, params, vals, funcs, canary=canary)
            ok = None
            if rep.status == "ok" and idx < len(rep.ctx.obs) and rep.ctx.obs[idx].name == ob.name:
                ok = rep.ctx.obs[idx].ok
                detail = rep.ctx.obs[idx].detail
            if ok is False:
                v = dict(obligation=ob.name, inputs=vals, observed=repr(detail),
                         funcs={k: dict(entries=f.entries, else_=f.else_repr) for k, f in funcs.items()})
                k = _record_violation(res, h, params, v, known, replay_dir)
                if k is None:
                    break
                # known finding: look for a violation outside its predicate
                prox = {n: (SymBool(c) if z3.is_bool(c) else Sym(c)) for n, c in ctx.inputs.items()}
                try:
                    p = known_pred(k, prox, params)
                    extra.append(z3.Not(core._b(p)) if core.is_sym(p) else z3.BoolVal(not p))
                except Exception as e:
                    res["harness_errors"].append("known-finding predicate not symbolic: %r" % (e,))
                    break
                continue
            res["harness_errors"].append(
                "%s: model does not reproduce on the real code (status=%s %s) inputs=%s" % (
                    ob.name, rep.status, rep.reason or (repr(rep.exc) if rep.exc else ""), vals))
            break
        else:
            res["discharged"] += 1  # all remaining models lie inside known findings
    return nontriv


# ---------------------------------------------------------------------------
# differential self-test


def _sample_vector(ctx0, rng):
    s = z3.Solver()
    s.set("timeout", 5000)
    for a in ctx0.assumes:
        s.add(a)
    names = list(ctx0.inputs)
    rng.shuffle(names)
    for name in names:
        kind, lo, hi = ctx0.input_bounds[name]
        c = ctx0.inputs[name]
        if kind == "bool":
            pin = c == bool(rng.getrandbits(1))
        elif kind == "int":
            l = -30 if lo is None else lo
            u = 30 if hi is None else hi
            l, u = max(l, -10 ** 6), min(u, 10 ** 6)
            if rng.random() < 0.3:
                l, u = max(l, -4), min(u, 4)
            if l > u:
                l, u = (lo if lo is not None else u), (hi if hi is not None else l)
            pin = c == rng.randint(int(l), int(u))
        else:
            l = -50.0 if lo is None else float(lo)
            u = 50.0 if hi is None else float(hi)
            if l > 0 and u / l > 100:
                x = math.exp(rng.uniform(math.log(l), math.log(min(u, l * 1e4))))
            else:
                x = rng.uniform(l, u)
            x = round(x, 4) if abs(x) > 1e-2 else x
            pin = c == z3.RealVal(fractions.Fraction(x))
        s.push()
        s.add(pin)
        if str(s.check()) != "sat":
            s.pop()
    if str(s.check()) != "sat":
        return None
    m = s.model()
    return m


def selftest(h, params, ctx0, seed, n=8):
    """Concrete runs on seeded valid inputs: obligations must hold on the real code with plain numbers,
    and the symbolic expressions built by the proxies, evaluated at the same inputs, must give the same
    numbers (validates proxies, shims and string model on exactly the code being claimed)."""
    import zlib

    rng = random.Random(seed * 7919 + zlib.crc32((h.name + json.dumps(params, sort_keys=True, default=str)).encode()) % 100003)
    out = dict(vectors=0, rejected=0, compared=0, failures=[], violations=[])
    tries = 0
    while out["vectors"] < n and tries < 4 * n:
        tries += 1
        m = _sample_vector(ctx0, rng)
        if m is None:
            out["rejected"] += 1
            continue
        try:
            vals, funcs = extract_inputs(ctx0, m)
        except Exception:
            out["rejected"] += 1
            continue
        rep = conc_run(h, params, vals, funcs)
        if rep.status == "reject":
            out["rejected"] += 1
            continue
        if rep.status == "exception" and isinstance(rep.exc, h.raises):
            out["rejected"] += 1
            continue
        if rep.status == "exception":
            # the real code raises on plain valid inputs where the property promises a result
            out["violations"].append(dict(obligation="no-unexpected-exception", inputs=vals,
                                          observed=repr(rep.exc)[:300], tb=rep.tb, found_by="plain-number self-test"))
            out["vectors"] += 1
            continue
        if rep.status != "ok":
            out["failures"].append("concrete run %s: %s %r inputs=%s" % (rep.status, rep.reason, rep.exc, vals))
            out["vectors"] += 1
            continue
        out["vectors"] += 1
        bad = [(o.name, o.detail) for o in rep.ctx.obs if not o.ok]
        if bad:
            # an obligation fails on the real code with plain numbers: that IS a violation (the oracle is validated on
            # the unchanged tree, where this never happens); reported with the inputs so it can be replayed
            for name, detail in bad[:3]:
                out["violations"].append(dict(obligation=name, inputs=vals, observed=repr(detail),
                                              found_by="plain-number self-test"))
            continue
        if ctx0.func_decls:
            # uninterpreted functions are not pinned: nothing could be compared, skip the (expensive) pinned run
            continue
        # pinned symbolic run
        pins = dict(vals)
        sym = run_once(h, params, mode="sym", pins=pins, timeout_ms=10000)
        if sym.status != "ok":
            # float/rational branch divergence or unsupported; not a failure of the engine per se
            out.setdefault("pinned_skipped", 0)
            out["pinned_skipped"] += 1
            continue
        sctx = sym.ctx
        # pin uninterpreted functions to the sampled callable on the arguments used
        mm = sctx.get_model()
        if mm is None or len(sctx.obs) != len(rep.ctx.obs):
            out.setdefault("pinned_skipped", 0)
            out["pinned_skipped"] += 1
            continue
        if sctx.func_decls:
            # function values are not pinned: compare only boolean verdicts via the solver
            continue
        for so, co in zip(sctx.obs, rep.ctx.obs):
            if so.kind == "close" and core.is_sym(so.got):
                try:
                    g = _val_to_py(mm.eval(core.lift(so.got), model_completion=True), "real")
                    w = _val_to_py(mm.eval(core.lift(so.want), model_completion=True), "real") \
                        if core.is_sym(so.want) else float(so.want)
                except Exception:
                    continue
                cg, cw = co.detail
                out["compared"] += 1
                if abs(g - cg) > 1e-7 * (abs(g) + abs(cg)) + 1e-12 or abs(w - cw) > 1e-7 * (abs(w) + abs(cw)) + 1e-12:
                    out["failures"].append("proxy/real mismatch at %s: sym=(%r,%r) conc=(%r,%r) inputs=%s" % (
                        so.name, g, w, cg, cw, vals))
            elif so.kind in ("bool", "eq"):
                v = z3.simplify(mm.eval(so.formula, model_completion=True))
                out["compared"] += 1
                if z3.is_true(v) != bool(co.ok) and (z3.is_true(v) or z3.is_false(v)):
                    out["failures"].append("proxy/real verdict mismatch at %s inputs=%s" % (so.name, vals))
    return out


# ---------------------------------------------------------------------------
# instance driver (runs inside a worker process)


def run_instance(h, params, tier, seed, replay_dir):
    known = load_known()
    res = explore(h, params, tier, seed, known=known, replay_dir=replay_dir)
    ctx0 = res.pop("_first_ctx")
    if h.selftest and ctx0 is not None and ctx0.inputs:
        try:
            res["selftest"] = selftest(h, params, ctx0, seed, n=8 if tier == "quick" else 24)
        except Exception as e:
            res["selftest"] = dict(vectors=0, failures=["selftest crashed: %r" % (e,)])
        st = res["selftest"]
        seen = {v["obligation"] for v in res["violations"]} | {v["obligation"] for v in res["known"]}
        for v in st.pop("violations", []):
            if v["obligation"] in seen:
                continue        # the solver already found and replayed a violation of this obligation
            seen.add(v["obligation"])
            _record_violation(res, h, params, v, known, replay_dir)
    if h.canary:
        # recorded findings are told apart in the canary run as well: the canary must be caught by a violation that
        # is NOT a recorded finding (a finding that fails on every path would otherwise pass for the catch)
        c = explore(h, params, tier, seed, canary=True, known=known, stop_on_violation=True,
                    budget_s=120 if tier == "quick" else 600)
        c.pop("_first_ctx")
        # a canary witnessed only by a violation inside a recorded finding still shows that the run reaches and
        # refutes obligations, but not that the perturbed one was searched: it is accepted and marked as such
        onlyKnown = not c["violations"] and bool(c["known"])
        res["canary"] = dict(caught=bool(c["violations"]) or onlyKnown, paths=c["paths"], queries=c["queries"],
                             witness=(c["violations"][0]["obligation"] if c["violations"] else
                                      ("(inside a recorded finding) " + c["known"][0]["obligation"]) if onlyKnown
                                      else None),
                             errors=c["harness_errors"][:2], aborted=c["aborted"][:2])
        res["queries"] += c["queries"]
        res["solver_s"] += c["solver_s"]
    return res
