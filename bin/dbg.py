import os, sys, time
os.environ["MPLCONFIGDIR"]="/verif/.cache/mpl"
sys.path.insert(0,'/verif'); sys.setrecursionlimit(20000)
sys.path.insert(0, os.path.realpath(os.environ.get('ARMI_REPO') or '/repo'))  # same override as symx.run
import armi; armi.configure(permissive=True)
from symx import engine
import importlib
prop, hname = sys.argv[1], sys.argv[2]
idx = int(sys.argv[3]) if len(sys.argv)>3 else 0
canary = len(sys.argv)>4 and sys.argv[4]=='canary'
import glob
for m in sorted(glob.glob('/verif/harness/%s_*.py'%prop)): importlib.import_module('harness.'+os.path.basename(m)[:-3])
h=[h for h in engine.REGISTRY if h.name==hname][0]
params=h.instances.get(os.environ.get("VERIF_TIER","quick"), h.instances["quick"])[idx]
t=time.time()
res=engine.explore(h, params, os.environ.get("VERIF_TIER","quick"), 0, canary=canary, stop_on_violation=canary)
res.pop('_first_ctx')
for k in ('paths','obligations','discharged','trivial','normalised_identities','exact_identities','inconclusive','aborted','harness_errors','queries','solver_s','notes'):
    print(k, res[k])
print('violations', [(v['obligation'], v['inputs']) for v in res['violations']][:3])
print(time.time()-t)
if os.environ.get("FULL"):
    t=time.time()
    ctx0=None
    res=engine.explore(h, params, 'quick', 0)
    ctx0=res.pop('_first_ctx')
    print('explore', time.time()-t); t=time.time()
    st=engine.selftest(h, params, ctx0, 0, n=8)
    print('selftest', time.time()-t, st); t=time.time()
if os.environ.get("FULL"):
    res = engine.explore(h, params, 'quick', 0)
    ctx0 = res.pop('_first_ctx')
    t = time.time()
    print('selftest', engine.selftest(h, params, ctx0, 0, n=8), time.time() - t)
