#!/usr/bin/env python3
"""Re-run the property check against every filed seeded change and refresh the `detection` part of its meta.json.

  bin/recheck_seeded.py [--only missed|all|C01_m2,C04_n1,...] [-P 3] [-j 5]

For each /verif/seeded/<name>/: scratch worktree of /repo HEAD under /tmp, `git apply patch.diff`, the demonstration is
run without and with the change, `./check <property> --no-evidence` is run with ARMI_REPO pointing at the scratch tree,
the worktree is removed.  /repo itself is never touched.  (The pinned test suite was run when the change was filed by
bin/keep_mutant.py; it is not repeated here.)"""
import concurrent.futures as cf
import json
import os
import shutil
import subprocess
import sys
import tempfile

VERIF = os.path.dirname(os.path.dirname(os.path.abspath(__file__)))
SEEDED = os.path.join(VERIF, "seeded")


def sh(*a, **k):
    return subprocess.run(*a, **k, stdout=subprocess.PIPE, stderr=subprocess.STDOUT, text=True)


def one(name, jobs):
    d = os.path.join(SEEDED, name)
    mp = os.path.join(d, "meta.json")
    meta = json.load(open(mp))
    checks = meta.get("checks") or [meta["property"]]
    wt = tempfile.mkdtemp(prefix="re_%s_" % name, dir="/tmp")
    os.rmdir(wt)
    head = sh(["git", "-C", "/repo", "rev-parse", "--short", "HEAD"]).stdout.strip()
    sh(["git", "-C", "/repo", "worktree", "add", "-q", "--detach", wt, "HEAD"])
    try:
        shutil.copy(os.path.join(d, "demo.py"), os.path.join(wt, "_demo_seeded.py"))
        base = sh(["/venv/bin/python", "_demo_seeded.py"], cwd=wt)
        r = sh(["git", "apply", os.path.join(d, "patch.diff")], cwd=wt)
        if r.returncode:
            return name, "PATCH DOES NOT APPLY: " + r.stdout[:200]
        mut = sh(["/venv/bin/python", "_demo_seeded.py"], cwd=wt)
        det = {}
        for c in checks:
            r = sh([os.path.join(VERIF, "check"), c, "--no-evidence", "-j", str(jobs)], cwd=VERIF,
                   env=dict(os.environ, ARMI_REPO=wt))
            lines = r.stdout.splitlines()
            viol = [l for l in lines if l.startswith("VIOLATION")]
            detail = [l.strip() for l in lines if l.startswith("  harness=")]
            herr = [l for l in lines if l.startswith("HARNESS-ERROR")]
            det[c] = dict(exit=r.returncode, violation_lines=len(viol), harness_errors=len(herr),
                          first=[l[:400] for l in (detail or herr)[:3]])
        meta["detection"] = det
        meta["caught"] = any(v["exit"] == 1 and v["violation_lines"] > 0 for v in det.values())
        meta.setdefault("confirmed", {})["repo_head_at_last_check"] = head
        meta["confirmed"]["demo_exit_without_change"] = base.returncode
        meta["confirmed"]["demo_exit_with_change"] = mut.returncode
        json.dump(meta, open(mp, "w"), indent=1)
        return name, "%s demo %d/%d %s" % ("caught" if meta["caught"] else "MISSED", base.returncode, mut.returncode,
                                           {k: (v["exit"], v["violation_lines"]) for k, v in det.items()})
    finally:
        sh(["git", "-C", "/repo", "worktree", "remove", "--force", wt])
        shutil.rmtree(wt, ignore_errors=True)


def main():
    only, par, jobs = "all", 3, 5
    a = sys.argv[1:]
    while a:
        x = a.pop(0)
        if x == "--only":
            only = a.pop(0)
        elif x == "-P":
            par = int(a.pop(0))
        elif x == "-j":
            jobs = int(a.pop(0))
    names = sorted(n for n in os.listdir(SEEDED) if os.path.exists(os.path.join(SEEDED, n, "meta.json")))
    if only == "missed":
        names = [n for n in names if not json.load(open(os.path.join(SEEDED, n, "meta.json"))).get("caught")]
    elif only != "all":
        want = only.split(",")
        names = [n for n in names if n in want or n[:3] in want]
    with cf.ThreadPoolExecutor(par) as ex:
        for name, res in ex.map(lambda n: one(n, jobs), names):
            print(name, res, flush=True)


if __name__ == "__main__":
    main()
