#!/usr/bin/env python3
"""Confirm a seeded change and file it under /verif/seeded/<name>/:  bin/keep_mutant.py <src dir> <name> [--checks=C02,C07]

In a scratch worktree of /repo (removed afterwards): the patch applies, the pinned suite still passes (all baseline-stable
tests), the demonstration exits 0 without the change and 1 with it; then the property check is run against the changed
tree and its verdict recorded.  Nothing is written to /repo."""
import json
import os
import shutil
import subprocess
import sys
import tempfile
import xml.etree.ElementTree as ET

src = os.path.abspath(sys.argv[1])
name = sys.argv[2]
meta = json.load(open(os.path.join(src, "meta.json")))
checks = [meta["property"]]
for a in sys.argv[3:]:
    if a.startswith("--checks="):
        checks = a.split("=", 1)[1].split(",")
run = lambda *a, **k: subprocess.run(*a, **k, stdout=subprocess.PIPE, stderr=subprocess.STDOUT, text=True)
wt = tempfile.mkdtemp(prefix="keep_", dir="/tmp")
os.rmdir(wt)
run(["git", "-C", "/repo", "worktree", "add", "-q", wt, "HEAD"])
out = {}
try:
    shutil.copy(os.path.join(src, "demo.py"), os.path.join(wt, "_demo_seeded.py"))
    out["demo_exit_without_change"] = run(["/venv/bin/python", "_demo_seeded.py"], cwd=wt).returncode
    r = run(["git", "apply", os.path.join(src, "patch.diff")], cwd=wt)
    if r.returncode:
        print("PATCH DOES NOT APPLY", r.stdout)
        sys.exit(2)
    out["demo_exit_with_change"] = run(["/venv/bin/python", "_demo_seeded.py"], cwd=wt).returncode
    os.remove(os.path.join(wt, "_demo_seeded.py"))
    xml = tempfile.mktemp(suffix=".xml", dir="/tmp")
    run(["/venv/bin/python", "-m", "pytest", "-q", "-p", "no:cacheprovider", "--timeout=900",
         "--continue-on-collection-errors", "--junitxml=" + xml], cwd=wt)
    passed = set()
    for tc in ET.parse(xml).getroot().iter("testcase"):
        if not any(ch.tag in ("failure", "error", "skipped") for ch in tc):
            passed.add("%s::%s" % (tc.get("classname"), tc.get("name")))
    os.remove(xml)
    base = set(json.load(open("/root/.vp/BASELINE.json"))["stable_pass"])
    out["baseline_tests_still_passing"] = "%d of %d" % (len(base & passed), len(base))
    out["baseline_tests_broken"] = sorted(base - passed)[:5]
    det = {}
    for c in checks:
        r = subprocess.run(["/verif/check", c, "--no-evidence"], cwd="/verif", env=dict(os.environ, ARMI_REPO=wt),
                           stdout=subprocess.PIPE, stderr=subprocess.STDOUT, text=True)
        lines = r.stdout.splitlines()
        det[c] = dict(exit=r.returncode, violation_lines=sum(l.startswith("VIOLATION") for l in lines),
                      first=[l.strip()[:260] for l in lines if l.startswith("  harness=")][:3])
    out["detection"] = det
finally:
    run(["git", "-C", "/repo", "worktree", "remove", "--force", wt])
ok = out["demo_exit_without_change"] == 0 and out["demo_exit_with_change"] == 1 and not out["baseline_tests_broken"]
print(json.dumps(out, indent=1))
if not ok:
    print("NOT KEPT: confirmation failed")
    sys.exit(1)
dst = os.path.join("/verif/seeded", name)
os.makedirs(dst, exist_ok=True)
shutil.copy(os.path.join(src, "patch.diff"), dst)
shutil.copy(os.path.join(src, "demo.py"), dst)
m = dict(property=meta["property"], summary=meta.get("summary"), needs=meta.get("needs"), files=meta.get("files"),
         produced_by="independent sub-agent given only the property text and a scratch worktree",
         confirmed=dict(repo_head=run(["git", "-C", "/repo", "log", "--format=%h", "-1"]).stdout.strip(),
                        what_was_run="git apply patch.diff in a scratch worktree; pinned pytest suite compared with "
                                     "BASELINE.json stable_pass; demo.py run from the worktree root without and with "
                                     "the change; ./check <property> with ARMI_REPO pointing at the changed tree",
                        **{k: v for k, v in out.items() if k != "detection"}),
         detection=out["detection"],
         caught=any(d["exit"] == 1 and d["violation_lines"] > 0 for d in out["detection"].values()))
json.dump(m, open(os.path.join(dst, "meta.json"), "w"), indent=1)
print("kept as", dst, "caught =", m["caught"])
