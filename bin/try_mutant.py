#!/usr/bin/env python3
"""Rehearse a seeded change: bin/try_mutant.py <dir with patch.diff, demo.py, meta.json> [--keep] [--checks C02,C07]

Creates a scratch worktree of /repo under /tmp, applies the patch there, confirms the demonstration fails with the
change and passes without, runs the named property checks against the scratch tree (ARMI_REPO), prints the verdict and
removes the worktree.  /repo itself is not touched."""
import json
import os
import subprocess
import sys
import tempfile

d = os.path.abspath(sys.argv[1])
meta = json.load(open(os.path.join(d, "meta.json")))
checks = [meta["property"]]
for a in sys.argv[2:]:
    if a.startswith("--checks"):
        checks = a.split("=", 1)[1].split(",")
wt = tempfile.mkdtemp(prefix="eval_", dir="/tmp")
os.rmdir(wt)
run = lambda *a, **k: subprocess.run(*a, **k, stdout=subprocess.PIPE, stderr=subprocess.STDOUT, text=True)
print(run(["git", "-C", "/repo", "worktree", "add", "-q", wt, "HEAD"]).stdout, end="")
try:
    import shutil
    shutil.copy(os.path.join(d, "demo.py"), os.path.join(wt, "_demo_seeded.py"))
    base = run(["/venv/bin/python", "_demo_seeded.py"], cwd=wt)
    r = run(["git", "apply", os.path.join(d, "patch.diff")], cwd=wt)
    if r.returncode:
        print("PATCH DOES NOT APPLY:", r.stdout)
        sys.exit(2)
    mut = run(["/venv/bin/python", "_demo_seeded.py"], cwd=wt)
    print("demo on clean tree: exit %d ; with change: exit %d" % (base.returncode, mut.returncode))
    env = dict(os.environ, ARMI_REPO=wt)
    for c in checks:
        r = subprocess.run(["/verif/check", c, "--no-evidence"], cwd="/verif", env=env, stdout=subprocess.PIPE,
                           stderr=subprocess.STDOUT, text=True)
        lines = r.stdout.splitlines()
        viol = [l for l in lines if l.startswith("VIOLATION")]
        detail = [l for l in lines if l.startswith("  harness=")]
        herr = [l for l in lines if l.startswith("HARNESS-ERROR")]
        print("check %s: exit %d, %d VIOLATION lines, %d harness errors" % (c, r.returncode, len(viol), len(herr)))
        for l in detail[:4]:
            print("   ", l[:300])
        for l in herr[:3]:
            print("   ", l[:300])
        print("   ", lines[-1][:300] if lines else "")
finally:
    run(["git", "-C", "/repo", "worktree", "remove", "--force", wt])
