#!/usr/bin/env python3
"""Regenerate /verif/MANIFEST.json from the table below (kept in one place so it stays valid)."""
import glob
import json
import os

VERIF = os.path.dirname(os.path.dirname(os.path.abspath(__file__)))

TECH = "bounded symbolic execution of the real Python code (proxy objects over z3 terms, DFS over branch " \
       "decisions) + SMT (z3) discharge of every obligation; counterexamples replayed on the real code. Behind C " \
       "boundaries (numpy dtypes, struct, HDF5, YAML) values are concrete representatives and the solver enumerates " \
       "the configurations (which entry is unset/zero, which header flag is on, which history of operations): a " \
       "bounded enumeration driven by the solver, stated as such per harness in the evidence"

NOTE_COMMON = "Trusted: z3 5.1; the symx proxy engine and namespace shims (differentially self-tested against " \
              "plain-number runs of the same code on every run; every harness carries a canary that must be " \
              "caught). Floats are modelled as reals with 1e-9 relative tolerance. Bounds, stubs and what lies " \
              "outside the claim are listed per harness in the evidence file. "

# property -> (level text, level note, design ref)
CLAIMS = {
    "C01": ("From EVERY valid tree on <= N nodes (parent vector enumerated by the solver) one structural edit with "
            "symbolic operands, then parent/child consistency, detachment and all traversal queries against a naive "
            "walk; generationNum is an unbounded symbolic Int; deepcopy/pickle re-linking.",
            "Mostly exhaustive enumeration of a bounded state space by the solver (stated as such); trees beyond N "
            "nodes, raw list methods and re-adding an object that already has a parent are outside.", "3 C01"),
    "C02": ("For all positive component volumes / block heights and all non-negative number densities (symbolic reals) "
            "on real HexBlocks, assemblies and a mini third-core: mass and volume additivity with symmetry factor, "
            "volume-weighted number densities, atoms agree across levels, mass = density x volume, every composition "
            "setter reads back and leaves other nuclides alone, mass fractions sum to one and keep proportions, "
            "densityTools conversions are mutual inverses.",
            "<= 5 components per block, 2 blocks per assembly, 2 assemblies, <= 6 nuclides; lumped fission products and "
            "detailed/pin density arrays outside.", "3 C02"),
    "C03": ("For every 2-D shape class, all dimensions/multiplicities/temperatures and ANY expansion law (uninterpreted "
            "function L(T)): mass per unit height conserved along temperature paths, area = cold area x f^2, expanding "
            "dimensions scale by f, path independence, hot-dimension read-back, linked dimensions follow their target, "
            "fluids keep dimensions; real library materials with symbolic temperature where the law is polynomial.",
            "3-D shapes, negative-area void handling and non-polynomial material laws are outside.", "3 C03"),
    "C04": ('Pure-Python kernels of the database round trip: layout ancestry for every valid pre-order layout of <= 6 objects with symbolic distinct serial numbers; location pack/unpack for symbolic locator kinds, indices and coordinates; special-data packing (ragged arrays, dictionaries with zero-valued entries, unset entries) with the solver choosing which entry is zero/unset/which shape; a grid rebuilt from reduce() equals the CURRENT grid after any history of pitch/symmetry/offset/bounds changes interleaved with reduce(); the persisted theoretical-density fraction pushed back into a freshly built material (symbolic fraction, material class chosen by the solver).',
            'KERNELS ONLY: HDF5 reading/writing itself and whole-reactor equality are not encodable and not claimed; values inside numpy arrays are concrete (C boundary), the choice of pattern is symbolic.', "3 C04"),
    "C05": ("Flag bit remapping for every bit-field value and every injective old->new bit map (symbolic bit-vectors); flag sets keep their names across every permutation/extension of the reader's flag class (solver-enumerated); byte round trip, width, rejection of oversize values; extend() keeps old members; packSpecialData/unpackSpecialData and replaceNonsenseWithNones on collections where the solver chooses which entries are unset, zero, empty, negative-zero, of which shape and numeric kind (ragged arrays, dictionaries, strings, booleans, unsigned and signed integers).",
            "numpy dtype handling is a C boundary: array contents are concrete representatives, the pattern is symbolic; HDF5 attributes are outside; flag classes with gaps in their bit layout are outside the serializer's domain.", "3 C05"),
    "C06": ('Snapshot names for all (cycle,node) in [0,100)^2: injective, lexicographic = chronological, parse back, labels never change the parsed pair, real genTimeSteps lists exactly the written snapshots in order; crash point as a symbolic variable through the real Operator/DatabaseInterface control flow with a recording database stub; the real Database.writeToDB/_writeParams/Layout, splitDatabase, getHistories/getHistory run on an in-memory stand-in for the h5py objects: symbolic, unordered time-step selections for a split (names, cycle offset, copied groups), every sequence of writes / labelled writes / re-writes / parameter changes keeps earlier snapshots identical to what they were when written, histories follow objects by identity for symbolic stored values.',
            'The h5py file is an in-memory stand-in (dict of groups/datasets that copies data and refuses existing names): HDF5 encoding itself is outside; values in typed arrays are concrete.', "3 C06"),
    "C07": ("For ALL integer cell indices / ring-position pairs and all pitches (symbolic, unbounded Int/Real): "
            "ring/pos <-> indices are mutual inverses, ring = hex distance + 1, 6(r-1) contiguous positions, six "
            "neighbours one pitch away counter-clockwise in both orientations, coordinates affine in the indices, "
            "bounds-defined base/top/centre, nested-location composition, pitch change, constructor-argument "
            "round trip, labels; minimum-ring count exact for n <= 10^6.",
            "Theta-R-Z trigonometric conversion and labels of negative indices are outside the claim.", "3 C07"),
    "C08": ("For all integer cells and all pitches: third-core equivalents are the 120/240-degree images of the cell "
            "centre (sqrt3 algebraic), exactly one orbit member in the modelled third, symmetry-line classification "
            "matches coordinates, rotateIndex rotates coordinates by k*60 degrees for k in [-13,13], additive, period "
            "6; quarter-core Cartesian variants; block/assembly rotation moves pins, free coordinates, corner/edge "
            "data, displacement and orientation.", "Rotation angles are concrete multiples of 60 degrees.", "3 C08"),
    "C09": ('Binary record byte accounting as an inductive step from an arbitrary symbolic byte count for every primitive; complete records framed by payload length and read back; ASCII integer and string fields over the full int32 range (digit-level symbolic strings); block-band partition; and write -> read -> write round trips of EVERY format (ISOTXS, GAMISO, PMATRX, DLAYXS, COMPXS, GEODST, DIF3D, NHFLUX/NAFLUX nodal and VARIANT, LABELS, PWDINT, RTFLUX/ATFLUX, RZFLUX, FIXSRC; binary and ASCII) with every header integer that sizes or gates a record symbolic: data equal, byte-for-byte rewrite, independent framing walk, record counts and lengths, documented in-record order.',
            'Field values in records are concrete pairwise-different numbers (struct is a C boundary); header ranges are small (groups <= 3-4, meshes <= 3, nuclides <= 2). Recorded known findings: 10-digit ASCII integers, GAMISO label.', "3 C09"),
    "C10": ('Macroscopic cross sections and energy constants are the density-weighted sums of symbolic microscopic data (linear, additive, zero for empty, missing nuclide refused) for every creator option combination, two creator calls in one process (no shared state), scatter matrices over several cross-section IDs, removal = absorption - n2n + out-scatter; library merge over real IsotxsLibrary/XSNuclide objects in a solver-chosen order is lossless or refused; metadata merge conflict detection.',
            '<= 3 groups, <= 5 library nuclides; scatter matrices are a dense stand-in for scipy.sparse on proxies (self-tested against scipy on plain numbers); library files themselves belong to C09.', "3 C10"),
    "C11": ("For all source/destination axial meshes within bounds (every interleaving explored as paths): blocks "
            "between elevations partition the interval, atoms and integrated parameters conserved, averaged = "
            "height-weighted mean, peak = max; mesh filter and step-function resampling.",
            "<= 3 x 3 blocks, physical height window, 1e-9 tolerance because armi drops 1e-10 slivers.", "3 C11"),
    "C12": ("For all block heights and growth factors (and any expansion law): assembly height, contiguity, grid bounds, "
            "target-component mass conservation, inverse expansion.", "3 blocks + dummy; core-wide mesh management "
            "outside.", "3 C12"),
    "C13": ("Third-to-full core conversion and restore, edge assemblies add/remove on a hand-built mini core with "
            "symbolic parameters and densities: counts, x3 totals, exact restore, lookups.",
            "2-3 rings, 1 block per assembly.", "3 C13"),
    "C14": ("After every fuel-handling operation (symbolic choice of operation/operands, K steps) on a mini core: "
            "lookup tables truthful, inventory conserved (symbolic masses), stationary blocks stay.",
            "K <= 2-3 steps, 4 locations.", "3 C14"),
    "C15": ("Cycle/node/step numbering maps mutually inverse for symbolic cycle layouts; step lengths sum to "
            "availability x cycle length; the real Operator main loop against a reference schedule for symbolic "
            "interface flags, restart points and coupling convergence patterns.",
            "<= 3 cycles x 3 steps, <= 3 interfaces; settings I/O and MPI operators outside.", "3 C15"),
    "C16": ("retainState with every keep-set/assignment/nesting combination (solver-enumerated) and symbolic values "
            "through pickle; copies independent; serial numbers fresh; read-only refuses assignments.",
            "Block with 2-3 components, depth 2.", "3 C16"),
    "C18": ('Lattice-map index arithmetic for all lines/columns/map sizes: (line,col)->(i,j) injective in all four map geometries, reader and writer agree, the third-core map draws exactly the cells the grid calls the first third, full-core maps reach every cell; indexed contents with solver-chosen occupancy (holes, empty lines, empty borders) are drawn and read back or refused; GridBlueprint lattice text places each specifier where its text position says and survives save/load; material modifications, custom isotopics and the class1/class2 blend applied through the real AssemblyBlueprint.construct with symbolic fractions.',
            'YAML parsing itself is outside (blueprint objects are built in Python from a fixed skeleton); maps up to ring 3 / 4x4. Recorded known findings: hex outline without its corner cell, Cartesian negative indices, late refusal in saveToStream.', "3 C18"),
    "C19": ('Identifier encoders (MCNP, AAAZZZS, name, label, Serpent) injective and decodable for all z<=118, a<=299, state<=3; material expansion/density laws finite and positive over the declared temperature range for symbolic T (polynomial laws); default compositions of every material class (fractions in [0,1], sum to 1); every row of the nuclide tables and of burn-chain.yaml (row index symbolic): element membership, branch fractions in [0,1], products exist.',
            'Table checks are finite data checks driven by a symbolic row index (enumeration by the solver). Recorded known findings: zero pseudo-density of 4 materials, UThZr density, Sulfur and Potassium compositions.', "3 C19"),
    "C20": ("Label <-> number for every label of 1-2 allowable characters (symbolic characters); representative-block "
            "densities/temperatures equal the weight-normalised mean over eligible members for all symbolic weights, "
            "densities and temperatures; burnup/median; environment-group bucketing.",
            "<= 3 blocks, concrete volumes in the quick tier; LFP averaging outside.", "3 C20"),
}

# coverage added by the strengthening rounds (appended to the claim text / note of CLAIMS)
EXTRA = {
    "C01": ("Also: exact order of deep traversals on every tree of <= 7-8 nodes; flag-filtered traversals for single, combined and list type specifications; every public way of taking children out (remove, removeAll, setChildren, replaceBlockWithBlock, adjustResolution, removeAssembly) leaves the object parentless with a detached location; pin grids and grid ownership through copies; refused operations leave the model unchanged.", "One recorded known finding (replaceBlockWithBlock with a gridded replacement)."),
    "C02": ("Also: composite-level setters introducing a nuclide no child holds (with empty components), element and empty selections, every kind of nuclide (dummy, lumped, natural, isotope), negative-volume gap children, blocks cut by symmetry, cold/hot area queries in either order.", "One recorded known finding (component-level mass accounting in a symmetry-cut block)."),
    "C03": ("Also: every real library material of every material base class at spot temperatures over its stated range (mass per unit height, area = cold x f^2), components linked to two targets and chains of links with the middle component re-dimensioned or re-linked, cold area independent of the current temperature.", ""),
    "C07": ("Also: offsets in every dimension for 7 grid kinds, all 27 three-deep nestings, ring/position/plane to locator and back, every assignment of {steps, bounds} to the three dimensions through reduce(), grids built from whole-number constructor arguments, pitch changes that leave the axial direction alone, Cartesian rings.", "Recorded known findings: locator beyond the last bounds-defined cell; nested global cell base/top."),
    "C08": ("Also: pin components sharing one locator, blocks placed off-centre in a core, assemblies of several blocks (each block turned exactly once, other blocks untouched), every multiple of 60 degrees accepted.", ""),
    "C11": ("Also: one ParamMapper serving a history of mappings, negative peak values, decusped common mesh with symbolic control boundaries / thin foot and cap blocks / cores without control assemblies, includePinCoordinates, windows beyond the assembly, numpy inputs and overhanging bins in step resampling.", "Recorded known findings: decusping does not anchor the assembly ends; resampleStepwise sum mode for a bin strictly inside one input bin."),
    "C12": ("Also: documented target preference order, user-designated and re-designated targets (PLENUM/ACLP), linkage by identical shape class, second expansions listing a subset of components, identical assemblies expanded in turn give identical results (module state untouched).", "Recorded known findings: neighbouring blocks with different targets; 3-D shapes under prescribed axial growth."),
    "C13": ("Also: array-valued parameters with every sharing pattern of array objects, parameters first assigned between two conversions (same or new changer object), sources turned earlier carrying displacements and corner data, neutron/gamma/adjoint flux re-derivation when edge halves merge.", "Recorded known findings: edge-assembly symmetry factor heuristic, no-op addEdgeAssemblies resetting assignment flags, convert dropping edge assemblies."),
    "C14": ("Also: stationary blocks at any subset of axial levels (block order and elevations), purge vs discharge x tracking on/off, assemblies stored in the pool, refused operations (occupied cell however it is named, namesakes of live assemblies, mismatched stationary layouts, non-members) leave the state unchanged.", "Recorded known findings: blocksByName after dischargeSwap of a fresh assembly with stationary blocks."),
    "C15": ("Also: restart points set by an interface during BOL, halt requests of any truthy type, addInterface at a symbolic position, interfaces that switched themselves off, restart in mid-cycle with non-uniform steps, tight-coupling iteration caps 0..n.", ""),
    "C16": ("Also: keep-sets naming a parameter that exists on several classes, 30 public composition mutators x {read-only, scope with/without keep-set}, nested scopes with grid changes, kept arrays changed by tiny amounts, serial numbers of objects created inside scopes, read-only covers every object of the reactor and every way of assigning.", "Recorded known findings: linked dimension replaced inside a scope; deleted entry of a parameter with a default."),
    "C20": ("Also: similarity check with the odd member at any position, compound valid block types, component insertion orders, nuclides held by a subset of members, zero-volume members, median block with lumped fission products.", ""),
}

# properties whose harness files are complete and green on the unchanged tree
READY = ["C01", "C02", "C03", "C04", "C05", "C06", "C07", "C08", "C09", "C10", "C11", "C12", "C13", "C14", "C15", "C16",
         "C18", "C19", "C20"]

NA = {
    "C17": "Settings round trip goes through ruamel.yaml text emission/parsing and voluptuous coercion closures "
           "(C-level str handling): no arithmetic/index/bit kernel for a solver to decide; see DESIGN.md section 4.",
}


def main():
    props = [json.loads(l) for l in open(os.path.join(VERIF, "properties.jsonl"))]
    have = sorted({os.path.basename(p)[:3] for p in glob.glob(os.path.join(VERIF, "harness", "C*_*.py"))})
    checks = []
    na = []
    for p in props:
        pid = p["id"]
        if pid in CLAIMS and pid in have and pid in READY:
            text, note, ref = CLAIMS[pid]
            if pid in EXTRA:
                text = text.rstrip() + " " + EXTRA[pid][0]
                note = (note.rstrip() + " " + EXTRA[pid][1]).strip()
            checks.append(dict(
                property_id=pid,
                quick_cmd="./check %s --tier quick" % pid,
                thorough_cmd="./check %s --tier thorough" % pid,
                evidence_file="/verif/evidence/%s.json" % pid,
                replay_cmd_template="./check %s --replay {path}" % pid,
                engine="symx",
                level_claimed=dict(category="other", text="Solver-decided within stated bounds (not a proof): " + text,
                                   design_ref="DESIGN.md section " + ref),
                level_note=NOTE_COMMON + note,
                technique=TECH,
            ))
        else:
            na.append(dict(property_id=pid, reason=NA.get(pid, "not yet covered by a solver-based check in this "
                                                               "revision (see DESIGN.md for the planned harness)")))
    m = dict(
        version=1,
        setup_cmd="/verif/bin/bootstrap.sh",
        hooks=dict(guard="ARMI_VERIF", enable="none needed: all instrumentation is applied from /verif at run time "
                                              "as module-namespace shims; /repo is imported as is",
                   baseline_off_cmd="cd /repo && /venv/bin/python -m pytest -ra -q -p no:cacheprovider --timeout=900 "
                                    "--continue-on-collection-errors",
                   source_commits=[], add_only=True),
        engines=[dict(name="symx", path="/verif/symx", serves_properties=[c["property_id"] for c in checks],
                      kind_free_text="in-house symbolic executor for Python: numeric/boolean proxies over z3 terms "
                                     "run through the unmodified armi code, path exploration by re-execution, z3 "
                                     "decides feasibility and obligations")],
        checks=checks,
        notes="Every check regenerates its encoding from /repo's working tree (the armi modules are imported from "
              "/repo and executed on symbolic inputs). Exit 0 = all explored obligations discharged (or listed known "
              "findings); exit 1 = VIOLATION replayed on the real code; exit 3 = harness error (never a verdict).",
        not_applicable=na,
    )
    with open(os.path.join(VERIF, "MANIFEST.json"), "w") as f:
        json.dump(m, f, indent=1)
    print("checks:", [c["property_id"] for c in checks], "n/a:", [x["property_id"] for x in na])


if __name__ == "__main__":
    main()
