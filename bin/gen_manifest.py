#!/usr/bin/env python3
"""Regenerate /verif/MANIFEST.json from the table below (kept in one place so it stays valid)."""
import glob
import json
import os

VERIF = os.path.dirname(os.path.dirname(os.path.abspath(__file__)))

TECH = "bounded symbolic execution of the real Python code (proxy objects over z3 terms, DFS over branch " \
       "decisions) + SMT (z3) discharge of every obligation; counterexamples replayed on the real code"

NOTE_COMMON = "Trusted: z3 5.1; the symx proxy engine and namespace shims (differentially self-tested against " \
              "plain-number runs of the same code on every run; every harness carries a canary that must be " \
              "caught). Floats are modelled as reals with 1e-9 relative tolerance. Bounds, stubs and what lies " \
              "outside the claim are listed per harness in the evidence file. "

# property -> (level text, level note, design ref)
CLAIMS = {
    "C07": ("For ALL integer cell indices / ring-position pairs and all pitches (symbolic, unbounded Int/Real): "
            "ring/pos <-> indices are mutual inverses, ring = hex distance + 1, 6(r-1) contiguous positions, six "
            "neighbours one pitch away counter-clockwise in both orientations, coordinates affine in the indices, "
            "bounds-defined base/top/centre, nested-location composition, pitch change, constructor-argument "
            "round trip, labels; minimum-ring count exact for n <= 10^6.",
            "Theta-R-Z trigonometric conversion and labels of negative indices are outside the claim.", "3 C07"),
}

NA = {
    "C17": "Settings round trip goes through ruamel.yaml text emission/parsing and voluptuous coercion closures "
           "(C-level str handling): no arithmetic/index/bit kernel for a solver to decide; see DESIGN.md section 4.",
}


def main():
    props = [json.loads(l) for l in open(os.path.join(VERIF, "properties.jsonl"))]
    have = sorted({os.path.basename(p)[:3] for p in glob.glob(os.path.join(VERIF, "harness", "C*_*.py"))})
    checks = []
    na = []
    for p in props:
        pid = p["id"]
        if pid in CLAIMS and pid in have:
            text, note, ref = CLAIMS[pid]
            checks.append(dict(
                property_id=pid,
                quick_cmd="./check %s --tier quick" % pid,
                thorough_cmd="./check %s --tier thorough" % pid,
                evidence_file="/verif/evidence/%s.json" % pid,
                replay_cmd_template="./check %s --replay {path}" % pid,
                engine="symx",
                level_claimed=dict(category="other", text="Solver-decided within stated bounds (not a proof): " + text,
                                   design_ref="DESIGN.md section " + ref),
                level_note=NOTE_COMMON + note,
                technique=TECH,
            ))
        else:
            na.append(dict(property_id=pid, reason=NA.get(pid, "not yet covered by a solver-based check in this "
                                                               "revision (see DESIGN.md for the planned harness)")))
    m = dict(
        version=1,
        setup_cmd="/verif/bin/bootstrap.sh",
        hooks=dict(guard="ARMI_VERIF", enable="none needed: all instrumentation is applied from /verif at run time "
                                              "as module-namespace shims; /repo is imported as is",
                   baseline_off_cmd="cd /repo && /venv/bin/python -m pytest -ra -q -p no:cacheprovider --timeout=900 "
                                    "--continue-on-collection-errors",
                   source_commits=[], add_only=True),
        engines=[dict(name="symx", path="/verif/symx", serves_properties=[c["property_id"] for c in checks],
                      kind_free_text="in-house symbolic executor for Python: numeric/boolean proxies over z3 terms "
                                     "run through the unmodified armi code, path exploration by re-execution, z3 "
                                     "decides feasibility and obligations")],
        checks=checks,
        notes="Every check regenerates its encoding from /repo's working tree (the armi modules are imported from "
              "/repo and executed on symbolic inputs). Exit 0 = all explored obligations discharged (or listed known "
              "findings); exit 1 = VIOLATION replayed on the real code; exit 3 = harness error (never a verdict).",
        not_applicable=na,
    )
    with open(os.path.join(VERIF, "MANIFEST.json"), "w") as f:
        json.dump(m, f, indent=1)
    print("checks:", [c["property_id"] for c in checks], "n/a:", [x["property_id"] for x in na])


if __name__ == "__main__":
    main()
