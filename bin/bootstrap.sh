#!/bin/sh
# Idempotent, offline: overlay venv on top of /venv with z3-solver + crosshair-tool.
set -e
V=/verif/.venv
if [ ! -x "$V/bin/python" ] || ! "$V/bin/python" -c "import z3, armi" >/dev/null 2>&1; then
  rm -rf "$V"
  /venv/bin/python -m venv "$V"
  SP=$("$V/bin/python" -c "import site; print(site.getsitepackages()[0])")
  printf '%s\n' "import site; site.addsitedir('/venv/lib/python3.12/site-packages')" > "$SP/zz_overlay.pth"
  PIP_NO_INDEX=1 "$V/bin/python" -m pip install -q --no-index --find-links /opt/veriftools/wheels z3-solver crosshair-tool >/dev/null 2>&1 || \
  PIP_NO_INDEX=1 "$V/bin/python" -m pip install -q --no-index --find-links /opt/veriftools/wheels z3-solver
  "$V/bin/python" -c "import z3, armi" 
fi
mkdir -p /verif/.cache/mpl /verif/evidence
