#!/usr/bin/env python3
"""Regenerate the generated tables of DESIGN.md (between the BEGIN/END GENERATED markers) from evidence/ and seeded/."""
import glob
import json
import os
import re

V = os.path.dirname(os.path.dirname(os.path.abspath(__file__)))


def per_property():
    rows = ["| id | harness files | harness instances | paths (non-trivial) | obligations | exhaustive | canaries | tier of the committed evidence, wall (s) |",
            "|---|---|---|---|---|---|---|---|"]
    for f in sorted(glob.glob(os.path.join(V, "evidence", "C*.json"))):
        e = json.load(open(f))
        c = e["coverage"]
        pid = e["property_id"]
        files = ", ".join(sorted(os.path.basename(x) for x in glob.glob(os.path.join(V, "harness", pid + "_*.py"))))
        rows.append("| %s | %s | %d | %d (%d) | %d | %s | %d/%d | %s, %.0f |" % (
            pid, files, len(c["harnesses"]), c["evaluations"], c["distinct_nontrivial"], c["obligations"],
            "yes" if c["exhaustive"] else "no", c["canaries_caught"], c["canaries"], e.get("tier", "?"), e["wall_s"]))
    return "\n".join(rows)


def seeded():
    rows = ["| seeded change | property | what was changed (needs) | caught by |", "|---|---|---|---|"]
    n = caught = 0
    for d in sorted(glob.glob(os.path.join(V, "seeded", "*"))):
        mf = os.path.join(d, "meta.json")
        if not os.path.exists(mf):
            continue
        m = json.load(open(mf))
        n += 1
        by = []
        for chk, det in m["detection"].items():
            if det["exit"] == 1 and det["violation_lines"]:
                hs = sorted({re.search(r"harness=(\S+)", l).group(1) for l in det["first"] if "harness=" in l})
                by.append("%s: %s" % (chk, ", ".join(hs)))
        if by:
            caught += 1
        summ = (m.get("summary") or "").replace("|", "/").replace("\n", " ")
        needs = (m.get("needs") or "").replace("|", "/").replace("\n", " ")
        rows.append("| %s | %s | %s (%s) | %s |" % (os.path.basename(d), m["property"], summ[:230], needs[:160],
                                                    "; ".join(by) if by else "**not caught** " + m.get("why_missed", "")))
    rows.append("")
    rows.append("%d seeded changes filed, %d caught by the registered quick checks." % (n, caught))
    # per round / per property matrix
    rounds = {"m": "round 1", "n": "round 2", "p": "round 3", "q": "round 4"}
    stat = {}
    for d in sorted(glob.glob(os.path.join(V, "seeded", "*"))):
        mf = os.path.join(d, "meta.json")
        if not os.path.exists(mf):
            continue
        m = json.load(open(mf))
        name = os.path.basename(d)
        r = rounds.get(name.split("_")[1][0], "other")
        ok = any(det["exit"] == 1 and det["violation_lines"] for det in m["detection"].values())
        stat.setdefault(m["property"], {}).setdefault(r, []).append(ok)
    rows.append("")
    rows.append("| property | " + " | ".join(rounds.values()) + " |")
    rows.append("|---|" + "---|" * len(rounds))
    tot = {r: [0, 0] for r in rounds.values()}
    for pid in sorted(stat):
        cells = []
        for r in rounds.values():
            v = stat[pid].get(r, [])
            cells.append("%d/%d" % (sum(v), len(v)) if v else "-")
            tot[r][0] += sum(v)
            tot[r][1] += len(v)
        rows.append("| %s | %s |" % (pid, " | ".join(cells)))
    rows.append("| all | " + " | ".join("%d/%d" % tuple(tot[r]) for r in rounds.values()) + " |")
    return "\n".join(rows)


def _cell(t):
    return t.replace("|", "/").replace("\n", " ")


def fixed():
    """Table of repaired defects from the `fixed:` lines of known_findings.jsonl (commit subject from /repo)."""
    import subprocess

    rows = ["| property | commit | what was wrong (commit subject) | found by |", "|---|---|---|---|"]
    n = 0
    for l in open(os.path.join(V, "known_findings.jsonl")):
        m = re.match(r"fixed: property=(\S+) (\w+) (.*)", l.strip())
        if not m:
            continue
        n += 1
        pid, h, text = m.groups()
        subj = subprocess.run(["git", "-C", "/repo", "log", "-1", "--format=%s", h], capture_output=True,
                              text=True).stdout.strip()
        fb = re.search(r"[Ff]ound by (.*)$", text)
        rows.append("| %s | %s | %s | %s |" % (pid, h, _cell(subj[len("fix:"):].strip() if subj.startswith("fix:") else subj),
                                             _cell(fb.group(1).rstrip(".")[:200]) if fb else ""))
    rows.append("")
    rows.append("%d repairs, one `fix:` commit each." % n)
    return "\n".join(rows)


def known():
    rows = ["| property | harness | where (predicate over the counterexample) | finding |", "|---|---|---|---|"]
    n = 0
    for l in open(os.path.join(V, "known_findings.jsonl")):
        if not l.startswith("{"):
            continue
        e = json.loads(l)
        n += 1
        where = e.get("when", "")
        if e.get("obligation") or e.get("obligation_re"):
            where = "obligation ~ `%s`; %s" % (_cell(e.get("obligation_re") or e.get("obligation"))[:90], where)
        rows.append("| %s | %s | %s | %s |" % (e["property"], e["harness"], _cell(where)[:230], _cell(e["what"])[:420]))
    rows.append("")
    rows.append("%d recorded entries (several entries may describe one defect seen by several harnesses or obligations)." % n)
    return "\n".join(rows)


def main():
    p = os.path.join(V, "DESIGN.md")
    s = open(p).read()
    for tag, fn in (("PER-PROPERTY", per_property), ("SEEDED", seeded), ("FIXED", fixed), ("KNOWN", known)):
        a, b = "<!-- BEGIN GENERATED %s -->" % tag, "<!-- END GENERATED %s -->" % tag
        if a in s and b in s:
            s = s[:s.index(a) + len(a)] + "\n" + fn() + "\n" + s[s.index(b):]
    open(p, "w").write(s)


if __name__ == "__main__":
    main()
