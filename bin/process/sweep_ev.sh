#!/bin/bash
# usage: sweep_ev.sh <log> <tier> : like sweep.sh but WRITES evidence
log=$1; tier=${2:-quick}
cd /verif
: > $log
for p in C01 C02 C03 C04 C05 C06 C07 C08 C09 C10 C11 C12 C13 C14 C15 C16 C18 C19 C20; do
  s=$(date +%s)
  ./check $p --tier $tier > /tmp/scratch/sweepev_$p.out 2>&1; rc=$?
  e=$(date +%s)
  echo "$p $tier exit=$rc $((e-s))s viol=$(grep -c '^VIOLATION' /tmp/scratch/sweepev_$p.out) herr=$(grep -c '^HARNESS-ERROR' /tmp/scratch/sweepev_$p.out) known=$(grep -c '^KNOWN-FINDING' /tmp/scratch/sweepev_$p.out) :: $(grep -E "^inconclusive" /tmp/scratch/sweepev_$p.out | head -1) :: $(tail -1 /tmp/scratch/sweepev_$p.out | cut -c1-160)" >> $log
done
echo DONE >> $log
