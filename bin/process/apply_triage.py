#!/usr/bin/env python3
"""apply_triage.py <property> <flag> [<extra flag> ...] : commit /tmp/scratch/triage/<flag>.diff in /repo with its .msg,
flip the flag(s) in /verif/harness/*.py, append a fixed: line to known_findings.jsonl"""
import glob, re, subprocess, sys
prop, flag, extra = sys.argv[1], sys.argv[2], sys.argv[3:]
d = "/tmp/scratch/triage/"
msg = open(d + flag + ".msg").read().strip().splitlines()
found = " ".join(l.strip() for l in msg if l.lower().startswith("found by") or l.startswith("(flag") )
body = [l for l in msg if not l.lower().startswith("found by")]
# wrap nothing, keep as is
r = subprocess.run(["git", "-C", "/repo", "apply", d + flag + ".diff"], capture_output=True, text=True)
if r.returncode:
    print("APPLY FAILED", r.stderr); sys.exit(1)
subprocess.run(["git", "-C", "/repo", "commit", "-qam", "\n".join(body).strip() + "\n"], check=True)
h = subprocess.run(["git", "-C", "/repo", "rev-parse", "--short", "HEAD"], capture_output=True, text=True).stdout.strip()
for f in glob.glob("/verif/harness/*.py"):
    s = open(f).read(); s0 = s
    for fl in [flag] + extra:
        s = re.sub(r"^%s = True.*$" % fl, "%s = False  # repaired in /repo (fix: %s)" % (fl, h), s, flags=re.M)
    if s != s0:
        open(f, "w").write(s); print("flipped in", f)
first = body[0][len("fix:"):].strip()
open("/verif/known_findings.jsonl", "a").write("fixed: property=%s %s %s; %s (flag %s).\n" % (prop, h, first, found or "found by the harness guarded by", flag))
print(h, first)
