#!/venv/bin/python
"""usage: compare_tests.py <worktree>  -- runs the pinned test suite in the worktree and compares the set of passing
tests with the stable baseline (/root/.vp/BASELINE.json). Exit 0 if every baseline-stable test still passes."""
import json, os, subprocess, sys, tempfile
import xml.etree.ElementTree as ET
wt = os.path.abspath(sys.argv[1])
out = tempfile.mktemp(suffix=".xml", dir="/tmp/mut")
subprocess.run(["/venv/bin/python", "-m", "pytest", "-q", "-p", "no:cacheprovider", "--timeout=900",
                "--continue-on-collection-errors", "--junitxml=" + out], cwd=wt, stdout=subprocess.DEVNULL,
               stderr=subprocess.DEVNULL)
passed = set()
for tc in ET.parse(out).getroot().iter("testcase"):
    if not any(ch.tag in ("failure", "error", "skipped") for ch in tc):
        passed.add("%s::%s" % (tc.get("classname"), tc.get("name")))
os.remove(out)
base = set(json.load(open("/root/.vp/BASELINE.json"))["stable_pass"])
missing = sorted(base - passed)
print("baseline stable tests: %d, passing now: %d, baseline tests no longer passing: %d" % (len(base), len(passed & base), len(missing)))
for m in missing[:20]:
    print("  BROKEN:", m)
sys.exit(1 if missing else 0)
