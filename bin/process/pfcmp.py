import glob, os, xml.etree.ElementTree as ET, sys
def passes(d):
    out = {}
    for f in glob.glob(d + "/*.xml"):
        try:
            root = ET.parse(f).getroot()
        except Exception:
            continue
        for tc in root.iter("testcase"):
            bad = any(ch.tag in ("failure", "error", "skipped") for ch in tc)
            out["%s::%s" % (tc.get("classname"), tc.get("name"))] = not bad
    return out
b = passes("/tmp/scratch/pf/base"); h = passes(sys.argv[1] if len(sys.argv) > 1 else "/tmp/scratch/pf/head")
print("base: %d tests, %d pass; head: %d tests, %d pass" % (len(b), sum(b.values()), len(h), sum(h.values())))
lost = sorted(k for k, v in b.items() if v and not h.get(k, False))
gained = sorted(k for k, v in h.items() if v and not b.get(k, False))
print("pass on base, not on head:", len(lost))
for k in lost: print("   ", k)
print("pass on head, not on base:", len(gained))
for k in gained[:10]: print("   ", k)
