#!/bin/bash
# usage: perfile.sh <tree> <outdir> : runs every armi test file on its own, records pass sets
tree=$1; out=$2; mkdir -p $out
cd $tree
find armi -name "test_*.py" -path "*tests*" | sort > $out/files.txt
run_one() {
  f=$1; out=$2
  n=$(echo $f | tr '/' '_')
  timeout 1500 /venv/bin/python -m pytest -q -p no:cacheprovider --timeout=900 -x --co -q $f >/dev/null 2>&1
  timeout 1500 /venv/bin/python -m pytest -q -p no:cacheprovider --timeout=900 --junitxml=$out/$n.xml $f > $out/$n.log 2>&1
}
export -f run_one
cat $out/files.txt | xargs -P 5 -I{} bash -c "run_one {} $out"
