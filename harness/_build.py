"""Builders of small real armi objects (concrete structure; harnesses inject symbolic numbers)."""
from armi.reactor import assemblies, blocks, components, grids, reactors
from armi.reactor.blueprints import Blueprints
from armi.reactor.flags import Flags


def mk_block(name="fuel", height=10.0, coolant=False, intercoolant=True):
    b = blocks.HexBlock(name, height=height)
    fuel = components.Circle("fuel", "UZr", Tinput=25.0, Thot=600, od=0.76, id=0.0, mult=127.0)
    clad = components.Circle("clad", "HT9", Tinput=25.0, Thot=450, od=0.80, id=0.77, mult=127.0)
    duct = components.Hexagon("duct", "HT9", Tinput=25.0, Thot=400, op=16, ip=15.3, mult=1.0)
    comps = [fuel, clad, duct]
    if coolant:
        comps.append(components.DerivedShape("coolant", "Sodium", Tinput=25.0, Thot=400))
    if intercoolant:
        comps.append(components.Hexagon("intercoolant", "Sodium", Tinput=25.0, Thot=400, op=16.2, ip=16.0, mult=1.0))
    for c in comps:
        b.add(c)
    b.setType(name)
    return b


def mk_assembly(nblocks=2, heights=None, name="fuel", **kw):
    a = assemblies.HexAssembly(name)
    a.spatialGrid = grids.AxialGrid.fromNCells(nblocks)
    a.spatialGrid.armiObject = a
    for k in range(nblocks):
        h = 10.0 if heights is None else heights[k]
        a.add(mk_block(name, height=h, **kw))
    a.calculateZCoords()
    return a


def mk_core(cells, symmetry="third periodic", pitch=16.2, nblocks=1, numRings=3, **kw):
    """Mini reactor: Blueprints() + Reactor + Core + HexGrid + hand-made assemblies at the given (i,j) cells."""
    r = reactors.Reactor("mini", Blueprints())
    core = reactors.Core("core")
    r.add(core)
    g = grids.HexGrid.fromPitch(pitch, numRings=numRings, symmetry=symmetry)
    g.armiObject = core
    g._geomType = "hex"
    core.spatialGrid = g
    out = []
    for (i, j) in cells:
        a = mk_assembly(nblocks, **kw)
        core.add(a, g[i, j, 0])
        out.append(a)
    return r, core, out
