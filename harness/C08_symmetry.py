"""C08: grid symmetry and rotation agree with the physical geometry."""
import itertools
import math

from symx.core import CLOSE, AND, OR, NOT, IMPLIES, IFF, ITE, MAX, Sym
from symx.engine import harness
from symx import shims

import armi.reactor.grids.hexagonal as hexmod
import armi.reactor.grids.structuredGrid as sgmod
import armi.reactor.grids.cartesian as cartmod
import armi.utils.hexagon as hexagon
from armi.reactor import geometry
from armi.reactor.grids.hexagonal import HexGrid
from armi.reactor.grids.cartesian import CartesianGrid
from armi.reactor.grids.locations import IndexLocation
from armi.reactor.grids.constants import (BOUNDARY_0_DEGREES, BOUNDARY_120_DEGREES, BOUNDARY_60_DEGREES,
                                          BOUNDARY_CENTER)

shims.patch(sgmod, np=shims.np_shim)
shims.patch(hexmod, np=shims.np_shim, sqrt=shims.math_shim.sqrt, isclose=shims.math_shim.isclose)
shims.patch(cartmod, np=shims.np_shim, int=shims.int_shim)
shims.patch(hexagon, math=shims.math_shim, int=shims.int_shim)

STUBS = ["structuredGrid.np / hexagonal.np / cartesian.np -> object-array aware numpy shim",
         "hexagonal.sqrt, hexagon.math.sqrt -> algebraic sqrt; hexagon.int / cartesian.int -> identity on Int proxies"]

THIRD = "third periodic"


def rot60(ctx, x, y, k):
    """Exact rotation of (x, y) by k*60 degrees counter-clockwise (sqrt3 algebraic)."""
    s3 = ctx.sqrt_const(3)
    k = k % 6
    c = [1, 0.5, -0.5, -1, -0.5, 0.5][k]
    s = [0, 0.5, 0.5, 0, -0.5, -0.5][k]
    return c * x - s * s3 * y, s * s3 * x + c * y


def hexdist(i, j):
    return MAX(abs(i), abs(j), abs(i + j))


@harness("C08", bounds="all integers i,j; pitch in (0.01,1000); both orientations", stubs=STUBS,
         instances={"quick": [dict(cornersUp=False), dict(cornersUp=True)]})
def hex_third_equivalents_are_120deg_images(ctx, cornersUp):
    i, j, k = ctx.int("i"), ctx.int("j"), ctx.int("k")
    p = ctx.real("pitch", 0.01, 1000.0)
    g = HexGrid.fromPitch(p, numRings=1, cornersUp=cornersUp, symmetry=THIRD)
    eq = g.getSymmetricEquivalents((i, j, k))
    x, y, _ = g.getCoordinates((i, j, 0))
    if bool(AND(i == 0, j == 0)):
        ctx.check("centre cell is its own orbit", len(eq) == 0)
        return
    ctx.check("two equivalents off centre", len(eq) == 2)
    scale = p * (abs(i) + abs(j) + 1)
    for m, e in enumerate(eq):
        ex, ey, _ = g.getCoordinates((e[0], e[1], 0))
        wx, wy = rot60(ctx, x, y, 2 * (m + 1))
        if ctx.canary and m == 1:
            wx, wy = rot60(ctx, x, y, 2)
        ctx.check_close("equivalent %d is the %d-degree image (x)" % (m, 120 * (m + 1)), ex, wx, scale=scale)
        ctx.check_close("equivalent %d is the %d-degree image (y)" % (m, 120 * (m + 1)), ey, wy, scale=scale)
        ctx.check("equivalent %d differs from the cell" % m, OR(e[0] != i, e[1] != j))
        ctx.check_eq("equivalent %d in the same ring" % m, hexdist(e[0], e[1]), hexdist(i, j))
    ctx.check("the two equivalents differ", OR(eq[0][0] != eq[1][0], eq[0][1] != eq[1][1]))
    full = HexGrid.fromPitch(p, numRings=1, cornersUp=cornersUp, symmetry="full")
    ctx.check("full core has no equivalents", len(full.getSymmetricEquivalents((i, j, k))) == 0)


@harness("C08", bounds="all integers i,j (every cell of the infinite lattice)", stubs=STUBS)
def hex_exactly_one_orbit_member_in_first_third(ctx):
    i, j = ctx.int("i"), ctx.int("j")
    ctx.assume(OR(i != 0, j != 0))
    g = HexGrid.fromPitch(1.0, numRings=1, symmetry=THIRD)
    orbit = [(i, j)] + [tuple(e) for e in g.getSymmetricEquivalents((i, j, 0))]
    inside = []
    insideTop = []
    lines = []
    for (a, b) in orbit:
        loc = IndexLocation(a, b, 0, g)
        inside.append(bool(g.locatorInDomain(loc)))
        insideTop.append(bool(g.locatorInDomain(loc, symmetryOverlap=True)))
        lines.append(g.overlapsWhichSymmetryLine((a, b)))
    n = sum(inside)
    nTop = sum(insideTop)
    if ctx.canary:
        n = n + ITE(AND(i == 5, j == -3), 1, 0)
    ctx.check("exactly one orbit member in the modelled third", n == 1)
    on0 = any(l == BOUNDARY_0_DEGREES for l in lines)
    on120 = any(l == BOUNDARY_120_DEGREES for l in lines)
    ctx.check("orbit touches the 0-degree line iff it touches the 120-degree line", on0 == on120)
    ctx.check("with the top edge included: two members iff the orbit lies on the 0/120 lines, else one",
              nTop == (2 if on0 else 1))
    for m in range(3):
        if lines[m] == BOUNDARY_0_DEGREES:
            ctx.check("0-degree-line cell is in the domain", inside[m])
        if lines[m] == BOUNDARY_120_DEGREES:
            ctx.check("120-degree-line cell only with top edge", AND(NOT(inside[m]), insideTop[m]))
        if lines[m] == BOUNDARY_60_DEGREES:
            ctx.check("60-degree-line cell is in the domain", inside[m])


@harness("C08", bounds="|i|,|j| <= 10^6; pitch in (0.01,1000); flats-up coordinates (a cell off a symmetry line is at "
                       "least one pitch away from it, the comparison tolerance is 1e-9..1e-7 of the coordinate scale)",
         stubs=STUBS)
def hex_symmetry_line_classification_matches_coordinates(ctx):
    i, j = ctx.int("i", -10 ** 6, 10 ** 6), ctx.int("j", -10 ** 6, 10 ** 6)
    p = ctx.real("pitch", 0.01, 1000.0)
    g = HexGrid.fromPitch(p, numRings=1, symmetry=THIRD)
    line = g.overlapsWhichSymmetryLine((i, j))
    s3 = ctx.sqrt_const(3)
    # exact centre coordinates (the affine map proved in C07, with sqrt3 exact)
    x, y = (s3 / 2) * p * i, p * i / 2 + p * j
    if ctx.canary:
        y = y + p * ITE(AND(i == 2, j == -1), 1, 0)
    sc = p * (abs(i) + abs(j) + 1)
    ctx.check("centre iff at the origin", IFF(line == BOUNDARY_CENTER, AND(CLOSE(x, 0, sc), CLOSE(y, 0, sc))))
    ctx.check("0-degree line iff polar angle 0", IFF(line == BOUNDARY_0_DEGREES, AND(CLOSE(y, 0, sc), x > 0)))
    ctx.check("60-degree line iff polar angle 60", IFF(line == BOUNDARY_60_DEGREES, AND(CLOSE(y, s3 * x, sc), x > 0)))
    ctx.check("120-degree line iff polar angle 120", IFF(line == BOUNDARY_120_DEGREES, AND(CLOSE(y, -s3 * x, sc), x < 0)))


# the obligations of this harness are spread over three instances per orientation (the windows of rotations whose
# coordinates are compared; the period / composition relations go with the middle window): same obligations, shorter
# critical path of the check
_ROT_WINDOWS = {"low": range(-13, -4), "mid": range(-4, 5), "high": range(5, 14)}


@harness("C08", bounds="all integers i,j,k-index; rotations in the window [-13,13] (three sub-windows = three instances); "
                       "both orientations",
         stubs=STUBS, instances={"quick": [dict(cornersUp=cu, window=w) for cu in (False, True) for w in _ROT_WINDOWS]})
def hex_rotate_index_rotates_coordinates(ctx, cornersUp, window):
    i, j, kk = ctx.int("i"), ctx.int("j"), ctx.int("k")
    p = ctx.real("pitch", 0.01, 1000.0)
    g = HexGrid.fromPitch(p, numRings=1, cornersUp=cornersUp)
    loc = IndexLocation(i, j, kk, g)
    x, y, _ = g.getCoordinates((i, j, 0))
    scale = p * (abs(i) + abs(j) + 1)
    rotated = {}
    win = _ROT_WINDOWS[window]
    for r in range(-13, 14):
        n = g.rotateIndex(loc, r)
        rotated[r] = n
        if r not in win:
            continue
        nx, ny, _ = g.getCoordinates((n.i, n.j, 0))
        wx, wy = rot60(ctx, x, y, r + (1 if ctx.canary and r == win[-2] else 0))
        ctx.check_close("rotateIndex(%d): x rotated by %d deg" % (r, 60 * r), nx, wx, scale=scale)
        ctx.check_close("rotateIndex(%d): y rotated by %d deg" % (r, 60 * r), ny, wy, scale=scale)
        ctx.check("rotateIndex(%d) keeps axial index and grid" % r, AND(n.k == kk, n.grid is g))
        ctx.check_eq("rotateIndex(%d) preserves the ring" % r, hexdist(n.i, n.j), hexdist(i, j))
    if window != "mid":
        return
    for r in range(-13, 8):
        ctx.check("period six (%d)" % r, AND(rotated[r].i == rotated[r + 6].i, rotated[r].j == rotated[r + 6].j))
    for a in range(-3, 4):
        for b in range(-3, 4):
            ab = g.rotateIndex(rotated[a], b)
            ctx.check("composition %d then %d is additive" % (a, b), AND(ab.i == rotated[a + b].i,
                                                                         ab.j == rotated[a + b].j))


@harness("C08", bounds="rings 1..R (R=8 quick, 16 thorough; ring enumerated by forking, position symbolic), "
                        "orientation 0..5", stubs=STUBS, qtimeout_ms=20000,
         instances={"quick": [dict(R=8)], "thorough": [dict(R=16)]})
def hex_rotated_cell_number_agrees_with_rotate_index(ctx, R):
    ring = int(ctx.int("ring", 1, R))
    pos = ctx.int("pos", 1, 6 * R)
    ctx.assume(pos <= (1 if ring == 1 else 6 * (ring - 1)))
    o = ctx.int("orientation", 0, 5)
    n = hexagon.totalPositionsUpToRing(ring - 1) + pos if bool(ring > 1) else pos
    got = hexagon.getIndexOfRotatedCell(n, o)
    g = HexGrid.fromPitch(1.0, numRings=1)
    i, j = HexGrid.getIndicesFromRingAndPos(ring, pos)
    r = g.rotateIndex(IndexLocation(i, j, 0, g), int(o))
    r2, p2 = HexGrid.indicesToRingPos(r.i, r.j)
    want = hexagon.totalPositionsUpToRing(r2 - 1) + p2 if bool(r2 > 1) else p2
    if ctx.canary:
        want = want + ITE(AND(ring == 3, pos == 12, o == 1), 1, 0)
    ctx.check_eq("rotated cell number == number of the rotated index", got, want)


def _perm_match(got, want, scale):
    """got and want (lists of (x,y)) are equal as multisets."""
    if len(got) != len(want):
        return False
    alts = []
    for perm in itertools.permutations(range(len(want))):
        alts.append(AND(*[AND(CLOSE(got[a][0], want[b][0], scale), CLOSE(got[a][1], want[b][1], scale))
                          for a, b in enumerate(perm)]))
    return OR(*alts)


@harness("C08", bounds="|i|,|j| <= 10^6; widths in (0.01,1000); the four quarter-core Cartesian variants",
         stubs=STUBS,
         instances={"quick": [dict(periodic=pe, through=th) for pe in (True, False) for th in (True, False)]})
def cartesian_quarter_equivalents_are_group_images(ctx, periodic, through):
    i, j = ctx.int("i", -10 ** 6, 10 ** 6), ctx.int("j", -10 ** 6, 10 ** 6)
    w = ctx.real("w", 0.01, 1000.0)
    h = w if periodic else ctx.real("h", 0.01, 1000.0)
    sym = "quarter " + ("periodic" if periodic else "reflective") + (" through center assembly" if through else "")
    g = CartesianGrid.fromRectangle(w, h, numRings=1, symmetry=sym, isOffset=not through)
    ctx.check("symmetry parsed", AND(g.symmetry.domain == geometry.DomainType.QUARTER_CORE,
                                     g.symmetry.isThroughCenterAssembly == through))
    eq = g.getSymmetricEquivalents((i, j, 0))
    x, y, _ = g.getCoordinates((i, j, 0))
    scale = 1e3 * ITE(w < h, w, h)  # cells differ by at least one pitch; tolerance 1e-6 pitch (conc) / 1e-9*1e3 (sym)
    if periodic:
        images = [(-y, x), (-x, -y), (y, -x)]
    else:
        images = [(-x, y), (-x, -y), (x, -y)]
    if ctx.canary:
        images[0] = (images[0][0] + w * ITE(AND(i == 2, j == 1), 1, 0), images[0][1])
    # distinct images other than the cell itself
    uniq = []
    for im in images:
        if bool(AND(CLOSE(im[0], x, scale), CLOSE(im[1], y, scale))):
            continue
        if any(bool(AND(CLOSE(im[0], u[0], scale), CLOSE(im[1], u[1], scale))) for u in uniq):
            continue
        uniq.append(im)
    got = []
    for e in eq:
        ex, ey, _ = g.getCoordinates((e[0], e[1], 0))
        got.append((ex, ey))
    ctx.check("number of equivalents = number of distinct images", len(got) == len(uniq))
    if len(got) == len(uniq):
        ctx.check("equivalents are exactly the images of the centre under the symmetry group",
                  _perm_match(got, uniq, scale))
    # one orbit member in the domain unless the cell sits on a symmetry line
    orbit = [(i, j)] + [tuple(e) for e in eq]
    n = sum(bool(g.locatorInDomain(IndexLocation(a, b, 0, g))) for a, b in orbit)
    onLine = OR(CLOSE(x, 0, scale), CLOSE(y, 0, scale))
    if not bool(onLine):
        ctx.check("exactly one orbit member in the modelled quarter", n == 1)
    else:
        ctx.check("cells on symmetry lines: at least one member in the domain", n >= 1)
