"""C09: CCCC record framing (binary), ASCII fixed-width fields, block bandwidth arithmetic."""
import io
import struct

import z3

from symx.core import AND, OR, NOT, IMPLIES, IFF, ITE, Sym, Abort
from symx.engine import harness
from symx import shims, symstr
from symx.symstr import SymStr

import armi.nuclearDataIO.cccc.cccc as cccc

shims.patch(cccc, int=symstr.int_shim)

STUBS = ["file stream -> in-memory stream (bytes for binary records; fixed-length symbolic strings for ASCII records)",
         "cccc.int -> int() of symbolic decimal strings (digits tied to the value by one linear constraint)",
         "struct.pack/unpack run concretely (C boundary): field VALUES are concrete in the binary harnesses, the byte "
         "count of the open record and the string length are symbolic"]

assert not symstr.selfcheck_format_model([">+10", "<5", "<1", "d"])


class SymStream:
    """What the record classes need of a file object: write() and read(n)."""

    def __init__(self, binary):
        self.binary = binary
        self.buf = b"" if binary else SymStr([])
        self.pos = 0

    def write(self, x):
        if self.binary:
            self.buf += x
        else:
            self.buf = self.buf + (SymStr.from_marked(x) if isinstance(x, str) else x)

    def read(self, n):
        out = self.buf[self.pos:self.pos + n]
        self.pos += n
        if not self.binary and out.is_concrete():
            return out.concrete()
        return out

    def remaining(self):
        return len(self.buf) - self.pos


PRIMS = ["int", "long", "float", "double", "bool", "string", "list_int", "list_string", "matrix", "double_matrix"]


def _apply(rec, prim, L):
    """apply one writer primitive with a concrete value; returns the value written"""
    import numpy as np

    if prim == "int":
        return rec.rwInt(-123456)
    if prim == "long":
        return rec.rwLong(2 ** 40 + 5)
    if prim == "float":
        return rec.rwFloat(1.5)
    if prim == "double":
        return rec.rwDouble(-2.25e-7)
    if prim == "bool":
        return rec.rwBool(True)
    if prim == "string":
        return rec.rwString("ab"[: min(2, int(L))], L)
    if prim == "list_int":
        return rec.rwList([1, 2, 3], "int", 3)
    if prim == "list_string":
        return rec.rwList(["x"[:int(L)], "yz"[:int(L)]], "string", 2, L)
    if prim == "matrix":
        return rec.rwMatrix(np.arange(6, dtype=float).reshape(3, 2), 2, 3)
    if prim == "double_matrix":
        return rec.rwDoubleMatrix(np.arange(4, dtype=float).reshape(2, 2), 2, 2)
    raise KeyError(prim)


@harness("C09", bounds="ONE writer primitive applied to an open binary record whose current byte count N is an "
                       "arbitrary symbolic Int >= 0 (inductive step: covers every mix and number of fields); string "
                       "length L in 0..16 symbolic", stubs=STUBS,
         instances={"quick": [dict(prim=p) for p in PRIMS]})
def binary_writer_counts_the_bytes_it_appends(ctx, prim):
    N = ctx.int("N", 0)
    L = ctx.int("L", 0, 16)
    rec = cccc.BinaryRecordWriter(SymStream(True))
    rec.open()
    rec.numBytes = N
    _apply(rec, prim, L)
    appended = sum(len(x) for x in rec.data)
    got = rec.numBytes - N
    if ctx.canary:
        got = got + ITE(AND(N == 40, L == 7), 1, 0) if prim in ("string", "list_string") else got + ITE(N == 40, 1, 0)
    ctx.check_eq("byte count of the record grows by the number of bytes appended", got, appended)


@harness("C09", bounds="complete binary records of 1..2 fields, every ordered choice of primitives enumerated by "
                       "forking, string length 0..4; written then read back through BinaryRecordReader", stubs=STUBS,
         instances={"quick": [dict(k=1), dict(k=2)], "thorough": [dict(k=1), dict(k=2), dict(k=3)]}, max_paths=5000)
def binary_record_is_framed_by_its_payload_length(ctx, k):
    prims = [ctx.choice("f%d" % i, PRIMS) for i in range(k)]
    L = int(ctx.int("L", 0, 4))
    st = SymStream(True)
    written = []
    with cccc.BinaryRecordWriter(st) as rec:
        for p in prims:
            written.append(_apply(rec, p, L))
    raw = st.buf
    (lead,) = struct.unpack("i", raw[:4])
    (trail,) = struct.unpack("i", raw[-4:])
    payload = len(raw) - 8
    if ctx.canary and prims[-1] == "double" and L == 3:
        payload += 1
    ctx.check("leading count == payload length", lead == payload)
    ctx.check("trailing count == leading count", trail == lead)
    # read back with the reader primitives in the same order
    rd = SymStream(True)
    rd.buf = raw
    ok = True
    try:
        with cccc.BinaryRecordReader(rd) as rec:
            for p, w in zip(prims, written):
                r = _apply(rec, p, L)
                ok = ok and _same(r, w, p)
    except BufferError:
        ok = False
    ctx.check("reader returns what was written and accepts the framing", ok)
    ctx.check("reader consumed the whole record", rd.remaining() == 0)


def _same(r, w, p):
    import numpy as np

    if p in ("float", "matrix"):
        return bool(np.allclose(np.asarray(r, dtype=float), np.asarray(w, dtype=float), rtol=1e-6))
    if p in ("list_int", "list_string", "double_matrix"):
        return [str(x).strip() for x in np.asarray(r).ravel()] == [str(x).strip() for x in np.asarray(w).ravel()]
    if p == "string":
        return str(r) == str(w).rstrip()
    return r == w


@harness("C09", bounds="ASCII record holding one integer v, v symbolic over the full int32 range; widths read from "
                       "the record classes at run time", stubs=STUBS)
def ascii_integer_field_reads_back(ctx):
    v = ctx.int("v", -2 ** 31, 2 ** 31 - 1)
    st = SymStream(False)
    with cccc.AsciiRecordWriter(st) as w:
        w.rwInt(v)
    total = len(st.buf)
    ctx.check("an ASCII integer field occupies exactly _intLength characters",
              total == 3 * cccc.IORecord._intLength + 1)
    rd = SymStream(False)
    rd.buf = st.buf
    try:
        with cccc.AsciiRecordReader(rd) as r:
            got = r.rwInt(None)
        ok = True
    except (BufferError, ValueError):
        got, ok = None, False
    if ctx.canary and ok:
        got = got + ITE(v == 777, 1, 0)
    ctx.check("reader accepts the record the writer produced", ok)
    if ok:
        ctx.check_eq("integer reads back", got, v)
        ctx.check("reader consumed the whole record", rd.remaining() == 0)


@harness("C09", bounds="ASCII record holding an int, a string of symbolic length 0..12 (concrete text) and an int", stubs=STUBS)
def ascii_string_field_reads_back(ctx):
    L = int(ctx.int("L", 0, 12))
    a = ctx.int("a", -10 ** 6, 10 ** 6)
    b = ctx.int("b", -10 ** 6, 10 ** 6)
    text = "hello world!"[:max(0, L - 1)]
    st = SymStream(False)
    with cccc.AsciiRecordWriter(st) as w:
        w.rwInt(a)
        w.rwString(text, L)
        w.rwInt(b)
    rd = SymStream(False)
    rd.buf = st.buf
    with cccc.AsciiRecordReader(rd) as r:
        ga = r.rwInt(None)
        gs = r.rwString(None, L)
        gb = r.rwInt(None)
    if ctx.canary:
        gb = gb + ITE(AND(a == 5, b == -5), 1, 0)
    ctx.check_eq("first integer", ga, a)
    ctx.check("string reads back (trailing blanks stripped)", str(gs) == text.rstrip() if isinstance(gs, str) else gs == text.rstrip())
    ctx.check_eq("integer after the string", gb, b)
    ctx.check("reader consumed the whole record", rd.remaining() == 0)


@harness("C09", bounds="nintj >= 1 symbolic (unbounded), nblok in 1..8 (forked), cell index j symbolic", stubs=STUBS)
def block_bands_partition_the_columns(ctx):
    nintj = ctx.int("nintj", 1)
    nblok = int(ctx.int("nblok", 1, 8))
    j = ctx.int("j", 0)
    ctx.assume(j < nintj)
    inside = []
    prevHigh = None
    for m in range(1, nblok + 1):
        lo, hi = cccc.getBlockBandwidth(m, nintj, nblok)
        inside.append(ITE(AND(lo <= j, j <= hi), 1, 0))
        if m == 1:
            ctx.check("first band starts at column 0", lo == 0)
        else:
            ctx.check("band %d starts right after band %d (or both lie past the end)" % (m, m - 1),
                      OR(lo == prevHigh + 1, AND(lo > prevHigh, prevHigh == nintj - 1)))
        ctx.check("band %d stays inside the matrix" % m, hi <= nintj - 1)
        prevHigh = hi
    ctx.check("last band ends at the last column", prevHigh == nintj - 1)
    n = sum(inside)
    if ctx.canary:
        n = n + ITE(AND(nintj == 11, j == 10), 1, 0)
    ctx.check("every column lies in exactly one band", n == 1)


@harness("C09", bounds="binary record holding n integer fields with n around the writer's flush-chunk size "
                       "(io.DEFAULT_BUFFER_SIZE, read at run time): n in {B-1, B, B+1, 2B-1, 2B, 2B+1} chosen symbolically",
         stubs=STUBS, max_paths=50)
def binary_record_longer_than_the_flush_chunk(ctx):
    B = io.DEFAULT_BUFFER_SIZE
    n = ctx.choice("n", [B - 1, B, B + 1, 2 * B - 1, 2 * B, 2 * B + 1])
    st = SymStream(True)
    with cccc.BinaryRecordWriter(st) as rec:
        for k in range(n):
            rec.rwInt(k)
    raw = st.buf
    (lead,) = struct.unpack("i", raw[:4])
    (trail,) = struct.unpack("i", raw[-4:])
    payload = len(raw) - 8
    if ctx.canary and n == 2 * B:
        payload += 4
    ctx.check("leading count == payload length", lead == payload)
    ctx.check("payload holds every field", payload == 4 * n)
    ctx.check("trailing count == leading count", trail == lead)
    ctx.check("last field is the last value written", struct.unpack("i", raw[-8:-4])[0] == n - 1)
