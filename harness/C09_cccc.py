"""C09: CCCC record framing (binary), ASCII fixed-width fields, block bandwidth arithmetic."""
import io
import struct

import z3

from symx.core import AND, OR, NOT, IMPLIES, IFF, ITE, Sym, Abort
from symx.engine import harness
from symx import shims, symstr
from symx.symstr import SymStr

import armi.nuclearDataIO.cccc.cccc as cccc

shims.patch(cccc, int=symstr.int_shim)

STUBS = ["file stream -> in-memory stream (bytes for binary records; fixed-length symbolic strings for ASCII records)",
         "cccc.int -> int() of symbolic decimal strings (digits tied to the value by one linear constraint)",
         "struct.pack/unpack run concretely (C boundary): field VALUES are concrete in the binary harnesses, the byte "
         "count of the open record and the string length are symbolic"]

assert not symstr.selfcheck_format_model([">+10", "<5", "<1", "d"])


class SymStream:
    """What the record classes need of a file object: write() and read(n)."""

    def __init__(self, binary):
        self.binary = binary
        self.buf = b"" if binary else SymStr([])
        self.pos = 0

    def write(self, x):
        if self.binary:
            self.buf += x
        else:
            self.buf = self.buf + (SymStr.from_marked(x) if isinstance(x, str) else x)

    def read(self, n):
        out = self.buf[self.pos:self.pos + n]
        self.pos += n
        if not self.binary and out.is_concrete():
            return out.concrete()
        return out

    def remaining(self):
        return len(self.buf) - self.pos


PRIMS = ["int", "long", "float", "double", "bool", "string", "list_int", "list_string", "matrix", "double_matrix"]


def _fit(chars, L):
    """the longest prefix of `chars` whose UTF-8 encoding fits a field of L bytes (whole characters only)"""
    out = ""
    for c in chars:
        if len((out + c).encode("utf-8")) > L:
            break
        out += c
    return out


# Representative texts for a string field of L bytes (a CCCC string field is L characters of ONE byte each; armi encodes
# text as UTF-8, so a character outside ASCII takes 2-4 of the L bytes).  A text FITS its field when its encoding is at
# most L bytes long: then it must read back (trailing blanks are the padding of the format and cannot be told from
# it: equality modulo trailing blanks, the re-written bytes identical).  The last two classes are over-long: the writer
# does not refuse them (it cuts them to the field), what the contract says about their VALUE is left open here, but the
# FRAMING clause of the property holds for every record the writer produces, so they take part in the byte counts.
TEXTS = {
    "empty": lambda L: "",
    "ascii shorter than the field": lambda L: "ab"[:L],
    "ascii exactly as wide as the field": lambda L: "abcdefghijklmnopqrstuvwxyz"[:L],
    "ascii with leading and inner blanks": lambda L: " a b c d e f g h i j k l"[:L].rstrip(),
    "ascii with a trailing blank": lambda L: "ab "[:L],
    "one 2-byte character": lambda L: _fit("\u00b5", L),
    "2-byte characters, as much as fits": lambda L: _fit("c\u0153ur-n\u00b012-\u00e9tude-\u00b5mesh", L),
    "3-byte characters, as much as fits": lambda L: _fit("\u20aca\u2192b\u2211c\u2026d\u20ace\u2192f", L),
    "4-byte character and ascii": lambda L: _fit("x\U0001d6d1y", L),
    "over-long ascii": lambda L: "abcdefghijklmnopqrstuvwxyz"[:L + 3],
    "L characters that need more than L bytes": lambda L: ("\u00e9a\u20ac" * 9)[:L],
}


def fits(text, L):
    return len(text.encode("utf-8")) <= L


def _apply(rec, prim, L, text=None):
    """apply one writer primitive with a concrete value; returns the value written"""
    import numpy as np

    if text is not None and prim == "string":
        return rec.rwString(text, L)
    if text is not None and prim == "list_string":
        return rec.rwList(["x"[:int(L)], text], "string", 2, L)

    if prim == "int":
        return rec.rwInt(-123456)
    if prim == "long":
        return rec.rwLong(2 ** 40 + 5)
    if prim == "float":
        return rec.rwFloat(1.5)
    if prim == "double":
        return rec.rwDouble(-2.25e-7)
    if prim == "bool":
        return rec.rwBool(True)
    if prim == "string":
        return rec.rwString("ab"[: min(2, int(L))], L)
    if prim == "list_int":
        return rec.rwList([1, 2, 3], "int", 3)
    if prim == "list_string":
        return rec.rwList(["x"[:int(L)], "yz"[:int(L)]], "string", 2, L)
    if prim == "matrix":
        return rec.rwMatrix(np.arange(6, dtype=float).reshape(3, 2), 2, 3)
    if prim == "double_matrix":
        return rec.rwDoubleMatrix(np.arange(4, dtype=float).reshape(2, 2), 2, 2)
    raise KeyError(prim)


@harness("C09", bounds="ONE writer primitive applied to an open binary record whose current byte count N is an "
                       "arbitrary symbolic Int >= 0 (inductive step: covers every mix and number of fields); string "
                       "length L in 0..16 symbolic; for the string primitives the text is a symbolic choice among "
                       "representative classes (empty, ASCII shorter than / exactly as wide as the field, blanks, 2-, 3- "
                       "and 4-byte UTF-8 characters filling the field, over-long texts)", stubs=STUBS,
         instances={"quick": [dict(prim=p) for p in PRIMS]})
def binary_writer_counts_the_bytes_it_appends(ctx, prim):
    N = ctx.int("N", 0)
    L = ctx.int("L", 0, 16)
    isString = prim in ("string", "list_string")
    cls = ctx.choice("text", list(TEXTS)) if isString else None         # (prim is fixed per instance)
    rec = cccc.BinaryRecordWriter(SymStream(True))
    rec.open()
    rec.numBytes = N
    _apply(rec, prim, L, TEXTS[cls](int(L)) if isString else None)
    appended = sum(len(x) for x in rec.data)
    got = rec.numBytes - N
    if ctx.canary:
        got = got + ITE(AND(N == 40, L == 7), 1, 0) if isString else got + ITE(N == 40, 1, 0)
    ctx.check_eq("byte count of the record grows by the number of bytes appended", got, appended)
    if isString:
        ctx.check_eq("a string field occupies exactly its width, whatever the text",
                     appended, (L if prim == "string" else 2 * L))


@harness("C09", bounds="complete binary records of 1..2 fields, every ordered choice of primitives enumerated by "
                       "forking, string length 0..4; written then read back through BinaryRecordReader", stubs=STUBS,
         instances={"quick": [dict(k=1), dict(k=2)], "thorough": [dict(k=1), dict(k=2), dict(k=3)]}, max_paths=5000)
def binary_record_is_framed_by_its_payload_length(ctx, k):
    prims = [ctx.choice("f%d" % i, PRIMS) for i in range(k)]
    L = int(ctx.int("L", 0, 4))
    st = SymStream(True)
    written = []
    with cccc.BinaryRecordWriter(st) as rec:
        for p in prims:
            written.append(_apply(rec, p, L))
    raw = st.buf
    (lead,) = struct.unpack("i", raw[:4])
    (trail,) = struct.unpack("i", raw[-4:])
    payload = len(raw) - 8
    if ctx.canary and prims[-1] == "double" and L == 3:
        payload += 1
    ctx.check("leading count == payload length", lead == payload)
    ctx.check("trailing count == leading count", trail == lead)
    # read back with the reader primitives in the same order
    rd = SymStream(True)
    rd.buf = raw
    ok = True
    try:
        with cccc.BinaryRecordReader(rd) as rec:
            for p, w in zip(prims, written):
                r = _apply(rec, p, L)
                ok = ok and _same(r, w, p)
    except BufferError:
        ok = False
    ctx.check("reader returns what was written and accepts the framing", ok)
    ctx.check("reader consumed the whole record", rd.remaining() == 0)


def _same(r, w, p):
    import numpy as np

    if p in ("float", "matrix"):
        return bool(np.allclose(np.asarray(r, dtype=float), np.asarray(w, dtype=float), rtol=1e-6))
    if p in ("list_int", "list_string", "double_matrix"):
        return [str(x).strip() for x in np.asarray(r).ravel()] == [str(x).strip() for x in np.asarray(w).ravel()]
    if p == "string":
        return str(r) == str(w).rstrip()
    return r == w


LAYOUTS = {
    # where the string field under test sits among fields of the other types (S = the string under test, s = a second,
    # plain ASCII string of the same width, i/d/f/q = int / double / float / long)
    "alone": "S", "first": "Sid", "between": "iSd", "last": "dfS", "two strings": "iSsq", "adjacent": "SS",
}


def _field(rec, kind, L, val):
    """read or write one field (val is ignored by a reader)"""
    if kind in "Ss":
        return rec.rwString(val, L)
    return {"i": rec.rwInt, "d": rec.rwDouble, "f": rec.rwFloat, "q": rec.rwLong}[kind](val)


def _values(layout, L, text):
    return [{"S": text, "s": "zy"[:L], "i": -7, "d": 1.25, "f": 0.5, "q": 2 ** 40 + 5}[kind] for kind in layout]


_WIDTH = {"i": 4, "d": 8, "f": 4, "q": 8}


@harness("C09", bounds="a complete binary record holding a string field of width L in 0..12 (symbolic) among int / "
                       "double / float / long / string neighbours (6 layouts, symbolic choice); the text is a symbolic "
                       "choice among representative classes: empty, ASCII shorter than / exactly as wide as the field, "
                       "leading, inner and trailing blanks, 2-, 3- and 4-byte UTF-8 characters filling the field, "
                       "over-long texts (framing obligations only)", stubs=STUBS, max_paths=2000)
def binary_string_field_is_framed_by_its_width_for_every_text(ctx):
    L = int(ctx.int("L", 0, 12))
    cls = ctx.choice("text", list(TEXTS))
    layout = ctx.choice("layout", list(LAYOUTS))
    text = TEXTS[cls](L)
    st = SymStream(True)
    written = _values(LAYOUTS[layout], L, text)
    with cccc.BinaryRecordWriter(st) as rec:
        for kind, v in zip(LAYOUTS[layout], written):
            _field(rec, kind, L, v)
    raw = st.buf
    # independent walk, as a FORTRAN sequential-access reader does it: [count][count bytes][count]
    (lead,) = struct.unpack("i", raw[:4])
    payload = len(raw) - 8
    expected = sum(L if kind in "Ss" else _WIDTH[kind] for kind in LAYOUTS[layout])
    if ctx.canary and cls.startswith("3-byte") and L == 7 and layout == "between":
        expected += 1
    ctx.check("leading count == number of bytes between the two counts", lead == payload)
    ctx.check("the trailing count sits where the leading count points to and equals it",
              0 <= lead <= len(raw) - 8 and struct.unpack("i", raw[4 + lead:8 + lead])[0] == lead)
    ctx.check("the payload is as long as the field widths say (a string field takes exactly its width)",
              payload == expected)
    if not fits(text, L):
        return                                  # over-long: what is read back is outside the contract
    rd = SymStream(True)
    rd.buf = raw
    ok, consumed, back = True, None, []
    try:
        with cccc.BinaryRecordReader(rd) as rec:
            for kind, w in zip(LAYOUTS[layout], written):
                back.append(_field(rec, kind, L, None))
                ok = ok and (back[-1] == w.rstrip() if kind in "Ss" else back[-1] == w)
            consumed, announced = rec.byteCount, rec.numBytes
    except (BufferError, UnicodeDecodeError):
        ok = False
    ctx.check("reader returns what was written (strings modulo the blank padding) and accepts the framing", ok)
    if ok:
        ctx.check("the reader has consumed exactly the announced number of bytes when it reaches the trailing count",
                  consumed == announced)
        ctx.check("reader consumed the whole record", rd.remaining() == 0)
        # writing what was read reproduces the record byte for byte (the padding is regenerated)
        st2 = SymStream(True)
        with cccc.BinaryRecordWriter(st2) as rec:
            for kind, v in zip(LAYOUTS[layout], back):
                _field(rec, kind, L, v)
        ctx.check("writing what was read reproduces the record byte for byte", st2.buf == raw)


# IORecord.rwBool keeps a value only if it is a Python bool (isinstance(val, bool)): numpy.bool_(True) -- what any
# comparison or reduction of numpy data yields, e.g. `heating.any()` for the PMATRX flags hasNeutronHeatingAndDamage /
# hasGammaHeating -- is written as 0 and reads back False.  Reproduction (plain Python) in the report.
KNOWN_DEFECT_rwBool_drops_numpy_bool = False  # repaired in /repo (fix: afedb36)

BOOLS = {"True": lambda: True, "False": lambda: False,
         "numpy.bool_(True)": lambda: __import__("numpy").bool_(True),
         "numpy.bool_(False)": lambda: __import__("numpy").bool_(False)}


@harness("C09", bounds="a record holding int, bool, int written and read back, binary and ASCII encodings; the "
                       "boolean is a symbolic choice among the boolean values Python and numpy have (True, False, "
                       "numpy.bool_(True), numpy.bool_(False)); the integers are concrete in the binary encoding "
                       "(struct.pack) and symbolic in the ASCII one", stubs=STUBS,
         instances={"quick": [dict(binary=True), dict(binary=False)]})
def bool_field_reads_back(ctx, binary):
    which = ctx.choice("value", list(BOOLS))
    a = ctx.int("a", -10 ** 6, 10 ** 6)
    val = BOOLS[which]()
    first = 41 if binary else a
    st = SymStream(binary)
    with (cccc.BinaryRecordWriter if binary else cccc.AsciiRecordWriter)(st) as w:
        w.rwInt(first)
        w.rwBool(val)
        w.rwInt(-3)
    rd = SymStream(binary)
    rd.buf = st.buf
    with (cccc.BinaryRecordReader if binary else cccc.AsciiRecordReader)(rd) as r:
        ga = r.rwInt(None)
        gb = r.rwBool(None)
        gc = r.rwInt(None)
    if ctx.canary:
        ga = ga + ITE(AND(a == 12345, which == "False"), 1, 0)
    ctx.check_eq("integer before the boolean", ga, first)
    ctx.check("integer after the boolean", gc == -3)
    ctx.check("a boolean is stored as one integer word", len(st.buf) == (20 if binary else 5 * cccc.IORecord._intLength + 1))
    if not (KNOWN_DEFECT_rwBool_drops_numpy_bool and which.startswith("numpy") and bool(val)):
        ctx.check("boolean reads back equal to what was written", isinstance(gb, bool) and gb == bool(val))
    ctx.check("reader consumed the whole record", rd.remaining() == 0)


@harness("C09", bounds="ASCII record holding one integer v, v symbolic over the full int32 range; widths read from "
                       "the record classes at run time", stubs=STUBS)
def ascii_integer_field_reads_back(ctx):
    v = ctx.int("v", -2 ** 31, 2 ** 31 - 1)
    st = SymStream(False)
    with cccc.AsciiRecordWriter(st) as w:
        w.rwInt(v)
    total = len(st.buf)
    ctx.check("an ASCII integer field occupies exactly _intLength characters",
              total == 3 * cccc.IORecord._intLength + 1)
    rd = SymStream(False)
    rd.buf = st.buf
    try:
        with cccc.AsciiRecordReader(rd) as r:
            got = r.rwInt(None)
        ok = True
    except (BufferError, ValueError):
        got, ok = None, False
    if ctx.canary and ok:
        got = got + ITE(v == 777, 1, 0)
    ctx.check("reader accepts the record the writer produced", ok)
    if ok:
        ctx.check_eq("integer reads back", got, v)
        ctx.check("reader consumed the whole record", rd.remaining() == 0)


@harness("C09", bounds="ASCII record holding an int, a string of symbolic length 0..12 (concrete text) and an int", stubs=STUBS)
def ascii_string_field_reads_back(ctx):
    L = int(ctx.int("L", 0, 12))
    a = ctx.int("a", -10 ** 6, 10 ** 6)
    b = ctx.int("b", -10 ** 6, 10 ** 6)
    text = "hello world!"[:max(0, L - 1)]
    st = SymStream(False)
    with cccc.AsciiRecordWriter(st) as w:
        w.rwInt(a)
        w.rwString(text, L)
        w.rwInt(b)
    rd = SymStream(False)
    rd.buf = st.buf
    with cccc.AsciiRecordReader(rd) as r:
        ga = r.rwInt(None)
        gs = r.rwString(None, L)
        gb = r.rwInt(None)
    if ctx.canary:
        gb = gb + ITE(AND(a == 5, b == -5), 1, 0)
    ctx.check_eq("first integer", ga, a)
    ctx.check("string reads back (trailing blanks stripped)", str(gs) == text.rstrip() if isinstance(gs, str) else gs == text.rstrip())
    ctx.check_eq("integer after the string", gb, b)
    ctx.check("reader consumed the whole record", rd.remaining() == 0)


@harness("C09", bounds="nintj >= 1 symbolic (unbounded), nblok in 1..8 (forked), cell index j symbolic", stubs=STUBS)
def block_bands_partition_the_columns(ctx):
    nintj = ctx.int("nintj", 1)
    nblok = int(ctx.int("nblok", 1, 8))
    j = ctx.int("j", 0)
    ctx.assume(j < nintj)
    inside = []
    prevHigh = None
    for m in range(1, nblok + 1):
        lo, hi = cccc.getBlockBandwidth(m, nintj, nblok)
        inside.append(ITE(AND(lo <= j, j <= hi), 1, 0))
        if m == 1:
            ctx.check("first band starts at column 0", lo == 0)
        else:
            ctx.check("band %d starts right after band %d (or both lie past the end)" % (m, m - 1),
                      OR(lo == prevHigh + 1, AND(lo > prevHigh, prevHigh == nintj - 1)))
        ctx.check("band %d stays inside the matrix" % m, hi <= nintj - 1)
        prevHigh = hi
    ctx.check("last band ends at the last column", prevHigh == nintj - 1)
    n = sum(inside)
    if ctx.canary:
        n = n + ITE(AND(nintj == 11, j == 10), 1, 0)
    ctx.check("every column lies in exactly one band", n == 1)


@harness("C09", bounds="binary record holding n integer fields with n around the writer's flush-chunk size "
                       "(io.DEFAULT_BUFFER_SIZE, read at run time): n in {B-1, B, B+1, 2B-1, 2B, 2B+1} chosen symbolically",
         stubs=STUBS, max_paths=50)
def binary_record_longer_than_the_flush_chunk(ctx):
    B = io.DEFAULT_BUFFER_SIZE
    n = ctx.choice("n", [B - 1, B, B + 1, 2 * B - 1, 2 * B, 2 * B + 1])
    st = SymStream(True)
    with cccc.BinaryRecordWriter(st) as rec:
        for k in range(n):
            rec.rwInt(k)
    raw = st.buf
    (lead,) = struct.unpack("i", raw[:4])
    (trail,) = struct.unpack("i", raw[-4:])
    payload = len(raw) - 8
    if ctx.canary and n == 2 * B:
        payload += 4
    ctx.check("leading count == payload length", lead == payload)
    ctx.check("payload holds every field", payload == 4 * n)
    ctx.check("trailing count == leading count", trail == lead)
    ctx.check("last field is the last value written", struct.unpack("i", raw[-8:-4])[0] == n - 1)
