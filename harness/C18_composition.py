"""C18 (composition clause): "components have the specified ... composition after the requested material modifications
and isotopic overrides - as computed independently from the input text".

The blueprint OBJECTS are built once from a small fixed YAML skeleton (structure only: one UZr fuel pin in a duct, two
blocks); the numbers the property quantifies over -- material-modification entries, class-1/class-2 blend fraction,
custom isotopic vectors -- are then put into those objects in Python as symbolic reals, and the REAL construction code
(AssemblyBlueprint._createBlock, BlockBlueprint.construct, ComponentBlueprint.construct, Material.applyInputParams,
CustomIsotopic.apply, densityTools.applyIsotopicsMix) runs on them.
"""
from symx.core import AND, OR, NOT, IMPLIES, ITE, is_sym
from symx.engine import harness
from symx import shims

import armi.materials.material as matmod
import armi.utils.densityTools as dtmod
import armi.utils.units as unitsmod
from armi import settings
from armi.materials import UZr, UO2
from armi.nucDirectory import nuclideBases
from armi.reactor import blueprints
from armi.reactor.blueprints.assemblyBlueprint import Modifications
from armi.reactor.blueprints.isotopicOptions import CustomIsotopic

shims.patch(matmod, float=shims.float_shim)
shims.patch(unitsmod, float=shims.float_shim)

STUBS = ["armi.materials.material.float -> identity on proxies (setMassFrac converts with float())",
         "armi.utils.units.float -> identity on proxies (getTc/getTk convert with float())"]

SKELETON = r"""
nuclide flags:
    U235: {burn: false, xs: true}
    U238: {burn: false, xs: true}
    PU239: {burn: false, xs: true}
    PU240: {burn: false, xs: true}
    ZR: {burn: false, xs: true}
custom isotopics:
    feedA:
        input format: mass fractions
        PU239: 1.0
    feedB:
        input format: mass fractions
        U238: 1.0
blocks:
    fuel: &block_fuel
        fuel:
            shape: Circle
            material: UZr
            Tinput: 25.0
            Thot: 25.0
            id: 0.0
            od: 1.0
            mult: 1
        duct:
            shape: Hexagon
            material: Void
            Tinput: 25.0
            Thot: 25.0
            ip: 2.0
            op: 2.1
            mult: 1
assemblies:
    fuel a:
        specifier: IC
        blocks: [*block_fuel, *block_fuel]
        height: [10.0, 10.0]
        axial mesh points: [1, 1]
        xs types: [A, A]
        material modifications:
            ZR_wt_frac: [0.1, 0.1]
"""

_DESIGN = None


def design():
    global _DESIGN
    if _DESIGN is None:
        d = blueprints.Blueprints.load(SKELETON)
        cs = settings.Settings()
        d._prepConstruction(cs)
        _DESIGN = (d, cs)
    return _DESIGN


def is_hm(name):
    return nuclideBases.byName[name].isHeavyMetal()


def configure(d, mods, byComponent=None, isotopics=None, feeds=None):
    """Put the numbers of one harness run into the (shared, concrete) blueprint objects.  Everything a run depends on
    is set here on every call."""
    aD = d.assemDesigns["fuel a"]
    for k in list(aD.materialModifications):
        del aD.materialModifications[k]
    for k, v in mods.items():
        aD.materialModifications[k] = list(v)
    for k in list(aD.materialModifications.byComponent):
        del aD.materialModifications.byComponent[k]
    for comp, cm in (byComponent or {}).items():
        m = Modifications()
        for k, v in cm.items():
            m[k] = list(v)
        aD.materialModifications.byComponent[comp] = m
    d.blockDesigns["fuel"]["fuel"].isotopics = isotopics
    for name, vec in (feeds or {"feedA": {"PU239": 1.0}, "feedB": {"U238": 1.0}}).items():
        # the real input object, built the way yamlize builds it (__init__ is not called by yamlize either)
        ci = CustomIsotopic(name, "mass fractions", None)
        for nuc, v in vec.items():
            ci[nuc] = v
        ci._initializeMassFracs()
        ci._expandElementMassFracs()
        if name in d.customIsotopics:
            del d.customIsotopics[name]
        d.customIsotopics[name] = ci
    return aD


def zr_of(mf):
    return sum(v for n, v in mf.items() if n.startswith("ZR"))


def narrow(x, lo, hi):
    """Canary helper: 0.01 on a narrow band of x, 0 elsewhere (added to an expected mass fraction)."""
    return ITE(AND(x > lo, x < hi), 0.01, 0.0)


# ---------------------------------------------------------------------------------------------------------
# Candidate genuine defect found on the unchanged tree (plain-Python reproduction in the report):
# FuelMaterial.applyInputParams tests `if class1_wt_frac:` -- a requested class-1 fraction of exactly 0.0 (fuel made
# of the class-2 feed only) is treated like "not given" and the blend is silently skipped; the component keeps the
# library isotopics.  (AssemblyBlueprint._shouldMaterialModiferBeApplied documents that 0 IS a value to apply.)
KNOWN_DEFECT_class1_wt_frac_zero_is_ignored = False  # repaired in /repo (fix: 55e0aae)


@harness("C18", bounds="two-block UZr assembly; per block the entries of `material modifications` ZR_wt_frac and "
                       "U235_wt_frac are symbolic reals in [0, 1] (zero included) or blank ('' / None, per instance); "
                       "given for the whole block or `by component`",
         stubs=STUBS, instances={"quick": [dict(blank=None, where="block"), dict(blank="", where="block"),
                                           dict(blank=None, where="component")],
                                 "thorough": [dict(blank=b, where=w) for b in (None, "", "None")
                                              for w in ("block", "component")]})
def every_numeric_material_modification_is_applied_to_its_block(ctx, blank, where):
    d, cs = design()
    z = [ctx.real("ZR_wt_frac_%d" % k, 0.0, 1.0) for k in range(2)]
    e = [ctx.real("U235_wt_frac_%d" % k, 0.0, 1.0) for k in range(2)]
    mods = {"ZR_wt_frac": list(z), "U235_wt_frac": list(e)}
    if blank is not None:
        mods["U235_wt_frac"][1] = None if blank == "None" else blank     # a blank entry: library default for block 1
    aD = configure(d, mods) if where == "block" else configure(d, {}, byComponent={"fuel": mods})
    a = aD.construct(cs, d)
    for k, b in enumerate(a):
        fuel = b.getComponentByName("fuel")
        mf = fuel.material.massFrac
        ek = e[k] if (blank is None or k == 0) else 0.1
        wantU5 = ek * (1 - z[k])
        if ctx.canary and k == 1:
            wantU5 = wantU5 + narrow(z[1], 0.5, 0.51)
        ctx.check_close("block %d: zirconium mass fraction is the requested one" % k, zr_of(mf), z[k], scale=1.0)
        ctx.check_close("block %d: U235 mass fraction is enrichment x uranium fraction" % k, mf["U235"], wantU5,
                        scale=1.0)
        ctx.check_close("block %d: U238 takes the rest of the uranium" % k, mf["U238"], (1 - ek) * (1 - z[k]), scale=1.0)
        nd = fuel.getNumberDensities()
        a5, a8 = nuclideBases.byName["U235"].weight, nuclideBases.byName["U238"].weight
        ctx.check_close("block %d: number densities are in the ratio of mass fraction / atomic weight" % k,
                        nd["U235"] * a5 * mf["U238"], nd["U238"] * a8 * mf["U235"], scale=1.0)


FEEDS = {
    # class-1 nuclides, class-2 nuclides (the last one of each takes the remainder so that each vector sums to one)
    "Pu+U238": (("PU239", "PU240"), ("U238",)),             # the material's own U235 is named by neither feed
    "LEU+DU": (("U235", "U238"), ("U235", "U238")),
    "PuU+DU": (("PU239", "U238"), ("U235", "U238")),
    "Pu+Pu": (("PU239", "PU240"), ("PU240", "PU239")),       # no uranium in either feed
}


def feed_vectors(ctx, key):
    out = {}
    for name, nucs in zip(("feedA", "feedB"), FEEDS[key]):
        if len(nucs) == 1:
            out[name] = {nucs[0]: 1.0}
        else:
            f = ctx.real(name + "_" + nucs[0], 0.0, 1.0)
            out[name] = {nucs[0]: f, nucs[1]: 1.0 - f}
    return out


@harness("C18", bounds="UZr fuel; block 1 symbolic: ZR_wt_frac, U235_wt_frac, class1_wt_frac in [0, 1] and the two "
                       "custom isotopic feed vectors (mass fractions in [0,1] summing to one; which nuclides each "
                       "feed names is the instance, including feeds that leave out a heavy-metal nuclide of the "
                       "library material)", stubs=STUBS,
         instances={"quick": [dict(feeds="Pu+U238"), dict(feeds="PuU+DU")],
                    "thorough": [dict(feeds=k) for k in FEEDS]}, qtimeout_ms=20000)
def class1_class2_blend_replaces_the_heavy_metal_of_the_material(ctx, feeds):
    d, cs = design()
    z = ctx.real("ZR_wt_frac", 0.0, 1.0)
    e = ctx.real("U235_wt_frac", 0.0, 1.0)
    w = ctx.real("class1_wt_frac", 0.0, 1.0)
    vec = feed_vectors(ctx, feeds)
    if KNOWN_DEFECT_class1_wt_frac_zero_is_ignored:
        ctx.note("KNOWN_DEFECT_class1_wt_frac_zero_is_ignored: class1_wt_frac > 0 assumed")
        ctx.assume(w > 0)
    mods = {"ZR_wt_frac": [0.1, z], "U235_wt_frac": [0.2, e], "class1_wt_frac": ["", w],
            "class1_custom_isotopics": ["", "feedA"], "class2_custom_isotopics": ["", "feedB"]}
    aD = configure(d, mods, feeds=vec)
    a = aD.construct(cs, d)
    mf0 = a[0].getComponentByName("fuel").material.massFrac
    ctx.check_close("block 0 (no blend requested) keeps its own enrichment", mf0["U235"], 0.2 * 0.9, scale=1.0)
    mf = a[1].getComponentByName("fuel").material.massFrac
    ctx.check_close("the non-heavy-metal part keeps its mass fraction", zr_of(mf), z, scale=1.0)
    names = sorted(n for n in set(mf) | set(vec["feedA"]) | set(vec["feedB"]) if is_hm(n))
    total = 0
    for n in names:
        want = (1 - z) * (w * vec["feedA"].get(n, 0.0) + (1 - w) * vec["feedB"].get(n, 0.0))
        if ctx.canary and n == "U238":
            want = want + narrow(w, 0.30, 0.31)
        got = mf.get(n, 0.0)
        total = total + got
        ctx.check_close("heavy-metal nuclide %s is w * class1 + (1 - w) * class2 of the heavy metal" % n, got, want,
                        scale=1.0)
    ctx.check_close("the heavy metal still makes up 1 - ZR_wt_frac of the material", total, 1 - z, scale=1.0)


@harness("C18", bounds="UZr fuel component with `isotopics: <custom vector>` and no material modifications; the custom "
                       "vector (mass fractions in [0,1] summing to one) is symbolic; which nuclides it names is the "
                       "instance (vectors that leave out nuclides of the library material included)", stubs=STUBS,
         instances={"quick": [dict(nucs=["U235", "U238"]), dict(nucs=["PU239", "U238", "ZR"])],
                    "thorough": [dict(nucs=["U235", "U238"]), dict(nucs=["PU239", "U238", "ZR"]),
                                 dict(nucs=["PU239", "PU240"]), dict(nucs=["U235", "ZR"])]})
def custom_isotopics_replace_the_library_composition(ctx, nucs):
    d, cs = design()
    fr = [ctx.real("massFrac_" + n, 0.0, 1.0) for n in nucs[:-1]]
    last = 1.0 - sum(fr)
    ctx.assume(last >= 0)
    vec = dict(zip(nucs, fr + [last]))
    aD = configure(d, {}, isotopics="feedA", feeds={"feedA": vec, "feedB": {"U238": 1.0}})
    a = aD.construct(cs, d)
    mf = a[1].getComponentByName("fuel").material.massFrac
    for n in sorted((set(mf) | set(vec)) - {"ZR"}):
        if n.startswith("ZR"):
            continue
        want = vec.get(n, 0.0)
        if ctx.canary and n == nucs[0]:
            want = want + narrow(fr[0], 0.30, 0.31)
        ctx.check_close("mass fraction of %s is the one of the custom vector (0 when it is not named)" % n,
                        mf.get(n, 0.0), want, scale=1.0)
    ctx.check_close("zirconium (expanded to its isotopes) is the one of the custom vector", zr_of(mf),
                    vec.get("ZR", 0.0), scale=1.0)
    ctx.check_close("the composition sums to one", sum(mf.values()), 1.0, scale=1.0)


# =========================================================================================================
# Second skeleton: a block with TWO components of a library fuel material (so that "for the whole block" and "by
# component" can be told apart).

SKELETON2 = r"""
nuclide flags:
    U235: {burn: false, xs: true}
    U238: {burn: false, xs: true}
    PU239: {burn: false, xs: true}
    PU240: {burn: false, xs: true}
    ZR: {burn: false, xs: true}
custom isotopics:
    feedA:
        input format: mass fractions
        PU239: 1.0
    feedB:
        input format: mass fractions
        U238: 1.0
blocks:
    fuel: &block_fuel
        fuel:
            shape: Circle
            material: UZr
            Tinput: 25.0
            Thot: 25.0
            id: 0.0
            od: 1.0
            mult: 1
        fuel2:
            shape: Circle
            material: UZr
            Tinput: 25.0
            Thot: 25.0
            id: 1.0
            od: 1.5
            mult: 1
        duct:
            shape: Hexagon
            material: Void
            Tinput: 25.0
            Thot: 25.0
            ip: 2.0
            op: 2.1
            mult: 1
assemblies:
    fuel a:
        specifier: IC
        blocks: [*block_fuel, *block_fuel]
        height: [10.0, 10.0]
        axial mesh points: [1, 1]
        xs types: [A, A]
        material modifications:
            ZR_wt_frac: [0.1, 0.1]
"""

# Third skeleton: one block with a solid (UZr) and a fluid (Sodium) component that both name custom isotopics carrying
# a density.
SKELETON3 = r"""
nuclide flags:
    U235: {burn: false, xs: true}
    U238: {burn: false, xs: true}
    ZR: {burn: false, xs: true}
    NA: {burn: false, xs: true}
custom isotopics:
    heavy:
        input format: mass fractions
        density: 17.0
        U235: 0.3
        U238: 0.6
        ZR: 0.1
    sodium:
        input format: mass fractions
        density: 0.8
        NA: 1.0
blocks:
    pin: &block_pin
        slug:
            shape: Circle
            material: UZr
            isotopics: heavy
            Tinput: 25.0
            Thot: 600.0
            id: 0.0
            od: 0.7
            mult: 7
        coolant:
            shape: Circle
            material: Sodium
            isotopics: sodium
            Tinput: 150.0
            Thot: 520.0
            id: 2.4
            od: 3.0
            mult: 1
        duct:
            shape: Hexagon
            material: Void
            Tinput: 25.0
            Thot: 25.0
            ip: 4.0
            op: 4.1
            mult: 1
assemblies:
    pin a:
        specifier: PA
        blocks: [*block_pin]
        height: [10.0]
        axial mesh points: [1]
        xs types: [A]
"""

_DESIGN2 = None
_DESIGN3 = None


def design2():
    global _DESIGN2
    if _DESIGN2 is None:
        d = blueprints.Blueprints.load(SKELETON2)
        cs = settings.Settings()
        d._prepConstruction(cs)
        _DESIGN2 = (d, cs)
    return _DESIGN2


def design3():
    global _DESIGN3
    if _DESIGN3 is None:
        d = blueprints.Blueprints.load(SKELETON3)
        cs = settings.Settings()
        d._prepConstruction(cs)
        _DESIGN3 = (d, cs)
    return _DESIGN3


UZR_LIBRARY_ENRICHMENT = 0.1     # U235 / U of armi.materials.UZr when no modification applies (read off the class)
UZR_LIBRARY_ZR = 0.1


def _is_blank(v):
    return v is None or (isinstance(v, str) and v == "")


def effective(*levels):
    """The value of a modification for one component of one block: the most specific non-blank entry (levels are
    given most specific first); None = nothing applies, the library composition stays."""
    for v in levels:
        if not _is_blank(v):
            return v
    return None


BLANKS = {
    # which entries are left blank ('' = "no modification for this block"): (list, axial index)
    "none": (),
    "component entry of block 1": (("C", 1),),
    "block entry of block 1": (("B", 1),),
    "component entry of block 0, block entry of block 1": (("C", 0), ("B", 1)),
    "both entries of block 1": (("C", 1), ("B", 1)),
}


@harness("C18", bounds="two-block assembly whose blocks hold two UZr components (fuel, fuel2); U235_wt_frac is given "
                       "BOTH for the whole block and under `by component` for fuel, ZR_wt_frac both for the whole "
                       "block and `by component` for fuel2: the four entries of block 1 are symbolic reals in "
                       "[0, 1], those of block 0 four different numbers; which entries are blank is the instance",
         stubs=STUBS, instances={"quick": [dict(blank="none"), dict(blank="component entry of block 0, block entry of block 1")],
                                 "thorough": [dict(blank=k) for k in BLANKS]}, qtimeout_ms=20000)
def modification_given_for_the_block_and_for_a_component_the_component_entry_wins(ctx, blank):
    d, cs = design2()
    # block 0 carries fixed numbers (all four different), block 1 the symbolic ones
    eB = [0.30, ctx.real("U235_wt_frac_block_1", 0.0, 1.0)]
    eC = [0.20, ctx.real("U235_wt_frac_fuel_1", 0.0, 1.0)]
    zB = [0.12, ctx.real("ZR_wt_frac_block_1", 0.0, 1.0)]
    zC = [0.06, ctx.real("ZR_wt_frac_fuel2_1", 0.0, 1.0)]
    eBt, eCt = list(eB), list(eC)
    for which, k in BLANKS[blank]:
        (eBt if which == "B" else eCt)[k] = ""
    aD = configure(d, {"U235_wt_frac": eBt, "ZR_wt_frac": list(zB)},
                   byComponent={"fuel": {"U235_wt_frac": eCt}, "fuel2": {"ZR_wt_frac": list(zC)}})
    a = aD.construct(cs, d)
    for k, b in enumerate(a):
        # read off the input: the entry under the component's own name, else the entry for the whole block, else
        # the library value
        want = {"fuel": (effective(eCt[k], eBt[k]), zB[k]), "fuel2": (effective(eBt[k]), zC[k])}
        for name, (e, z) in want.items():
            e = UZR_LIBRARY_ENRICHMENT if e is None else e
            mf = b.getComponentByName(name).material.massFrac
            wantU5 = e * (1 - z)
            if ctx.canary and k == 1 and name == "fuel2":
                wantU5 = wantU5 + narrow(zC[1], 0.5, 0.51)
            ctx.check_close("block %d, %s: zirconium mass fraction is the most specific entry given" % (k, name),
                            zr_of(mf), z, scale=1.0)
            ctx.check_close("block %d, %s: U235 mass fraction is (most specific enrichment entry) x uranium fraction"
                            % (k, name), mf["U235"], wantU5, scale=1.0)
            ctx.check_close("block %d, %s: U238 takes the rest of the uranium" % (k, name), mf["U238"],
                            (1 - e) * (1 - z), scale=1.0)


# =========================================================================================================
# "blueprints that are inconsistent (... lists of unequal length) are refused with an error": the per-block lists of an
# assembly.  Here the blueprint is TEXT, generated per path; the numbers in it are fixed, the lengths of the lists are
# what the solver chooses.

TEMPLATE_LISTS = r"""
nuclide flags:
    U235: {{burn: false, xs: true}}
    U238: {{burn: false, xs: true}}
    ZR: {{burn: false, xs: true}}
blocks:
    fuel: &block_fuel
        fuel:
            shape: Circle
            material: UZr
            Tinput: 25.0
            Thot: 25.0
            id: 0.0
            od: 1.0
            mult: 1
        fuel2:
            shape: Circle
            material: UZr
            Tinput: 25.0
            Thot: 25.0
            id: 1.0
            od: 1.5
            mult: 1
        duct:
            shape: Hexagon
            material: Void
            Tinput: 25.0
            Thot: 25.0
            ip: 2.0
            op: 2.1
            mult: 1
assemblies:
    fuel a:
        specifier: IC
        blocks: {blocks}
        height: {height}
        axial mesh points: {mesh}
        xs types: {xs}
        material modifications:
            ZR_wt_frac: {zr}
            by component:
                fuel:
                    U235_wt_frac: {e1}
                fuel2:
                    U235_wt_frac: {e2}
"""
# the per-block lists of the assembly, in the order of the symbolic selector `deviatingList`
LISTS = ("height", "mesh", "xs", "zr", "e1", "e2")
LIST_NAMES = {"height": "height", "mesh": "axial mesh points", "xs": "xs types",
              "zr": "material modification ZR_wt_frac (whole block)",
              "e1": "material modification U235_wt_frac by component fuel",
              "e2": "material modification U235_wt_frac by component fuel2"}
# entries to draw from (more than any list will need); all different so that an entry used for the wrong block shows
POOL = {"height": [10.0, 20.0, 15.0, 12.0, 18.0, 11.0, 13.0], "mesh": [1, 2, 3, 4, 5, 6, 7],
        "xs": ["A", "B", "C", "D", "E", "F", "G"], "zr": [0.10, 0.12, 0.14, 0.16, 0.18, 0.11, 0.13],
        "e1": [0.20, 0.22, 0.24, 0.26, 0.28, 0.21, 0.23], "e2": [0.30, 0.32, 0.34, 0.36, 0.38, 0.31, 0.33]}

# Candidate genuine defect on the unchanged tree (reported by an independent engineer; reproduction: the text that
# lists_text(2, dict(LENGTHS, e1=4)) produces -- fuel: U235_wt_frac with 4 entries, fuel2: U235_wt_frac with 2 entries,
# 2 blocks -- is accepted by Blueprints.load(...)._prepConstruction(Settings()); with 1 entry for fuel it ends in an
# IndexError instead of the ValueError of the length check):
# AssemblyBlueprint._checkParamConsistency collects the by-component lists in a dict keyed by the MODIFIER NAME only
# ("material modifications for U235_wt_frac"), so of several components that give the same modifier only the LAST
# one's list is compared with the number of blocks.  With the flag set, a wrong length of a by-component list that
# is hidden this way (a later component gives the same modifier with the right length) is noted, not required to be
# refused; every other wrong length is.
KNOWN_DEFECT_by_component_list_lengths_are_checked_per_modifier_name = False  # repaired in /repo (fix: 1c87942)


def lists_text(nBlocks, lengths):
    def seq(key):
        return "[" + ", ".join(str(v) for v in POOL[key][:lengths[key]]) + "]"

    return TEMPLATE_LISTS.format(blocks="[" + ", ".join(["*block_fuel"] * nBlocks) + "]",
                                 **{k: seq(k) for k in LISTS})


@harness("C18", bounds="assembly of nBlocks blocks (instance: 1..3) given as blueprint TEXT; symbolic: which one (or "
                       "which two, thorough) of its six per-block lists -- height, axial mesh points, xs types, a "
                       "whole-block material modification, the same by-component modification for two components "
                       "-- has a length different from nBlocks, and by how much (-2..+3, not below 0); the entries "
                       "are fixed, all different",
         stubs=["none: Blueprints.load + _prepConstruction on generated text"],
         instances={"quick": [dict(nBlocks=2, pairs=False), dict(nBlocks=3, pairs=False)],
                    "thorough": [dict(nBlocks=n, pairs=p) for n in (1, 2, 3) for p in (False, True)]},
         max_paths=5000)
def assembly_with_a_per_block_list_of_another_length_than_its_blocks_is_refused(ctx, nBlocks, pairs):
    which1 = ctx.int("deviatingList", -1, len(LISTS) - 1)            # -1: none
    diff1 = ctx.int("lengthDifference", -2, 3)
    which2 = ctx.int("deviatingList2", -1, len(LISTS) - 1 if pairs else -1)
    diff2 = ctx.int("lengthDifference2", -2, 3)
    ctx.assume(AND(diff1 != 0, diff2 != 0, nBlocks + diff1 >= 0, nBlocks + diff2 >= 0))
    ctx.assume(OR(which2 == -1, which1 < which2))
    ctx.assume(IMPLIES(which1 == -1, diff1 == 1))                    # unused numbers pinned
    ctx.assume(IMPLIES(which2 == -1, diff2 == 1))
    which1, diff1, which2, diff2 = int(which1), int(diff1), int(which2), int(diff2)
    lengths = {k: nBlocks for k in LISTS}
    for w, dl in ((which1, diff1), (which2, diff2)):
        if w >= 0:
            lengths[LISTS[w]] = nBlocks + dl
    text = lists_text(nBlocks, lengths)
    consistent = all(n == nBlocks for n in lengths.values())
    wrong = [LIST_NAMES[k] + ": %d entries" % n for k, n in lengths.items() if n != nBlocks]
    hidden = (lengths["e1"] != nBlocks and lengths["e2"] == nBlocks
              and all(n == nBlocks for k, n in lengths.items() if k != "e1"))
    mustRefuse = not consistent
    if ctx.canary and lengths["xs"] == nBlocks + 1 and len(wrong) == 1:
        mustRefuse = False                                # one input of the family: xs types one entry too long
    refused, a = None, None
    try:
        design = blueprints.Blueprints.load(text)
        design._prepConstruction(settings.Settings())
        a = design.assemblies["fuel a"]
    except ValueError as e:
        refused = "ValueError: " + str(e).splitlines()[0][:100] if str(e) else "ValueError"
    except IndexError:
        if not (KNOWN_DEFECT_by_component_list_lengths_are_checked_per_modifier_name and hidden):
            raise
        refused = "IndexError"
    if hidden and KNOWN_DEFECT_by_component_list_lengths_are_checked_per_modifier_name:
        ctx.note("KNOWN_DEFECT_by_component_list_lengths_are_checked_per_modifier_name: fuel gives U235_wt_frac with "
                 "%d entries for %d blocks, hidden by fuel2's list of the right length: %s"
                 % (lengths["e1"], nBlocks, refused or "accepted"))
        return
    ctx.check("an assembly whose per-block lists do not all have one entry per block is refused with an error"
              + ("" if refused or not mustRefuse else ": %d blocks, %s was built" % (nBlocks, "; ".join(wrong))),
              (refused is not None) == mustRefuse)
    if a is None:
        return
    ctx.check("the consistent assembly has one block per entry of `blocks`", len(a) == nBlocks)
    for k, b in enumerate(a):
        ctx.check("block %d has the height of its entry" % k, b.getHeight() == POOL["height"][k])
        ctx.check("block %d has the cross-section type of its entry" % k, b.p.xsType == POOL["xs"][k])
        ctx.check("block %d has the axial mesh points of its entry" % k, b.p.axMesh == POOL["mesh"][k])
        for name, key in (("fuel", "e1"), ("fuel2", "e2")):
            mf = b.getComponentByName(name).material.massFrac
            e, z = POOL[key][k], POOL["zr"][k]
            ctx.check("block %d, %s: zirconium and U235 mass fractions are those of its own entries" % (k, name),
                      abs(zr_of(mf) - z) <= 1e-12 and abs(mf["U235"] - e * (1 - z)) <= 1e-12)
    ctx.check("the blocks are stacked in the order given: each starts where the one below ends",
              all(abs(b.p.zbottom - sum(POOL["height"][:k])) <= 1e-9 for k, b in enumerate(a)))


# =========================================================================================================
# "composition after the requested ... isotopic overrides": a custom isotopic vector that carries a DENSITY, named by
# a component of a LIBRARY material.  The manual (doc/user/inputs.rst, custom isotopics): the density is "specified at
# the input temperature for the component", and "all other properties of that material (e.g. expansion coefficients)
# will continue to be used as if the component consisted of the library material".

CUSTOM_DENSITY_CASES = {
    # component of SKELETON3, custom vector it names, its material class, the vector (mass fractions), cold id/od/mult
    "coolant": ("sodium", "Sodium", {"NA": 1.0}, (2.4, 3.0, 1)),
    "slug": ("heavy", "UZr", {"U235": 0.3, "U238": 0.6, "ZR": 0.1}, (0.0, 0.7, 7)),
}


def _custom_vector(name, vec, density, fmt="mass fractions"):
    ci = CustomIsotopic(name, fmt, None)
    # the density goes into the slot yamlize keeps it in (the yamlize descriptor would coerce a proxy with float())
    setattr(ci, CustomIsotopic._density.storage_name, density)
    for nuc, v in vec.items():
        ci[nuc] = v
    ci._initializeMassFracs()
    ci._expandElementMassFracs()
    return ci


@harness("C18", bounds="one block with a UZr slug and a Sodium annulus (fixed cold dimensions), each naming a custom "
                       "isotopic vector with a density; symbolic: that density in [0.05, 30] g/cc (the vector is "
                       "fixed); instances: which component is examined and its (Tinput, Thot), equal and unequal, "
                       "heating and cooling (thorough: also both symbolic in [100, 800] C for the fluid)",
         stubs=STUBS + ["the symbolic density is stored in CustomIsotopic past yamlize's float coercion"],
         instances={"quick": [dict(comp="coolant", Tin=150.0, Thot=520.0), dict(comp="slug", Tin=25.0, Thot=600.0),
                              dict(comp="coolant", Tin=450.0, Thot=450.0)],
                    "thorough": [dict(comp=c, Tin=ti, Thot=th) for c in ("coolant", "slug")
                                 for ti, th in ((150.0, 520.0), (520.0, 150.0), (450.0, 450.0), (25.0, 600.0))]
                                + [dict(comp="coolant", Tin=None, Thot=None)]})    # both symbolic in [100, 800] C
def density_given_with_custom_isotopics_is_the_density_at_the_input_temperature(ctx, comp, Tin, Thot):
    import math

    from armi import materials

    d, cs = design3()
    rho = ctx.real("customDensity", 0.05, 30.0)
    if Tin is None:
        Tin, Thot = ctx.real("Tinput", 100.0, 800.0), ctx.real("Thot", 100.0, 800.0)
    vecName, matName, vec, (cid, cod, mult) = CUSTOM_DENSITY_CASES[comp]
    for name, (vn, _m, v, _dims) in CUSTOM_DENSITY_CASES.items():
        cD = d.blockDesigns["pin"][name]
        # everything a run depends on is set on every call: the examined component gets the instance's temperatures
        # and the symbolic density, the other one fixed numbers
        for attr, temp in zip(("Tinput", "Thot"), (Tin, Thot) if name == comp else (300.0, 300.0)):
            setattr(cD, getattr(type(cD), attr).storage_name, temp)       # past yamlize's float coercion
        if vn in d.customIsotopics:
            del d.customIsotopics[vn]
        d.customIsotopics[vn] = _custom_vector(vn, v, rho if name == comp else 5.0)
    a = d.assemDesigns["pin a"].construct(cs, d)
    c = a[0].getComponentByName(comp)
    got = c.density()
    lib = getattr(materials, matName)()           # the library material, asked on plain numbers
    areaCold = mult * math.pi / 4.0 * (cod ** 2 - cid ** 2)       # from the input text
    if isinstance(lib, materials.Fluid):
        # a fluid fills what it is given: between Tinput and Thot its density changes as the library law says
        want = rho * lib.density(Tc=Thot) / lib.density(Tc=Tin)
    else:
        # a solid keeps its mass per unit length while its cross-section expands (the block height is the hot height)
        want = rho * areaCold / c.getArea()
    if ctx.canary:
        want = want * (1 + narrow(rho, 3.0, 3.1))
    ctx.check("the component was built at the temperatures of the input",
              AND(c.inputTemperatureInC == Tin, c.temperatureInC == Thot))
    ctx.check_close("hot density = custom density at Tinput, carried to Thot by the library material's own law",
                    got, want, scale=rho)
    if Tin == Thot:
        ctx.check_close("with Thot = Tinput the component has exactly the custom density", got, rho, scale=rho)
    ctx.check_close("mass per unit length = density x hot cross-section", c.getMass() / a[0].getHeight(),
                    want * c.getArea(), scale=rho * areaCold)
    nd = c.getNumberDensities()
    names = sorted(n for n in vec if n in nd)          # elements of the vector are expanded to their isotopes
    ref = names[0] if names else None
    for n in names[1:]:
        ctx.check_close("nuclides %s and %s are in the ratio of the custom mass fractions / atomic weights" % (n, ref),
                        nd[n] * nuclideBases.byName[n].weight * vec[ref],
                        nd[ref] * nuclideBases.byName[ref].weight * vec[n], scale=rho)
    other = [k for k in CUSTOM_DENSITY_CASES if k != comp][0]
    ctx.check_close("the other component keeps the density of its own custom vector (Thot = Tinput there)",
                    a[0].getComponentByName(other).density(), 5.0, scale=5.0)
