"""C18 (composition clause): "components have the specified ... composition after the requested material modifications
and isotopic overrides - as computed independently from the input text".

The blueprint OBJECTS are built once from a small fixed YAML skeleton (structure only: one UZr fuel pin in a duct, two
blocks); the numbers the property quantifies over -- material-modification entries, class-1/class-2 blend fraction,
custom isotopic vectors -- are then put into those objects in Python as symbolic reals, and the REAL construction code
(AssemblyBlueprint._createBlock, BlockBlueprint.construct, ComponentBlueprint.construct, Material.applyInputParams,
CustomIsotopic.apply, densityTools.applyIsotopicsMix) runs on them.
"""
from symx.core import AND, OR, NOT, IMPLIES, IFF, ITE, is_sym
from symx.engine import harness
from symx import shims

import armi.materials.material as matmod
import armi.utils.densityTools as dtmod
import armi.utils.units as unitsmod
from armi import settings
from armi.materials import UZr, UO2
from armi.nucDirectory import nuclideBases
from armi.reactor import blueprints
from armi.reactor.blueprints.assemblyBlueprint import Modifications
from armi.reactor.blueprints.isotopicOptions import CustomIsotopic

shims.patch(matmod, float=shims.float_shim)
shims.patch(unitsmod, float=shims.float_shim)

STUBS = ["armi.materials.material.float -> identity on proxies (setMassFrac converts with float())",
         "armi.utils.units.float -> identity on proxies (getTc/getTk convert with float())"]

SKELETON = r"""
nuclide flags:
    U235: {burn: false, xs: true}
    U238: {burn: false, xs: true}
    PU239: {burn: false, xs: true}
    PU240: {burn: false, xs: true}
    ZR: {burn: false, xs: true}
custom isotopics:
    feedA:
        input format: mass fractions
        PU239: 1.0
    feedB:
        input format: mass fractions
        U238: 1.0
blocks:
    fuel: &block_fuel
        fuel:
            shape: Circle
            material: UZr
            Tinput: 25.0
            Thot: 25.0
            id: 0.0
            od: 1.0
            mult: 1
        duct:
            shape: Hexagon
            material: Void
            Tinput: 25.0
            Thot: 25.0
            ip: 2.0
            op: 2.1
            mult: 1
assemblies:
    fuel a:
        specifier: IC
        blocks: [*block_fuel, *block_fuel]
        height: [10.0, 10.0]
        axial mesh points: [1, 1]
        xs types: [A, A]
        material modifications:
            ZR_wt_frac: [0.1, 0.1]
"""

_DESIGN = None


def design():
    global _DESIGN
    if _DESIGN is None:
        d = blueprints.Blueprints.load(SKELETON)
        cs = settings.Settings()
        d._prepConstruction(cs)
        _DESIGN = (d, cs)
    return _DESIGN


def is_hm(name):
    return nuclideBases.byName[name].isHeavyMetal()


NUMBER_DENSITY_FEED_DENSITY = 7.3      # g/cc of a feed written as number densities (any positive number)


def in_format(vec, fmt):
    """The entries a user writes for the composition `vec` (mass fractions summing to one) in the input format `fmt`:
    number fractions are proportional to mass fraction / atomic weight and sum to one; number densities (atoms per
    barn-cm) are those of the composition at some density."""
    if fmt == "mass fractions":
        return dict(vec)
    moles = {n: v / nuclideBases.byName[n].weight for n, v in vec.items()}
    if fmt == "number fractions":
        tot = sum(moles.values())
        return {n: v / tot for n, v in moles.items()}
    assert fmt == "number densities"
    return {n: v * NUMBER_DENSITY_FEED_DENSITY * unitsmod.MOLES_PER_CC_TO_ATOMS_PER_BARN_CM for n, v in moles.items()}


def configure(d, mods, byComponent=None, isotopics=None, feeds=None, formats=None):
    """Put the numbers of one harness run into the (shared, concrete) blueprint objects.  Everything a run depends on
    is set here on every call.  feeds: custom isotopic vectors as mass fractions; formats: the `input format` in which
    each one is written (default: mass fractions)."""
    aD = d.assemDesigns["fuel a"]
    for k in list(aD.materialModifications):
        del aD.materialModifications[k]
    for k, v in mods.items():
        aD.materialModifications[k] = list(v)
    for k in list(aD.materialModifications.byComponent):
        del aD.materialModifications.byComponent[k]
    for comp, cm in (byComponent or {}).items():
        m = Modifications()
        for k, v in cm.items():
            m[k] = list(v)
        aD.materialModifications.byComponent[comp] = m
    d.blockDesigns["fuel"]["fuel"].isotopics = isotopics
    for name, vec in (feeds or {"feedA": {"PU239": 1.0}, "feedB": {"U238": 1.0}}).items():
        # the real input object, built the way yamlize builds it (__init__ is not called by yamlize either)
        fmt = (formats or {}).get(name, "mass fractions")
        ci = CustomIsotopic(name, fmt, None)
        for nuc, v in in_format(vec, fmt).items():
            ci[nuc] = v
        ci._initializeMassFracs()
        ci._expandElementMassFracs()
        if name in d.customIsotopics:
            del d.customIsotopics[name]
        d.customIsotopics[name] = ci
    return aD


def zr_of(mf):
    return sum(v for n, v in mf.items() if n.startswith("ZR"))


def narrow(x, lo, hi):
    """Canary helper: 0.01 on a narrow band of x, 0 elsewhere (added to an expected mass fraction)."""
    return ITE(AND(x > lo, x < hi), 0.01, 0.0)


# ---------------------------------------------------------------------------------------------------------
# Candidate genuine defect found on the unchanged tree (plain-Python reproduction in the report):
# FuelMaterial.applyInputParams tests `if class1_wt_frac:` -- a requested class-1 fraction of exactly 0.0 (fuel made
# of the class-2 feed only) is treated like "not given" and the blend is silently skipped; the component keeps the
# library isotopics.  (AssemblyBlueprint._shouldMaterialModiferBeApplied documents that 0 IS a value to apply.)
KNOWN_DEFECT_class1_wt_frac_zero_is_ignored = False  # repaired in /repo (fix: 55e0aae)


@harness("C18", bounds="two-block UZr assembly; per block the entries of `material modifications` ZR_wt_frac and "
                       "U235_wt_frac are symbolic reals in [0, 1] (zero included) or blank ('' / None, per instance); "
                       "given for the whole block or `by component`",
         stubs=STUBS, instances={"quick": [dict(blank=None, where="block"), dict(blank="", where="block"),
                                           dict(blank=None, where="component")],
                                 "thorough": [dict(blank=b, where=w) for b in (None, "", "None")
                                              for w in ("block", "component")]})
def every_numeric_material_modification_is_applied_to_its_block(ctx, blank, where):
    d, cs = design()
    z = [ctx.real("ZR_wt_frac_%d" % k, 0.0, 1.0) for k in range(2)]
    e = [ctx.real("U235_wt_frac_%d" % k, 0.0, 1.0) for k in range(2)]
    mods = {"ZR_wt_frac": list(z), "U235_wt_frac": list(e)}
    if blank is not None:
        mods["U235_wt_frac"][1] = None if blank == "None" else blank     # a blank entry: library default for block 1
    aD = configure(d, mods) if where == "block" else configure(d, {}, byComponent={"fuel": mods})
    a = aD.construct(cs, d)
    for k, b in enumerate(a):
        fuel = b.getComponentByName("fuel")
        mf = fuel.material.massFrac
        ek = e[k] if (blank is None or k == 0) else 0.1
        wantU5 = ek * (1 - z[k])
        if ctx.canary and k == 1:
            wantU5 = wantU5 + narrow(z[1], 0.5, 0.51)
        ctx.check_close("block %d: zirconium mass fraction is the requested one" % k, zr_of(mf), z[k], scale=1.0)
        ctx.check_close("block %d: U235 mass fraction is enrichment x uranium fraction" % k, mf["U235"], wantU5,
                        scale=1.0)
        ctx.check_close("block %d: U238 takes the rest of the uranium" % k, mf["U238"], (1 - ek) * (1 - z[k]), scale=1.0)
        nd = fuel.getNumberDensities()
        a5, a8 = nuclideBases.byName["U235"].weight, nuclideBases.byName["U238"].weight
        ctx.check_close("block %d: number densities are in the ratio of mass fraction / atomic weight" % k,
                        nd["U235"] * a5 * mf["U238"], nd["U238"] * a8 * mf["U235"], scale=1.0)


FEEDS = {
    # class-1 nuclides, class-2 nuclides (the last one of each takes the remainder so that each vector sums to one)
    "Pu+U238": (("PU239", "PU240"), ("U238",)),             # the material's own U235 is named by neither feed
    "LEU+DU": (("U235", "U238"), ("U235", "U238")),
    "PuU+DU": (("PU239", "U238"), ("U235", "U238")),
    "Pu+Pu": (("PU239", "PU240"), ("PU240", "PU239")),       # no uranium in either feed
}


FORMATS = ("mass fractions", "number fractions", "number densities")


def feed_vectors(ctx, key):
    out = {}
    for name, nucs in zip(("feedA", "feedB"), FEEDS[key]):
        if len(nucs) == 1:
            out[name] = {nucs[0]: 1.0}
        else:
            f = ctx.real(name + "_" + nucs[0], 0.0, 1.0)
            out[name] = {nucs[0]: f, nucs[1]: 1.0 - f}
    return out


@harness("C18", bounds="UZr fuel; block 1 symbolic: ZR_wt_frac, U235_wt_frac, class1_wt_frac in [0, 1] and the two "
                       "custom isotopic feed vectors (mass fractions in [0,1] summing to one; which nuclides each "
                       "feed names is the instance, including feeds that leave out a heavy-metal nuclide of the "
                       "library material); each feed written as mass fractions, number fractions or number "
                       "densities of the same composition (instance)", stubs=STUBS,
         instances={"quick": [dict(feeds="Pu+U238"), dict(feeds="PuU+DU"),
                              dict(feeds="LEU+DU", formats=["number fractions", "number densities"]),
                              dict(feeds="PuU+DU", formats=["mass fractions", "number fractions"])],
                    "thorough": [dict(feeds=k) for k in FEEDS] +
                                [dict(feeds=k, formats=[fa, fb]) for k in FEEDS for fa in FORMATS for fb in FORMATS
                                 if (fa, fb) != (FORMATS[0], FORMATS[0])]}, qtimeout_ms=20000)
def class1_class2_blend_replaces_the_heavy_metal_of_the_material(ctx, feeds, formats=("mass fractions", "mass fractions")):
    d, cs = design()
    z = ctx.real("ZR_wt_frac", 0.0, 1.0)
    e = ctx.real("U235_wt_frac", 0.0, 1.0)
    w = ctx.real("class1_wt_frac", 0.0, 1.0)
    vec = feed_vectors(ctx, feeds)
    if KNOWN_DEFECT_class1_wt_frac_zero_is_ignored:
        ctx.note("KNOWN_DEFECT_class1_wt_frac_zero_is_ignored: class1_wt_frac > 0 assumed")
        ctx.assume(w > 0)
    mods = {"ZR_wt_frac": [0.1, z], "U235_wt_frac": [0.2, e], "class1_wt_frac": ["", w],
            "class1_custom_isotopics": ["", "feedA"], "class2_custom_isotopics": ["", "feedB"]}
    aD = configure(d, mods, feeds=vec, formats=dict(zip(("feedA", "feedB"), formats)))
    a = aD.construct(cs, d)
    mf0 = a[0].getComponentByName("fuel").material.massFrac
    ctx.check_close("block 0 (no blend requested) keeps its own enrichment", mf0["U235"], 0.2 * 0.9, scale=1.0)
    mf = a[1].getComponentByName("fuel").material.massFrac
    ctx.check_close("the non-heavy-metal part keeps its mass fraction", zr_of(mf), z, scale=1.0)
    names = sorted(n for n in set(mf) | set(vec["feedA"]) | set(vec["feedB"]) if is_hm(n))
    total = 0
    for n in names:
        want = (1 - z) * (w * vec["feedA"].get(n, 0.0) + (1 - w) * vec["feedB"].get(n, 0.0))
        if ctx.canary and n == "U238":
            want = want + narrow(w, 0.30, 0.31)
        got = mf.get(n, 0.0)
        total = total + got
        ctx.check_close("heavy-metal nuclide %s is w * class1 + (1 - w) * class2 of the heavy metal" % n, got, want,
                        scale=1.0)
    ctx.check_close("the heavy metal still makes up 1 - ZR_wt_frac of the material", total, 1 - z, scale=1.0)


# Reported by an independent engineer and confirmed on the unchanged tree: densityTools.expandElementalMassFracsToNuclides
# puts the isotopes of an expanded element into the vector with massFracs.update(...): an isotope that the vector ALSO
# names explicitly (custom isotopics {ZR: 0.1, ZR90: 0.05, U238: 0.85}) loses its explicit share, the composition no
# longer sums to one.  Plain-Python reproduction:
#   mf = {"ZR": 0.1, "ZR90": 0.05, "U238": 0.85}
#   densityTools.expandElementalMassFracsToNuclides(mf, [(elements.bySymbol["ZR"], None)]); sum(mf.values()) -> 0.95
# Patch: /tmp/scratch/triage/KNOWN_DEFECT_explicit_isotope_next_to_its_element_is_overwritten.diff; the instances that
# name an element together with one of its isotopes are switched on when the flag is False.
KNOWN_DEFECT_explicit_isotope_next_to_its_element_is_overwritten = False  # repaired in /repo (fix: d14e657)
_ELEMENT_AND_ISOTOPE = [] if KNOWN_DEFECT_explicit_isotope_next_to_its_element_is_overwritten else \
    [dict(nucs=["U238", "ZR90", "ZR"])]


def natural_mass_share(element, isotope):
    """Mass share of an isotope in the natural element: abundance x atomic weight, normalised."""
    from armi.nucDirectory import elements

    iso = elements.bySymbol[element].getNaturalIsotopics()
    tot = sum(nb.abundance * nb.weight for nb in iso)
    return sum(nb.abundance * nb.weight for nb in iso if nb.name == isotope) / tot


@harness("C18", bounds="UZr fuel component with `isotopics: <custom vector>` and no material modifications; the custom "
                       "vector (mass fractions in [0,1] summing to one) is symbolic; which nuclides it names is the "
                       "instance (vectors that leave out nuclides of the library material, and vectors naming an "
                       "element together with one of its isotopes, included)", stubs=STUBS,
         instances={"quick": [dict(nucs=["U235", "U238"]), dict(nucs=["PU239", "U238", "ZR"])] + _ELEMENT_AND_ISOTOPE,
                    "thorough": [dict(nucs=["U235", "U238"]), dict(nucs=["PU239", "U238", "ZR"]),
                                 dict(nucs=["PU239", "PU240"]), dict(nucs=["U235", "ZR"])] + _ELEMENT_AND_ISOTOPE +
                                [dict(nucs=["U235", "ZR", "ZR94"]) for _ in _ELEMENT_AND_ISOTOPE]})
def custom_isotopics_replace_the_library_composition(ctx, nucs):
    d, cs = design()
    fr = [ctx.real("massFrac_" + n, 0.0, 1.0) for n in nucs[:-1]]
    last = 1.0 - sum(fr)
    ctx.assume(last >= 0)
    vec = dict(zip(nucs, fr + [last]))
    aD = configure(d, {}, isotopics="feedA", feeds={"feedA": vec, "feedB": {"U238": 1.0}})
    a = aD.construct(cs, d)
    mf = a[1].getComponentByName("fuel").material.massFrac
    for n in sorted((set(mf) | set(vec)) - {"ZR"}):
        if n.startswith("ZR"):
            continue
        want = vec.get(n, 0.0)
        if ctx.canary and n == nucs[0]:
            want = want + narrow(fr[0], 0.30, 0.31)
        ctx.check_close("mass fraction of %s is the one of the custom vector (0 when it is not named)" % n,
                        mf.get(n, 0.0), want, scale=1.0)
    ctx.check_close("zirconium (the element expanded to its isotopes, plus isotopes named explicitly) is the one of "
                    "the custom vector", zr_of(mf), zr_of(vec), scale=1.0)
    for n in sorted(vec):
        if n.startswith("ZR") and n != "ZR":
            ctx.check_close("explicitly named %s: its own entry plus its natural share of the element entry" % n,
                            mf.get(n, 0.0), vec[n] + natural_mass_share("ZR", n) * vec.get("ZR", 0.0), scale=1.0)
    ctx.check_close("the composition sums to one", sum(mf.values()), 1.0, scale=1.0)


# =========================================================================================================
# Second skeleton: a block with TWO components of a library fuel material (so that "for the whole block" and "by
# component" can be told apart).

SKELETON2 = r"""
nuclide flags:
    U235: {burn: false, xs: true}
    U238: {burn: false, xs: true}
    PU239: {burn: false, xs: true}
    PU240: {burn: false, xs: true}
    ZR: {burn: false, xs: true}
custom isotopics:
    feedA:
        input format: mass fractions
        PU239: 1.0
    feedB:
        input format: mass fractions
        U238: 1.0
blocks:
    fuel: &block_fuel
        fuel:
            shape: Circle
            material: UZr
            Tinput: 25.0
            Thot: 25.0
            id: 0.0
            od: 1.0
            mult: 1
        fuel2:
            shape: Circle
            material: UZr
            Tinput: 25.0
            Thot: 25.0
            id: 1.0
            od: 1.5
            mult: 1
        duct:
            shape: Hexagon
            material: Void
            Tinput: 25.0
            Thot: 25.0
            ip: 2.0
            op: 2.1
            mult: 1
assemblies:
    fuel a:
        specifier: IC
        blocks: [*block_fuel, *block_fuel]
        height: [10.0, 10.0]
        axial mesh points: [1, 1]
        xs types: [A, A]
        material modifications:
            ZR_wt_frac: [0.1, 0.1]
"""

# Third skeleton: one block with a solid (UZr) and a fluid (Sodium) component that both name custom isotopics carrying
# a density.
SKELETON3 = r"""
nuclide flags:
    U235: {burn: false, xs: true}
    U238: {burn: false, xs: true}
    ZR: {burn: false, xs: true}
    NA: {burn: false, xs: true}
custom isotopics:
    heavy:
        input format: mass fractions
        density: 17.0
        U235: 0.3
        U238: 0.6
        ZR: 0.1
    sodium:
        input format: mass fractions
        density: 0.8
        NA: 1.0
blocks:
    pin: &block_pin
        slug:
            shape: Circle
            material: UZr
            isotopics: heavy
            Tinput: 25.0
            Thot: 600.0
            id: 0.0
            od: 0.7
            mult: 7
        coolant:
            shape: Circle
            material: Sodium
            isotopics: sodium
            Tinput: 150.0
            Thot: 520.0
            id: 2.4
            od: 3.0
            mult: 1
        duct:
            shape: Hexagon
            material: Void
            Tinput: 25.0
            Thot: 25.0
            ip: 4.0
            op: 4.1
            mult: 1
assemblies:
    pin a:
        specifier: PA
        blocks: [*block_pin]
        height: [10.0]
        axial mesh points: [1]
        xs types: [A]
"""

_DESIGN2 = None
_DESIGN3 = None


def design2():
    global _DESIGN2
    if _DESIGN2 is None:
        d = blueprints.Blueprints.load(SKELETON2)
        cs = settings.Settings()
        d._prepConstruction(cs)
        _DESIGN2 = (d, cs)
    return _DESIGN2


def design3():
    global _DESIGN3
    if _DESIGN3 is None:
        d = blueprints.Blueprints.load(SKELETON3)
        cs = settings.Settings()
        d._prepConstruction(cs)
        _DESIGN3 = (d, cs)
    return _DESIGN3


UZR_LIBRARY_ENRICHMENT = 0.1     # U235 / U of armi.materials.UZr when no modification applies (read off the class)
UZR_LIBRARY_ZR = 0.1


def _is_blank(v):
    return v is None or (isinstance(v, str) and v == "")


def effective(*levels):
    """The value of a modification for one component of one block: the most specific non-blank entry (levels are
    given most specific first); None = nothing applies, the library composition stays."""
    for v in levels:
        if not _is_blank(v):
            return v
    return None


BLANKS = {
    # which entries are left blank ('' = "no modification for this block"): (list, axial index)
    "none": (),
    "component entry of block 1": (("C", 1),),
    "block entry of block 1": (("B", 1),),
    "component entry of block 0, block entry of block 1": (("C", 0), ("B", 1)),
    "both entries of block 1": (("C", 1), ("B", 1)),
}


@harness("C18", bounds="two-block assembly whose blocks hold two UZr components (fuel, fuel2); U235_wt_frac is given "
                       "BOTH for the whole block and under `by component` for fuel, ZR_wt_frac both for the whole "
                       "block and `by component` for fuel2: the four entries of block 1 are symbolic reals in "
                       "[0, 1], those of block 0 four different numbers; which entries are blank is the instance",
         stubs=STUBS, instances={"quick": [dict(blank="none"), dict(blank="component entry of block 0, block entry of block 1")],
                                 "thorough": [dict(blank=k) for k in BLANKS]}, qtimeout_ms=20000)
def modification_given_for_the_block_and_for_a_component_the_component_entry_wins(ctx, blank):
    d, cs = design2()
    # block 0 carries fixed numbers (all four different), block 1 the symbolic ones
    eB = [0.30, ctx.real("U235_wt_frac_block_1", 0.0, 1.0)]
    eC = [0.20, ctx.real("U235_wt_frac_fuel_1", 0.0, 1.0)]
    zB = [0.12, ctx.real("ZR_wt_frac_block_1", 0.0, 1.0)]
    zC = [0.06, ctx.real("ZR_wt_frac_fuel2_1", 0.0, 1.0)]
    eBt, eCt = list(eB), list(eC)
    for which, k in BLANKS[blank]:
        (eBt if which == "B" else eCt)[k] = ""
    aD = configure(d, {"U235_wt_frac": eBt, "ZR_wt_frac": list(zB)},
                   byComponent={"fuel": {"U235_wt_frac": eCt}, "fuel2": {"ZR_wt_frac": list(zC)}})
    a = aD.construct(cs, d)
    for k, b in enumerate(a):
        # read off the input: the entry under the component's own name, else the entry for the whole block, else
        # the library value
        want = {"fuel": (effective(eCt[k], eBt[k]), zB[k]), "fuel2": (effective(eBt[k]), zC[k])}
        for name, (e, z) in want.items():
            e = UZR_LIBRARY_ENRICHMENT if e is None else e
            mf = b.getComponentByName(name).material.massFrac
            wantU5 = e * (1 - z)
            if ctx.canary and k == 1 and name == "fuel2":
                wantU5 = wantU5 + narrow(zC[1], 0.5, 0.51)
            ctx.check_close("block %d, %s: zirconium mass fraction is the most specific entry given" % (k, name),
                            zr_of(mf), z, scale=1.0)
            ctx.check_close("block %d, %s: U235 mass fraction is (most specific enrichment entry) x uranium fraction"
                            % (k, name), mf["U235"], wantU5, scale=1.0)
            ctx.check_close("block %d, %s: U238 takes the rest of the uranium" % (k, name), mf["U238"],
                            (1 - e) * (1 - z), scale=1.0)


# =========================================================================================================
# "blueprints that are inconsistent (... lists of unequal length) are refused with an error": the per-block lists of an
# assembly.  Here the blueprint is TEXT, generated per path; the numbers in it are fixed, the lengths of the lists are
# what the solver chooses.

TEMPLATE_LISTS = r"""
nuclide flags:
    U235: {{burn: false, xs: true}}
    U238: {{burn: false, xs: true}}
    ZR: {{burn: false, xs: true}}
blocks:
    fuel: &block_fuel
        fuel:
            shape: Circle
            material: UZr
            Tinput: 25.0
            Thot: 25.0
            id: 0.0
            od: 1.0
            mult: 1
        fuel2:
            shape: Circle
            material: UZr
            Tinput: 25.0
            Thot: 25.0
            id: 1.0
            od: 1.5
            mult: 1
        duct:
            shape: Hexagon
            material: Void
            Tinput: 25.0
            Thot: 25.0
            ip: 2.0
            op: 2.1
            mult: 1
assemblies:
    fuel a:
        specifier: IC
        blocks: {blocks}
        height: {height}
        axial mesh points: {mesh}
        xs types: {xs}
        material modifications:
            ZR_wt_frac: {zr}
            by component:
                fuel:
                    U235_wt_frac: {e1}
                fuel2:
                    U235_wt_frac: {e2}
"""
# the per-block lists of the assembly, in the order of the symbolic selector `deviatingList`
LISTS = ("height", "mesh", "xs", "zr", "e1", "e2")
LIST_NAMES = {"height": "height", "mesh": "axial mesh points", "xs": "xs types",
              "zr": "material modification ZR_wt_frac (whole block)",
              "e1": "material modification U235_wt_frac by component fuel",
              "e2": "material modification U235_wt_frac by component fuel2"}
# entries to draw from (more than any list will need); all different so that an entry used for the wrong block shows
POOL = {"height": [10.0, 20.0, 15.0, 12.0, 18.0, 11.0, 13.0], "mesh": [1, 2, 3, 4, 5, 6, 7],
        "xs": ["A", "B", "C", "D", "E", "F", "G"], "zr": [0.10, 0.12, 0.14, 0.16, 0.18, 0.11, 0.13],
        "e1": [0.20, 0.22, 0.24, 0.26, 0.28, 0.21, 0.23], "e2": [0.30, 0.32, 0.34, 0.36, 0.38, 0.31, 0.33]}

# Candidate genuine defect on the unchanged tree (reported by an independent engineer; reproduction: the text that
# lists_text(2, dict(LENGTHS, e1=4)) produces -- fuel: U235_wt_frac with 4 entries, fuel2: U235_wt_frac with 2 entries,
# 2 blocks -- is accepted by Blueprints.load(...)._prepConstruction(Settings()); with 1 entry for fuel it ends in an
# IndexError instead of the ValueError of the length check):
# AssemblyBlueprint._checkParamConsistency collects the by-component lists in a dict keyed by the MODIFIER NAME only
# ("material modifications for U235_wt_frac"), so of several components that give the same modifier only the LAST
# one's list is compared with the number of blocks.  With the flag set, a wrong length of a by-component list that
# is hidden this way (a later component gives the same modifier with the right length) is noted, not required to be
# refused; every other wrong length is.
KNOWN_DEFECT_by_component_list_lengths_are_checked_per_modifier_name = False  # repaired in /repo (fix: 1c87942)


def lists_text(nBlocks, lengths):
    def seq(key):
        return "[" + ", ".join(str(v) for v in POOL[key][:lengths[key]]) + "]"

    return TEMPLATE_LISTS.format(blocks="[" + ", ".join(["*block_fuel"] * nBlocks) + "]",
                                 **{k: seq(k) for k in LISTS})


@harness("C18", bounds="assembly of nBlocks blocks (instance: 1..3) given as blueprint TEXT; symbolic: which one (or "
                       "which two, thorough) of its six per-block lists -- height, axial mesh points, xs types, a "
                       "whole-block material modification, the same by-component modification for two components "
                       "-- has a length different from nBlocks, and by how much (-2..+3, not below 0); the entries "
                       "are fixed, all different",
         stubs=["none: Blueprints.load + _prepConstruction on generated text"],
         instances={"quick": [dict(nBlocks=2, pairs=False), dict(nBlocks=3, pairs=False)],
                    "thorough": [dict(nBlocks=n, pairs=p) for n in (1, 2, 3) for p in (False, True)]},
         max_paths=5000)
def assembly_with_a_per_block_list_of_another_length_than_its_blocks_is_refused(ctx, nBlocks, pairs):
    which1 = ctx.int("deviatingList", -1, len(LISTS) - 1)            # -1: none
    diff1 = ctx.int("lengthDifference", -2, 3)
    which2 = ctx.int("deviatingList2", -1, len(LISTS) - 1 if pairs else -1)
    diff2 = ctx.int("lengthDifference2", -2, 3)
    ctx.assume(AND(diff1 != 0, diff2 != 0, nBlocks + diff1 >= 0, nBlocks + diff2 >= 0))
    ctx.assume(OR(which2 == -1, which1 < which2))
    ctx.assume(IMPLIES(which1 == -1, diff1 == 1))                    # unused numbers pinned
    ctx.assume(IMPLIES(which2 == -1, diff2 == 1))
    which1, diff1, which2, diff2 = int(which1), int(diff1), int(which2), int(diff2)
    lengths = {k: nBlocks for k in LISTS}
    for w, dl in ((which1, diff1), (which2, diff2)):
        if w >= 0:
            lengths[LISTS[w]] = nBlocks + dl
    text = lists_text(nBlocks, lengths)
    consistent = all(n == nBlocks for n in lengths.values())
    wrong = [LIST_NAMES[k] + ": %d entries" % n for k, n in lengths.items() if n != nBlocks]
    hidden = (lengths["e1"] != nBlocks and lengths["e2"] == nBlocks
              and all(n == nBlocks for k, n in lengths.items() if k != "e1"))
    mustRefuse = not consistent
    if ctx.canary and lengths["xs"] == nBlocks + 1 and len(wrong) == 1:
        mustRefuse = False                                # one input of the family: xs types one entry too long
    refused, a = None, None
    try:
        design = blueprints.Blueprints.load(text)
        design._prepConstruction(settings.Settings())
        a = design.assemblies["fuel a"]
    except ValueError as e:
        refused = "ValueError: " + str(e).splitlines()[0][:100] if str(e) else "ValueError"
    except IndexError:
        if not (KNOWN_DEFECT_by_component_list_lengths_are_checked_per_modifier_name and hidden):
            raise
        refused = "IndexError"
    if hidden and KNOWN_DEFECT_by_component_list_lengths_are_checked_per_modifier_name:
        ctx.note("KNOWN_DEFECT_by_component_list_lengths_are_checked_per_modifier_name: fuel gives U235_wt_frac with "
                 "%d entries for %d blocks, hidden by fuel2's list of the right length: %s"
                 % (lengths["e1"], nBlocks, refused or "accepted"))
        return
    ctx.check("an assembly whose per-block lists do not all have one entry per block is refused with an error"
              + ("" if refused or not mustRefuse else ": %d blocks, %s was built" % (nBlocks, "; ".join(wrong))),
              (refused is not None) == mustRefuse)
    if a is None:
        return
    ctx.check("the consistent assembly has one block per entry of `blocks`", len(a) == nBlocks)
    for k, b in enumerate(a):
        ctx.check("block %d has the height of its entry" % k, b.getHeight() == POOL["height"][k])
        ctx.check("block %d has the cross-section type of its entry" % k, b.p.xsType == POOL["xs"][k])
        ctx.check("block %d has the axial mesh points of its entry" % k, b.p.axMesh == POOL["mesh"][k])
        for name, key in (("fuel", "e1"), ("fuel2", "e2")):
            mf = b.getComponentByName(name).material.massFrac
            e, z = POOL[key][k], POOL["zr"][k]
            ctx.check("block %d, %s: zirconium and U235 mass fractions are those of its own entries" % (k, name),
                      abs(zr_of(mf) - z) <= 1e-12 and abs(mf["U235"] - e * (1 - z)) <= 1e-12)
    ctx.check("the blocks are stacked in the order given: each starts where the one below ends",
              all(abs(b.p.zbottom - sum(POOL["height"][:k])) <= 1e-9 for k, b in enumerate(a)))


# =========================================================================================================
# "composition after the requested ... isotopic overrides": a custom isotopic vector that carries a DENSITY, named by
# a component of a LIBRARY material.  The manual (doc/user/inputs.rst, custom isotopics): the density is "specified at
# the input temperature for the component", and "all other properties of that material (e.g. expansion coefficients)
# will continue to be used as if the component consisted of the library material".

CUSTOM_DENSITY_CASES = {
    # component of SKELETON3, custom vector it names, its material class, the vector (mass fractions), cold id/od/mult
    "coolant": ("sodium", "Sodium", {"NA": 1.0}, (2.4, 3.0, 1)),
    "slug": ("heavy", "UZr", {"U235": 0.3, "U238": 0.6, "ZR": 0.1}, (0.0, 0.7, 7)),
}


def _custom_vector(name, vec, density, fmt="mass fractions"):
    ci = CustomIsotopic(name, fmt, None)
    # the density goes into the slot yamlize keeps it in (the yamlize descriptor would coerce a proxy with float())
    setattr(ci, CustomIsotopic._density.storage_name, density)
    for nuc, v in vec.items():
        ci[nuc] = v
    ci._initializeMassFracs()
    ci._expandElementMassFracs()
    return ci


@harness("C18", bounds="one block with a UZr slug and a Sodium annulus (fixed cold dimensions), each naming a custom "
                       "isotopic vector with a density; symbolic: that density in [0.05, 30] g/cc (the vector is "
                       "fixed); instances: which component is examined and its (Tinput, Thot), equal and unequal, "
                       "heating and cooling (thorough: also both symbolic in [100, 800] C for the fluid)",
         stubs=STUBS + ["the symbolic density is stored in CustomIsotopic past yamlize's float coercion"],
         instances={"quick": [dict(comp="coolant", Tin=150.0, Thot=520.0), dict(comp="slug", Tin=25.0, Thot=600.0),
                              dict(comp="coolant", Tin=450.0, Thot=450.0)],
                    "thorough": [dict(comp=c, Tin=ti, Thot=th) for c in ("coolant", "slug")
                                 for ti, th in ((150.0, 520.0), (520.0, 150.0), (450.0, 450.0), (25.0, 600.0))]
                                + [dict(comp="coolant", Tin=None, Thot=None)]})    # both symbolic in [100, 800] C
def density_given_with_custom_isotopics_is_the_density_at_the_input_temperature(ctx, comp, Tin, Thot):
    import math

    from armi import materials

    d, cs = design3()
    rho = ctx.real("customDensity", 0.05, 30.0)
    if Tin is None:
        Tin, Thot = ctx.real("Tinput", 100.0, 800.0), ctx.real("Thot", 100.0, 800.0)
    vecName, matName, vec, (cid, cod, mult) = CUSTOM_DENSITY_CASES[comp]
    for name, (vn, _m, v, _dims) in CUSTOM_DENSITY_CASES.items():
        cD = d.blockDesigns["pin"][name]
        # everything a run depends on is set on every call: the examined component gets the instance's temperatures
        # and the symbolic density, the other one fixed numbers
        for attr, temp in zip(("Tinput", "Thot"), (Tin, Thot) if name == comp else (300.0, 300.0)):
            setattr(cD, getattr(type(cD), attr).storage_name, temp)       # past yamlize's float coercion
        if vn in d.customIsotopics:
            del d.customIsotopics[vn]
        d.customIsotopics[vn] = _custom_vector(vn, v, rho if name == comp else 5.0)
    a = d.assemDesigns["pin a"].construct(cs, d)
    c = a[0].getComponentByName(comp)
    got = c.density()
    lib = getattr(materials, matName)()           # the library material, asked on plain numbers
    areaCold = mult * math.pi / 4.0 * (cod ** 2 - cid ** 2)       # from the input text
    if isinstance(lib, materials.Fluid):
        # a fluid fills what it is given: between Tinput and Thot its density changes as the library law says
        want = rho * lib.density(Tc=Thot) / lib.density(Tc=Tin)
    else:
        # a solid keeps its mass per unit length while its cross-section expands (the block height is the hot height)
        want = rho * areaCold / c.getArea()
    if ctx.canary:
        want = want * (1 + narrow(rho, 3.0, 3.1))
    ctx.check("the component was built at the temperatures of the input",
              AND(c.inputTemperatureInC == Tin, c.temperatureInC == Thot))
    ctx.check_close("hot density = custom density at Tinput, carried to Thot by the library material's own law",
                    got, want, scale=rho)
    if Tin == Thot:
        ctx.check_close("with Thot = Tinput the component has exactly the custom density", got, rho, scale=rho)
    ctx.check_close("mass per unit length = density x hot cross-section", c.getMass() / a[0].getHeight(),
                    want * c.getArea(), scale=rho * areaCold)
    nd = c.getNumberDensities()
    names = sorted(n for n in vec if n in nd)          # elements of the vector are expanded to their isotopes
    ref = names[0] if names else None
    for n in names[1:]:
        ctx.check_close("nuclides %s and %s are in the ratio of the custom mass fractions / atomic weights" % (n, ref),
                        nd[n] * nuclideBases.byName[n].weight * vec[ref],
                        nd[ref] * nuclideBases.byName[ref].weight * vec[n], scale=rho)
    other = [k for k in CUSTOM_DENSITY_CASES if k != comp][0]
    ctx.check_close("the other component keeps the density of its own custom vector (Thot = Tinput there)",
                    a[0].getComponentByName(other).density(), 5.0, scale=5.0)


# =========================================================================================================
# "blueprints that are inconsistent (... overlapping solid components ...) are refused with an error": a hex block with
# a wire-wrapped pin bundle inside one or several nested hexagonal ducts.  The bundle of N pins (N = 7, 19, 37: complete
# hexagonal rings) has its rows parallel to the duct flats; it overlaps the duct that encloses it -- the INNERMOST one
# -- when its flat-to-flat extent exceeds that duct's inner flat-to-flat distance.  The dimensions the property
# quantifies over are put into the blueprint objects as symbolic reals; BlockBlueprint.construct (components.factory,
# resolveLinkedDims, HexBlock.verifyBlockDims / getPinToDuctGap) runs on them.

import armi.reactor.blocks as blocksmod  # noqa: E402
from armi.reactor.blueprints.componentBlueprint import ComponentDimension  # noqa: E402

import armi.reactor.components.component as cmod  # noqa: E402

shims.patch(blocksmod, round=shims.round_shim)
shims.patch(cmod, np=shims.np_shim, float=shims.float_shim)
import armi.reactor.components.complexShapes as cshapes  # noqa: E402

shims.patch(cshapes, math=shims.math_shim)

BUNDLE_TEMPLATE = r"""
nuclide flags:
    U: {{burn: false, xs: true}}
    ZR: {{burn: false, xs: true}}
    FE: {{burn: false, xs: true}}
    NA: {{burn: false, xs: true}}
    C: {{burn: false, xs: true}}
    CR: {{burn: false, xs: true}}
    MN: {{burn: false, xs: true}}
    MO: {{burn: false, xs: true}}
    NI: {{burn: false, xs: true}}
    SI: {{burn: false, xs: true}}
    V: {{burn: false, xs: true}}
    W: {{burn: false, xs: true}}
blocks:
    fuel: &block_fuel
        fuel:
            shape: Circle
            material: UZr
            Tinput: 25.0
            Thot: 25.0
            id: 0.0
            od: 0.2
            mult: {npins}
        clad:
            shape: Circle
            material: HT9
            Tinput: 25.0
            Thot: 25.0
            id: 0.2
            od: 1.0
            mult: fuel.mult
        wire:
            shape: Helix
            material: HT9
            Tinput: 25.0
            Thot: 25.0
            axialPitch: 30.0
            helixDiameter: 1.1
            id: 0.0
            od: 0.1
            mult: fuel.mult
{ducts}
assemblies:
    fuel a:
        specifier: IC
        blocks: [*block_fuel]
        height: [10.0]
        axial mesh points: [1]
        xs types: [A]
"""
BUNDLE_DUCT = r"""        {name}:
            shape: Hexagon
            material: HT9
            Tinput: 25.0
            Thot: 25.0
            ip: {ip}
            op: {op}
            mult: 1
"""
# duct components in the order in which the block lists them; the number is the nesting position (0 = innermost)
DUCT_LAYOUTS = {
    "one duct": [("duct", 0)],
    "two ducts": [("inner duct", 0), ("outer duct", 1)],
    "two ducts, outer listed first": [("outer duct", 1), ("inner duct", 0)],
    "three ducts": [("middle duct", 1), ("inner duct", 0), ("outer duct", 2)],
}
_BUNDLES = {}


def bundle_design(npins, layout):
    key = (npins, layout)
    if key not in _BUNDLES:
        ducts = "".join(BUNDLE_DUCT.format(name=n, ip=20.0 + 2 * k, op=21.0 + 2 * k) for n, k in DUCT_LAYOUTS[layout])
        d = blueprints.Blueprints.load(BUNDLE_TEMPLATE.format(npins=npins, ducts=ducts))
        cs = settings.Settings()
        d._prepConstruction(cs)          # (concrete numbers of the text: a bundle with plenty of room)
        _BUNDLES[key] = (d, cs)
    return _BUNDLES[key]


def _set_dim(compDesign, dim, value):
    setattr(compDesign, dim, ComponentDimension(value))


@harness("C18", bounds="hex block: N wire-wrapped pins (N = 7, 19, 37 per instance) inside 1-3 nested hexagonal ducts "
                       "(listed in any order, per instance); symbolic: clad outer diameter in [0.3, 2] cm, wire diameter "
                       "in [0.05, 0.3] cm (wire in contact with the clad), inner flat-to-flat distance of the innermost "
                       "duct in [1, 40] cm, wall thicknesses and the gaps between the ducts in [0.1, 2] cm",
         stubs=STUBS + ["armi.reactor.blocks.round -> proxies are returned unrounded (verifyBlockDims rounds the wire/clad gap "
                        "to decide about a warning)",
                        "armi.reactor.components.component.np / .float -> object-array aware numpy shim, identity on proxies",
                        "armi.reactor.components.complexShapes.math -> math shim (the length factor of the wire helix is "
                        "an algebraic square root)"],
         instances={"quick": [dict(npins=19, layout="two ducts"), dict(npins=7, layout="two ducts, outer listed first"),
                              dict(npins=19, layout="one duct")],
                    "thorough": [dict(npins=n, layout=l) for n in (7, 19, 37) for l in DUCT_LAYOUTS]},
         qtimeout_ms=20000)
def pin_bundle_wider_than_the_duct_that_encloses_it_is_refused(ctx, npins, layout):
    d, cs = bundle_design(npins, layout)
    cladOD = ctx.real("cladOD", 0.3, 2.0)
    wireOD = ctx.real("wireOD", 0.05, 0.3)
    ip0 = ctx.real("innermostDuctIP", 1.0, 40.0)
    nDucts = len(DUCT_LAYOUTS[layout])
    walls = [ctx.real("ductWall_%d" % k, 0.1, 2.0) for k in range(nDucts)]
    gaps = [ctx.real("ductGap_%d" % k, 0.1, 2.0) for k in range(1, nDucts)]
    ips, ops = [ip0], [ip0 + 2 * walls[0]]
    for k in range(1, nDucts):
        ips.append(ops[-1] + 2 * gaps[k - 1])
        ops.append(ips[-1] + 2 * walls[k])
    bD = d.blockDesigns["fuel"]
    _set_dim(bD["clad"], "od", cladOD)
    _set_dim(bD["wire"], "od", wireOD)
    _set_dim(bD["wire"], "helixDiameter", cladOD + wireOD)
    for name, k in DUCT_LAYOUTS[layout]:
        _set_dim(bD[name], "ip", ips[k])
        _set_dim(bD[name], "op", ops[k])
    # from the input: rings of the hexagonal bundle, pin pitch, flat-to-flat extent of the wire-wrapped bundle
    nRings = next(n for n in range(1, 30) if 3 * n * (n - 1) + 1 >= npins)
    bundle = ctx.sqrt_const(3) * (nRings - 1) * (cladOD + wireOD) + cladOD + 2 * wireOD
    excess = bundle - ips[0]                  # > 0: the bundle does not fit into the innermost duct
    # (armi tolerates an overlap of up to 0.005 cm per side "for input precision"; stay clear of that band)
    ctx.assume(OR(excess <= 0, excess >= 0.011))
    try:
        a = d.assemDesigns["fuel a"].construct(cs, d)
        refused = False
    except ValueError:
        refused = True
    limit = ITE(cladOD > 1.9, 5.0, 0.0) if ctx.canary else 0.0
    ctx.check("the block is refused iff the pin bundle is wider than the inner flat-to-flat of its innermost duct",
              IFF(refused, excess > limit))
    if refused:
        return
    b = a[0]
    for name, k in DUCT_LAYOUTS[layout]:
        c = b.getComponentByName(name)
        ctx.check("%s has the dimensions of the input" % name,
                  AND(c.getDimension("ip", cold=True) == ips[k], c.getDimension("op", cold=True) == ops[k]))
    ctx.check("clad and wire have the dimensions of the input",
              AND(b.getComponentByName("clad").getDimension("od", cold=True) == cladOD,
                  b.getComponentByName("wire").getDimension("od", cold=True) == wireOD,
                  b.getComponentByName("wire").getDimension("mult") == npins))


# =========================================================================================================
# "blueprints that are inconsistent (unknown specifier, ..., duplicate names, ...) are refused with an error": the
# SPECIFIER is the name by which the core and lattice maps refer to an assembly design; two designs that answer to the
# same specifier make every map location of that specifier ambiguous.

# Reported by an independent engineer and confirmed on the unchanged tree: Blueprints._prepConstruction fills
# _assembliesBySpecifier[aDesign.specifier] = a for every design without looking whether the specifier is taken: of
# two assembly designs with the same specifier the LAST one silently wins (constructAssem(specifier=...) and hence
# every location of the core map gets it).  Reproduction: the text of specifier_text(["IC", "IC", "RR"]) below is
# accepted by Blueprints.load(...)._prepConstruction(Settings()), and constructAssem(cs, specifier="IC") returns the
# `design 1` assembly (xs type B), never `design 0`.  The obvious repair (refuse in _prepConstruction) breaks three of
# armi's own blueprint tests, whose input has two designs with specifier IC: recorded in /verif/known_findings.jsonl
# (predicate: two of the three specifierOfDesign_k inputs are equal), the obligation is live.  Setting the flag to
# True narrows the quantifier to pairwise different specifiers instead.
KNOWN_DEFECT_two_assembly_designs_with_one_specifier_are_accepted = False  # recorded in known_findings.jsonl

TEMPLATE_SPECIFIERS = r"""
nuclide flags:
    U235: {{burn: false, xs: true}}
    U238: {{burn: false, xs: true}}
    ZR: {{burn: false, xs: true}}
blocks:
    fuel: &block_fuel
        fuel:
            shape: Circle
            material: UZr
            Tinput: 25.0
            Thot: 25.0
            id: 0.0
            od: 1.0
            mult: 1
        duct:
            shape: Hexagon
            material: Void
            Tinput: 25.0
            Thot: 25.0
            ip: 2.0
            op: 2.1
            mult: 1
assemblies:
{designs}"""
SPECIFIER_DESIGN = r"""    design {k}:
        specifier: {spec}
        blocks: [*block_fuel]
        height: [{height}]
        axial mesh points: [1]
        xs types: [{xs}]
"""
SPECIFIERS = ("IC", "MC", "RR")


def specifier_text(specs):
    return TEMPLATE_SPECIFIERS.format(designs="".join(
        SPECIFIER_DESIGN.format(k=k, spec=s, height=10.0, xs="ABC"[k]) for k, s in enumerate(specs)))


@harness("C18", bounds="three assembly designs (told apart by their xs types) given as blueprint TEXT; symbolic: which "
                       "of three specifiers each design carries (all 27 assignments)",
         stubs=["none: Blueprints.load + _prepConstruction + constructAssem on generated text"], max_paths=200)
def assembly_designs_sharing_a_specifier_are_refused(ctx):
    idx = [ctx.int("specifierOfDesign_%d" % k, 0, len(SPECIFIERS) - 1) for k in range(3)]
    if KNOWN_DEFECT_two_assembly_designs_with_one_specifier_are_accepted:
        ctx.note("KNOWN_DEFECT_two_assembly_designs_with_one_specifier_are_accepted: specifiers pairwise different")
        ctx.assume(AND(idx[0] != idx[1], idx[0] != idx[2], idx[1] != idx[2]))
    idx = [int(i) for i in idx]
    specs = [SPECIFIERS[i] for i in idx]
    distinct = len(set(specs)) == 3
    mustRefuse = not distinct
    if ctx.canary and idx == [2, 0, 1]:
        mustRefuse = True                                  # one input of the family
    cs = settings.Settings()
    try:
        design = blueprints.Blueprints.load(specifier_text(specs))
        design._prepConstruction(cs)
        refused = None
    except ValueError as e:
        refused = str(e).splitlines()[0][:100] if str(e) else "ValueError"
    ctx.check("assembly designs are refused iff two of them carry the same specifier"
              + ("" if refused or not mustRefuse else ": specifiers %s were accepted" % (specs,)),
              (refused is not None) == mustRefuse)
    if refused is not None:
        return
    for k, s in enumerate(specs):
        if specs.count(s) > 1:
            continue
        a = design.constructAssem(cs, specifier=s)
        ctx.check("the assembly built for specifier %s is the design that carries it" % s,
                  a.getType() == "design %d" % k and a[0].p.xsType == "ABC"[k])
