"""C18 (composition clause): "components have the specified ... composition after the requested material modifications
and isotopic overrides - as computed independently from the input text".

The blueprint OBJECTS are built once from a small fixed YAML skeleton (structure only: one UZr fuel pin in a duct, two
blocks); the numbers the property quantifies over -- material-modification entries, class-1/class-2 blend fraction,
custom isotopic vectors -- are then put into those objects in Python as symbolic reals, and the REAL construction code
(AssemblyBlueprint._createBlock, BlockBlueprint.construct, ComponentBlueprint.construct, Material.applyInputParams,
CustomIsotopic.apply, densityTools.applyIsotopicsMix) runs on them.
"""
from symx.core import AND, OR, NOT, IMPLIES, ITE, is_sym
from symx.engine import harness
from symx import shims

import armi.materials.material as matmod
import armi.utils.densityTools as dtmod
from armi import settings
from armi.materials import UZr, UO2
from armi.nucDirectory import nuclideBases
from armi.reactor import blueprints
from armi.reactor.blueprints.assemblyBlueprint import Modifications
from armi.reactor.blueprints.isotopicOptions import CustomIsotopic

shims.patch(matmod, float=shims.float_shim)

STUBS = ["armi.materials.material.float -> identity on proxies (setMassFrac converts with float())"]

SKELETON = r"""
nuclide flags:
    U235: {burn: false, xs: true}
    U238: {burn: false, xs: true}
    PU239: {burn: false, xs: true}
    PU240: {burn: false, xs: true}
    ZR: {burn: false, xs: true}
custom isotopics:
    feedA:
        input format: mass fractions
        PU239: 1.0
    feedB:
        input format: mass fractions
        U238: 1.0
blocks:
    fuel: &block_fuel
        fuel:
            shape: Circle
            material: UZr
            Tinput: 25.0
            Thot: 25.0
            id: 0.0
            od: 1.0
            mult: 1
        duct:
            shape: Hexagon
            material: Void
            Tinput: 25.0
            Thot: 25.0
            ip: 2.0
            op: 2.1
            mult: 1
assemblies:
    fuel a:
        specifier: IC
        blocks: [*block_fuel, *block_fuel]
        height: [10.0, 10.0]
        axial mesh points: [1, 1]
        xs types: [A, A]
        material modifications:
            ZR_wt_frac: [0.1, 0.1]
"""

_DESIGN = None


def design():
    global _DESIGN
    if _DESIGN is None:
        d = blueprints.Blueprints.load(SKELETON)
        cs = settings.Settings()
        d._prepConstruction(cs)
        _DESIGN = (d, cs)
    return _DESIGN


def is_hm(name):
    return nuclideBases.byName[name].isHeavyMetal()


def configure(d, mods, byComponent=None, isotopics=None, feeds=None):
    """Put the numbers of one harness run into the (shared, concrete) blueprint objects.  Everything a run depends on
    is set here on every call."""
    aD = d.assemDesigns["fuel a"]
    for k in list(aD.materialModifications):
        del aD.materialModifications[k]
    for k, v in mods.items():
        aD.materialModifications[k] = list(v)
    for k in list(aD.materialModifications.byComponent):
        del aD.materialModifications.byComponent[k]
    for comp, cm in (byComponent or {}).items():
        m = Modifications()
        for k, v in cm.items():
            m[k] = list(v)
        aD.materialModifications.byComponent[comp] = m
    d.blockDesigns["fuel"]["fuel"].isotopics = isotopics
    for name, vec in (feeds or {"feedA": {"PU239": 1.0}, "feedB": {"U238": 1.0}}).items():
        # the real input object, built the way yamlize builds it (__init__ is not called by yamlize either)
        ci = CustomIsotopic(name, "mass fractions", None)
        for nuc, v in vec.items():
            ci[nuc] = v
        ci._initializeMassFracs()
        ci._expandElementMassFracs()
        if name in d.customIsotopics:
            del d.customIsotopics[name]
        d.customIsotopics[name] = ci
    return aD


def zr_of(mf):
    return sum(v for n, v in mf.items() if n.startswith("ZR"))


def narrow(x, lo, hi):
    """Canary helper: 0.01 on a narrow band of x, 0 elsewhere (added to an expected mass fraction)."""
    return ITE(AND(x > lo, x < hi), 0.01, 0.0)


# ---------------------------------------------------------------------------------------------------------
# Candidate genuine defect found on the unchanged tree (plain-Python reproduction in the report):
# FuelMaterial.applyInputParams tests `if class1_wt_frac:` -- a requested class-1 fraction of exactly 0.0 (fuel made
# of the class-2 feed only) is treated like "not given" and the blend is silently skipped; the component keeps the
# library isotopics.  (AssemblyBlueprint._shouldMaterialModiferBeApplied documents that 0 IS a value to apply.)
KNOWN_DEFECT_class1_wt_frac_zero_is_ignored = False  # repaired in /repo (fix: 55e0aae)


@harness("C18", bounds="two-block UZr assembly; per block the entries of `material modifications` ZR_wt_frac and "
                       "U235_wt_frac are symbolic reals in [0, 1] (zero included) or blank ('' / None, per instance); "
                       "given for the whole block or `by component`",
         stubs=STUBS, instances={"quick": [dict(blank=None, where="block"), dict(blank="", where="block"),
                                           dict(blank=None, where="component")],
                                 "thorough": [dict(blank=b, where=w) for b in (None, "", "None")
                                              for w in ("block", "component")]})
def every_numeric_material_modification_is_applied_to_its_block(ctx, blank, where):
    d, cs = design()
    z = [ctx.real("ZR_wt_frac_%d" % k, 0.0, 1.0) for k in range(2)]
    e = [ctx.real("U235_wt_frac_%d" % k, 0.0, 1.0) for k in range(2)]
    mods = {"ZR_wt_frac": list(z), "U235_wt_frac": list(e)}
    if blank is not None:
        mods["U235_wt_frac"][1] = None if blank == "None" else blank     # a blank entry: library default for block 1
    aD = configure(d, mods) if where == "block" else configure(d, {}, byComponent={"fuel": mods})
    a = aD.construct(cs, d)
    for k, b in enumerate(a):
        fuel = b.getComponentByName("fuel")
        mf = fuel.material.massFrac
        ek = e[k] if (blank is None or k == 0) else 0.1
        wantU5 = ek * (1 - z[k])
        if ctx.canary and k == 1:
            wantU5 = wantU5 + narrow(z[1], 0.5, 0.51)
        ctx.check_close("block %d: zirconium mass fraction is the requested one" % k, zr_of(mf), z[k], scale=1.0)
        ctx.check_close("block %d: U235 mass fraction is enrichment x uranium fraction" % k, mf["U235"], wantU5,
                        scale=1.0)
        ctx.check_close("block %d: U238 takes the rest of the uranium" % k, mf["U238"], (1 - ek) * (1 - z[k]), scale=1.0)
        nd = fuel.getNumberDensities()
        a5, a8 = nuclideBases.byName["U235"].weight, nuclideBases.byName["U238"].weight
        ctx.check_close("block %d: number densities are in the ratio of mass fraction / atomic weight" % k,
                        nd["U235"] * a5 * mf["U238"], nd["U238"] * a8 * mf["U235"], scale=1.0)


FEEDS = {
    # class-1 nuclides, class-2 nuclides (the last one of each takes the remainder so that each vector sums to one)
    "Pu+U238": (("PU239", "PU240"), ("U238",)),             # the material's own U235 is named by neither feed
    "LEU+DU": (("U235", "U238"), ("U235", "U238")),
    "PuU+DU": (("PU239", "U238"), ("U235", "U238")),
    "Pu+Pu": (("PU239", "PU240"), ("PU240", "PU239")),       # no uranium in either feed
}


def feed_vectors(ctx, key):
    out = {}
    for name, nucs in zip(("feedA", "feedB"), FEEDS[key]):
        if len(nucs) == 1:
            out[name] = {nucs[0]: 1.0}
        else:
            f = ctx.real(name + "_" + nucs[0], 0.0, 1.0)
            out[name] = {nucs[0]: f, nucs[1]: 1.0 - f}
    return out


@harness("C18", bounds="UZr fuel; block 1 symbolic: ZR_wt_frac, U235_wt_frac, class1_wt_frac in [0, 1] and the two "
                       "custom isotopic feed vectors (mass fractions in [0,1] summing to one; which nuclides each "
                       "feed names is the instance, including feeds that leave out a heavy-metal nuclide of the "
                       "library material)", stubs=STUBS,
         instances={"quick": [dict(feeds="Pu+U238"), dict(feeds="PuU+DU")],
                    "thorough": [dict(feeds=k) for k in FEEDS]}, qtimeout_ms=20000)
def class1_class2_blend_replaces_the_heavy_metal_of_the_material(ctx, feeds):
    d, cs = design()
    z = ctx.real("ZR_wt_frac", 0.0, 1.0)
    e = ctx.real("U235_wt_frac", 0.0, 1.0)
    w = ctx.real("class1_wt_frac", 0.0, 1.0)
    vec = feed_vectors(ctx, feeds)
    if KNOWN_DEFECT_class1_wt_frac_zero_is_ignored:
        ctx.note("KNOWN_DEFECT_class1_wt_frac_zero_is_ignored: class1_wt_frac > 0 assumed")
        ctx.assume(w > 0)
    mods = {"ZR_wt_frac": [0.1, z], "U235_wt_frac": [0.2, e], "class1_wt_frac": ["", w],
            "class1_custom_isotopics": ["", "feedA"], "class2_custom_isotopics": ["", "feedB"]}
    aD = configure(d, mods, feeds=vec)
    a = aD.construct(cs, d)
    mf0 = a[0].getComponentByName("fuel").material.massFrac
    ctx.check_close("block 0 (no blend requested) keeps its own enrichment", mf0["U235"], 0.2 * 0.9, scale=1.0)
    mf = a[1].getComponentByName("fuel").material.massFrac
    ctx.check_close("the non-heavy-metal part keeps its mass fraction", zr_of(mf), z, scale=1.0)
    names = sorted(n for n in set(mf) | set(vec["feedA"]) | set(vec["feedB"]) if is_hm(n))
    total = 0
    for n in names:
        want = (1 - z) * (w * vec["feedA"].get(n, 0.0) + (1 - w) * vec["feedB"].get(n, 0.0))
        if ctx.canary and n == "U238":
            want = want + narrow(w, 0.30, 0.31)
        got = mf.get(n, 0.0)
        total = total + got
        ctx.check_close("heavy-metal nuclide %s is w * class1 + (1 - w) * class2 of the heavy metal" % n, got, want,
                        scale=1.0)
    ctx.check_close("the heavy metal still makes up 1 - ZR_wt_frac of the material", total, 1 - z, scale=1.0)


@harness("C18", bounds="UZr fuel component with `isotopics: <custom vector>` and no material modifications; the custom "
                       "vector (mass fractions in [0,1] summing to one) is symbolic; which nuclides it names is the "
                       "instance (vectors that leave out nuclides of the library material included)", stubs=STUBS,
         instances={"quick": [dict(nucs=["U235", "U238"]), dict(nucs=["PU239", "U238", "ZR"])],
                    "thorough": [dict(nucs=["U235", "U238"]), dict(nucs=["PU239", "U238", "ZR"]),
                                 dict(nucs=["PU239", "PU240"]), dict(nucs=["U235", "ZR"])]})
def custom_isotopics_replace_the_library_composition(ctx, nucs):
    d, cs = design()
    fr = [ctx.real("massFrac_" + n, 0.0, 1.0) for n in nucs[:-1]]
    last = 1.0 - sum(fr)
    ctx.assume(last >= 0)
    vec = dict(zip(nucs, fr + [last]))
    aD = configure(d, {}, isotopics="feedA", feeds={"feedA": vec, "feedB": {"U238": 1.0}})
    a = aD.construct(cs, d)
    mf = a[1].getComponentByName("fuel").material.massFrac
    for n in sorted((set(mf) | set(vec)) - {"ZR"}):
        if n.startswith("ZR"):
            continue
        want = vec.get(n, 0.0)
        if ctx.canary and n == nucs[0]:
            want = want + narrow(fr[0], 0.30, 0.31)
        ctx.check_close("mass fraction of %s is the one of the custom vector (0 when it is not named)" % n,
                        mf.get(n, 0.0), want, scale=1.0)
    ctx.check_close("zirconium (expanded to its isotopes) is the one of the custom vector", zr_of(mf),
                    vec.get("ZR", 0.0), scale=1.0)
    ctx.check_close("the composition sums to one", sum(mf.values()), 1.0, scale=1.0)
