"""C08: rotating a hex block / assembly moves pins, free-coordinate children, per-corner/edge data, displacement and
orientation accordingly."""
import copy
import math
import os

import numpy as np

from symx.core import AND, OR, NOT, IMPLIES, IFF, ITE, MAX, Sym, CLOSE
from symx.engine import harness
from symx import shims

import armi.reactor.blocks as blkmod
import armi.reactor.grids.hexagonal as hexmod
import armi.reactor.grids.structuredGrid as sgmod
import armi.reactor.grids.locations as locmod
from armi.reactor import grids
from armi.reactor.grids import HexGrid, IndexLocation, MultiIndexLocation, CoordinateLocation
from armi.utils import iterables
from harness import _build

shims.patch(sgmod, np=shims.np_shim)
shims.patch(locmod, np=shims.np_shim_obj)
shims.patch(hexmod, np=shims.np_shim, sqrt=shims.math_shim.sqrt, isclose=shims.math_shim.isclose)
shims.patch(blkmod, np=shims.np_shim, isinstance=shims.isinstance_shim)

STUBS = ["blocks.np/structuredGrid.np/locations.np/hexagonal.np -> object-array aware numpy shim",
         "blocks.isinstance -> numeric proxies count as int/float (scalar boundary parameters)",
         "rotation angle is concrete (k*60 degrees, k an instance parameter): math.cos/sin run on plain floats"]


def rot(ctx, x, y, k):
    s3 = ctx.sqrt_const(3)
    k = k % 6
    c = [1, 0.5, -0.5, -1, -0.5, 0.5][k]
    s = [0, 0.5, 0.5, 0, -0.5, -0.5][k]
    return c * x - s * s3 * y, s * s3 * x + c * y


def hexdist(i, j):
    return MAX(abs(i), abs(j), abs(i + j))


@harness("C08", bounds="real HexBlock with a pin grid (symbolic pitch, both orientations as instances); three children: "
                       "single-location pin (i,j symbolic), two-location pin, free-coordinate child (x,y symbolic); "
                       "six symbolic entries of a corner and an edge parameter; symbolic displacement; k in -1..7; the "
                       "block stands alone or (placed) is the upper block of a two-block assembly sitting at a symbolic "
                       "cell (ai, aj) of a full-core hex grid: non-zero global position and elevation",
         stubs=STUBS,
         instances={"quick": [dict(k=k, cornersUp=cu) for k in (0, 1, 2, 3, 4, 5, 7, -1) for cu in (False,)] +
                             [dict(k=2, cornersUp=True), dict(k=5, cornersUp=True)] +
                             [dict(k=1, cornersUp=False, placed=True), dict(k=3, cornersUp=False, placed=True),
                              dict(k=-2, cornersUp=True, placed=True)],
                    "thorough": [dict(k=k, cornersUp=False, placed=pl) for k in (0, 1, 2, 3, 4, 5, 7, -1, -2)
                                 for pl in (False, True)] +
                                [dict(k=k, cornersUp=True, placed=pl) for k in (2, 5, -2) for pl in (False, True)]})
def block_rotation_moves_everything(ctx, k, cornersUp, placed=False):
    if placed:
        # the rotation is about the BLOCK's axis wherever the block is: off-centre assembly, upper axial slot
        ai, aj = ctx.int("ai", -20, 20), ctx.int("aj", -20, 20)
        _r, core, (a,) = _build.mk_core([(0, 0)], symmetry="full", nblocks=2)
        a.spatialLocator = IndexLocation(ai, aj, 0, core.spatialGrid)
        b = a[1]
        blockGlobal0 = [v for v in b.spatialLocator.getGlobalCoordinates()]
    else:
        b = _build.mk_block()
    pp = ctx.real("pinPitch", 0.1, 5.0)
    g = HexGrid.fromPitch(pp, numRings=1, cornersUp=cornersUp)
    g.armiObject = b
    b.spatialGrid = g
    fuel, clad, duct = b[0], b[1], b[2]
    i, j = ctx.int("i"), ctx.int("j")
    i1, j1, i2, j2 = ctx.int("i1"), ctx.int("j1"), ctx.int("i2"), ctx.int("j2")
    cx, cy, cz = ctx.real("cx", -50.0, 50.0), ctx.real("cy", -50.0, 50.0), ctx.real("cz", -50.0, 50.0)
    fuel.spatialLocator = IndexLocation(i, j, 0, g)
    ml = MultiIndexLocation(g)
    ml.extend([IndexLocation(i1, j1, 0, g), IndexLocation(i2, j2, 0, g)])
    clad.spatialLocator = ml
    duct.spatialLocator = CoordinateLocation(cx, cy, cz, g)
    corner = [ctx.real("c%d" % m, -1e3, 1e3) for m in range(6)]
    edge = [ctx.real("e%d" % m, -1e3, 1e3) for m in range(6)]
    b.p.cornerFastFlux = list(corner)
    b.p.pointsEdgeDpa = np.array(edge, dtype=object) if ctx.mode == "sym" else np.array(edge)
    # every other parameter the block defines on its corners / edges (read from the parameter definitions at run time,
    # including those whose location combines flags, e.g. TOP|CORNERS) carries the same six entries, except one that
    # holds a scalar (a scalar on a corner location is left alone)
    from armi.reactor.parameters import ParamLocation
    cornerNames = [n for n in b.p.paramDefs.atLocation(ParamLocation.CORNERS).names if n != "cornerFastFlux"]
    edgeNames = [n for n in b.p.paramDefs.atLocation(ParamLocation.EDGES).names if n != "pointsEdgeDpa"]
    scalarName = "THedgeTemp"
    edgeNames = [n for n in edgeNames if n != scalarName]
    for nm in cornerNames:
        b.p[nm] = list(corner)
    for nm in edgeNames:
        b.p[nm] = list(edge)
    b.p[scalarName] = ctx.real("scalarCorner", 0.0, 1e3)
    dx, dy = ctx.real("dx", -10.0, 10.0), ctx.real("dy", -10.0, 10.0)
    b.p.displacementX, b.p.displacementY = dx, dy
    b.p.orientation = np.array([0.0, 0.0, 60.0])
    rot0 = b.getRotationNum()
    scalar0 = b.p[scalarName]

    b.rotate(k * math.pi / 3.0)

    # pins: index rotated = coordinates rotated by k*60 degrees, ring preserved
    def same_rot(loc, a, c, what):
        x, y, _ = g.getCoordinates((a, c, 0))
        nx, ny, _ = g.getCoordinates((loc.i, loc.j, 0))
        wx, wy = rot(ctx, x, y, k)
        sc = pp * (abs(a) + abs(c) + 1)
        ctx.check_close("%s: x rotated by %d deg" % (what, 60 * k), nx, wx, scale=sc)
        ctx.check_close("%s: y rotated by %d deg" % (what, 60 * k), ny, wy, scale=sc)
        ctx.check_eq("%s: ring preserved" % what, hexdist(loc.i, loc.j), hexdist(a, c))
        ctx.check("%s: still on the block's grid" % what, loc.grid is g)

    same_rot(fuel.spatialLocator, i, j, "single-location pin")
    ctx.check("multi-location child keeps two locations", len(clad.spatialLocator) == 2)
    same_rot(clad.spatialLocator[0], i1, j1, "multi-location pin [0]")
    same_rot(clad.spatialLocator[1], i2, j2, "multi-location pin [1]")
    nx, ny, nz = duct.spatialLocator.getLocalCoordinates()
    wx, wy = rot(ctx, cx, cy, k)
    if ctx.canary:
        wx = wx + ITE(cx > 49, 1.0, 0.0)
    ctx.check_close("free-coordinate child x rotated", nx, wx, scale=100.0)
    ctx.check_close("free-coordinate child y rotated", ny, wy, scale=100.0)
    ctx.check_close("free-coordinate child z kept", nz, cz, scale=100.0)
    ctx.check("free-coordinate child still lives in the block's grid", duct.spatialLocator.grid is g)
    if placed:
        blockGlobal = b.spatialLocator.getGlobalCoordinates()
        gx, gy, gz = duct.spatialLocator.getGlobalCoordinates()
        gsc = 100.0 + 16.2 * (abs(ai) + abs(aj) + 1)
        for m in range(3):
            ctx.check_close("the block itself stays where it is (%s)" % "xyz"[m], blockGlobal[m], blockGlobal0[m], scale=gsc)
        ctx.check_close("free-coordinate child, global x = block centre + rotated local x", gx, blockGlobal0[0] + wx, scale=gsc)
        ctx.check_close("free-coordinate child, global y = block centre + rotated local y", gy, blockGlobal0[1] + wy, scale=gsc)
        ctx.check_close("free-coordinate child, global z = block elevation + local z", gz, blockGlobal0[2] + cz, scale=gsc)
    # boundary data: entry m moves to m+k (mod 6)
    newc, newe = b.p.cornerFastFlux, b.p.pointsEdgeDpa
    for m in range(6):
        ctx.check_close("corner entry %d moved to %d" % (m, (m + k) % 6), newc[(m + k) % 6], corner[m], scale=1e3)
        ctx.check_close("edge entry %d moved to %d" % (m, (m + k) % 6), newe[(m + k) % 6], edge[m], scale=1e3)
        for nm in cornerNames:
            if True:
                ctx.check_close("%s entry %d moved to %d" % (nm, m, (m + k) % 6), b.p[nm][(m + k) % 6], corner[m], scale=1e3)
        for nm in edgeNames:
            ctx.check_close("%s entry %d moved to %d" % (nm, m, (m + k) % 6), b.p[nm][(m + k) % 6], edge[m], scale=1e3)
    ctx.check_close("scalar boundary parameter left alone", b.p[scalarName], scalar0, scale=1e3)
    # displacement vector rotated, orientation advanced
    wdx, wdy = rot(ctx, dx, dy, k)
    ctx.check_close("displacement x rotated", b.p.displacementX, wdx, scale=20.0)
    ctx.check_close("displacement y rotated", b.p.displacementY, wdy, scale=20.0)
    ctx.check("orientation advanced by k*60 degrees (mod 360)",
              (b.p.orientation[2] - 60.0 - 60.0 * (k % 6)) % 360.0 == 0.0)
    ctx.check("rotation number advanced by k (mod 6)", int(b.getRotationNum()) == (int(rot0) + k) % 6)


# ---------------------------------------------------------------------------------------------------------------------
# "rotating a hex block or assembly moves its pins, free-coordinate children, per-corner/per-edge data, displacement
# vector and orientation accordingly": ITS pins, ITS data, ITS orientation -- every block of a rotated assembly turns by
# k x 60 degrees exactly once, whatever the number of blocks, and a block that was not rotated does not change.
# Blocks keep the orientation vector their constructor (or a deep copy of their assembly) gave them.
#
# KNOWN DEFECT (pre-existing, reported by an independent engineer; unchanged tree): HexAssembly.rotate accepts an angle
# only if math.isclose(rad % (pi/3), 0, abs_tol=1e-12); for many multiples of 60 degrees the float remainder comes out
# just below pi/3 instead of near 0 and the rotation is refused with ValueError:
#   k = -3, -5, -6, -7, -9..-14, 15 as k * math.pi / 3 (HexBlock.rotate accepts every one of them), e.g.
#   mk_assembly(2).rotate(-3 * math.pi / 3) -> ValueError: Rotation must be in 60 degree increments, got -180.0 degrees
# While the flag is set those k are left out of the instances; VERIF_SHOW_KNOWN_DEFECTS=1 shows the violations.
KNOWN_DEFECT_hex_assembly_rotate_refuses_some_multiples_of_60_degrees = False  # repaired in /repo (fix: cb56896)
_SHOW_KNOWN = os.environ.get("VERIF_SHOW_KNOWN_DEFECTS", "") != ""
_REFUSED_K = [-3, -6] if _SHOW_KNOWN or not KNOWN_DEFECT_hex_assembly_rotate_refuses_some_multiples_of_60_degrees else []


def _dress(ctx, b, tag):
    """give a constructor-built block a pin grid, one pin at a symbolic cell, a free-coordinate child, corner data and a
    displacement (all symbolic); the orientation is left as the block has it"""
    g = HexGrid.fromPitch(1.0, numRings=1)
    g.armiObject = b
    b.spatialGrid = g
    d = dict(g=g, i=ctx.int("i" + tag), j=ctx.int("j" + tag),
             c=[ctx.real("c%s_%d" % (tag, m), -1e3, 1e3) for m in range(6)],
             f=[ctx.real("f%s%s" % (c, tag), -50.0, 50.0) for c in "xyz"],
             d=[ctx.real("d%s%s" % (c, tag), -10.0, 10.0) for c in "xy"])
    b[0].spatialLocator = IndexLocation(d["i"], d["j"], 0, g)
    b[2].spatialLocator = CoordinateLocation(d["f"][0], d["f"][1], d["f"][2], g)
    b.p.cornerFastFlux = list(d["c"])
    b.p.displacementX, b.p.displacementY = d["d"]
    d["orientation"] = [float(v) for v in b.p.orientation]
    d["rotNum"] = int(b.getRotationNum())
    return d


def _check_turned(ctx, b, d, k, what, canary=False):
    """block b (dressed as d) shows a net rotation of k x 60 degrees relative to its dressing; k = 0: untouched"""
    g = d["g"]
    want = g.rotateIndex(IndexLocation(d["i"], d["j"], 0, g), k)
    wi = want.i + (ITE(AND(d["i"] == 2, d["j"] == 2), 1, 0) if canary else 0)
    got = b[0].spatialLocator
    ctx.check("%s: pin is at its cell turned by %d deg" % (what, 60 * k), AND(got.i == wi, got.j == want.j))
    for m in range(6):
        ctx.check_close("%s: corner entry %d is at %d" % (what, m, (m + k) % 6), b.p.cornerFastFlux[(m + k) % 6], d["c"][m],
                        scale=1e3)
    fx, fy, fz = b[2].spatialLocator.getLocalCoordinates()
    wx, wy = rot(ctx, d["f"][0], d["f"][1], k)
    ctx.check_close("%s: free-coordinate child x turned by %d deg about the block axis" % (what, 60 * k), fx, wx, scale=100.0)
    ctx.check_close("%s: free-coordinate child y turned by %d deg about the block axis" % (what, 60 * k), fy, wy, scale=100.0)
    ctx.check_close("%s: free-coordinate child z kept" % what, fz, d["f"][2], scale=100.0)
    wdx, wdy = rot(ctx, d["d"][0], d["d"][1], k)
    ctx.check_close("%s: displacement x turned by %d deg" % (what, 60 * k), b.p.displacementX, wdx, scale=20.0)
    ctx.check_close("%s: displacement y turned by %d deg" % (what, 60 * k), b.p.displacementY, wdy, scale=20.0)
    o = [float(v) for v in b.p.orientation]
    ctx.check("%s: orientation about z advanced by %d deg exactly once (mod 360), x and y orientation kept" % (what, 60 * k),
              (o[2] - d["orientation"][2] - 60.0 * k) % 360.0 == 0.0 and o[:2] == d["orientation"][:2])
    ctx.check("%s: rotation number advanced by %d (mod 6)" % (what, k), int(b.getRotationNum()) == (d["rotNum"] + k) % 6)


def _blocks_for(ctx, where, n):
    """n constructor-built blocks: stand-alone, in one assembly, in a deep copy of an assembly, or in an assembly placed
    at a symbolic off-centre cell of a full core"""
    if where == "standalone":
        return None, [_build.mk_block() for _ in range(n)]
    if where == "placed":
        ai, aj = ctx.int("ai", -20, 20), ctx.int("aj", -20, 20)
        _r, core, (a,) = _build.mk_core([(0, 0)], symmetry="full", nblocks=n)
        a.spatialLocator = IndexLocation(ai, aj, 0, core.spatialGrid)
        return a, list(a)
    a = _build.mk_assembly(n)
    if where == "copied":
        a = copy.deepcopy(a)
    return a, list(a)


@harness("C08", bounds="assembly of n = 2 or 3 constructor-built blocks (as built / deep copy of the assembly / placed at a "
                       "symbolic cell of a full core), every block with one pin at a symbolic cell, a free-coordinate "
                       "child at a symbolic point, symbolic corner data and displacement; k per instance, negative k "
                       "included", stubs=STUBS,
         instances={"quick": [dict(k=1), dict(k=4, n=3, where="placed"), dict(k=-2, where="copied"), dict(k=-1, n=3)]
                             + [dict(k=k) for k in _REFUSED_K],
                    "thorough": [dict(k=k, n=n, where=w) for k in [1, 2, 3, 4, 5, 6, 7, -1, -2, -4, -8] + _REFUSED_K
                                 for n, w in ((2, "assembly"), (3, "placed"), (3, "copied"))]})
def assembly_rotation_rotates_every_block(ctx, k, n=2, where="assembly"):
    a, blks = _blocks_for(ctx, where, n)
    dressed = [_dress(ctx, b, str(m)) for m, b in enumerate(blks)]
    a.rotate(k * math.pi / 3.0)
    ctx.check("the assembly keeps its blocks", list(a) == blks)
    for m, b in enumerate(blks):
        _check_turned(ctx, b, dressed[m], k, "block %d of %d" % (m, n), canary=ctx.canary and m == 1)


@harness("C08", bounds="two constructor-built blocks (stand-alone / in one assembly / in a deep copy of an assembly / in an "
                       "assembly placed at a symbolic cell of a full core), dressed as above; the first is rotated by k1, "
                       "then the second by k2", stubs=STUBS,
         instances={"quick": [dict(k1=2, k2=1, where="standalone"), dict(k1=1, k2=3, where="assembly"),
                              dict(k1=5, k2=-1, where="copied"), dict(k1=3, k2=3, where="placed")],
                    "thorough": [dict(k1=k1, k2=k2, where=w) for w in ("standalone", "assembly", "copied", "placed")
                                 for k1, k2 in ((1, 1), (2, 1), (1, 3), (5, -1), (3, 3), (-2, 4), (6, 1))]})
def rotating_one_block_leaves_the_other_blocks_alone(ctx, k1, k2, where):
    _a, (b1, b2) = _blocks_for(ctx, where, 2)
    d1, d2 = _dress(ctx, b1, "A"), _dress(ctx, b2, "B")
    b1.rotate(k1 * math.pi / 3.0)
    _check_turned(ctx, b1, d1, k1, "rotated block", canary=ctx.canary)
    _check_turned(ctx, b2, d2, 0, "the other block, not rotated")
    b2.rotate(k2 * math.pi / 3.0)
    _check_turned(ctx, b1, d1, k1, "first block after the second one was rotated")
    _check_turned(ctx, b2, d2, k2, "second block")


def _pin_block(npins):
    """HexBlock with THREE pin components of multiplicity `npins` (fuel, clad, wire) + duct + coolant, no pin grid."""
    from armi.reactor import blocks, components
    b = blocks.HexBlock("fuel", height=10.0)
    fuel = components.Circle("fuel", "UZr", Tinput=25.0, Thot=25.0, od=0.76, id=0.0, mult=npins)
    clad = components.Circle("clad", "HT9", Tinput=25.0, Thot=25.0, od=0.80, id=0.77, mult=npins)
    wire = components.Helix("wire", "HT9", Tinput=25.0, Thot=25.0, axialPitch=30.0, helixDiameter=0.9, od=0.1, id=0.0,
                            mult=npins)
    duct = components.Hexagon("duct", "HT9", Tinput=25.0, Thot=25.0, op=16.0, ip=15.3, mult=1.0)
    coolant = components.DerivedShape("coolant", "Sodium", Tinput=400.0, Thot=400.0)
    for c in (fuel, clad, wire, duct, coolant):
        b.add(c)
    return b


# how the pin components of a block come by their locators (the property quantifies over "all hex blocks with pin
# lattices"; WHO OWNS the locator object is a structural dimension of such a block):
#   auto      HexBlock.autoCreateSpatialGrids() builds the lattice (as Assembly.orientBlocks does): one
#             MultiIndexLocation object is handed to every component with multiplicity > 1
#   auto-in-hex  the same inside a hex system grid (the pin grid gets the opposite orientation)
#   shared2 / shared3   a hand-made MultiIndexLocation with two SYMBOLIC sites shared by 2 / 3 components
#   own3      the same two symbolic sites, every component holding its own MultiIndexLocation (control)
_SHARING = ("auto", "auto-in-hex", "shared2", "shared3", "own3")


@harness("C08", bounds="real HexBlock with three pin components (fuel, clad, wire), duct, coolant; the pin components "
                       "SHARE one locator object or own one each (instance: lattice of 7 pins made by "
                       "HexBlock.autoCreateSpatialGrids with symbolic clad / wire diameters = symbolic pin pitch, plain "
                       "or nested in a hex system grid; or a hand-made MultiIndexLocation with two symbolic sites and "
                       "symbolic pitch shared by 2 or 3 components / one per component); k per instance, every k in "
                       "1..6 for every way of sharing (quick: all of auto and shared2, part of the rest). Sites are compared "
                       "with rotateIndex applied once (all sites, all components); coordinates of getPinCoordinates "
                       "with the k*60-degree rotation (3 of the 7 pins of an armi-made lattice; for symbolic sites "
                       "in two quick instances and all thorough ones)",
         stubs=STUBS,
         instances={"quick": [dict(k=k, sharing="auto") for k in (1, 2, 3, 4, 5, 6)] +
                             [dict(k=k, sharing="shared2", coords=(k in (1, 4))) for k in (1, 2, 3, 4, 5)] +
                             [dict(k=1, sharing="shared3"), dict(k=5, sharing="shared3"),
                              dict(k=2, sharing="auto-in-hex"), dict(k=4, sharing="own3"),
                              dict(k=1, sharing="auto-in-hex", placed=True)],
                    "thorough": [dict(k=k, sharing=s, coords=True) for s in _SHARING for k in (1, 2, 3, 4, 5, 6, -1)] +
                                [dict(k=k, sharing=s, coords=True, placed=True) for s in _SHARING[1:] for k in (1, 4, -1)]})
def block_rotation_pins_sharing_a_locator(ctx, k, sharing, coords=False, placed=False):
    npins = 7 if sharing.startswith("auto") else 2
    b = _pin_block(npins)
    core = None
    if placed:
        # the block is the upper block of an assembly at a symbolic off-centre cell of a full core (pin coordinates of
        # a block are block-local: rotating the block turns them about the block's axis wherever the block is)
        from armi.reactor import assemblies
        ai, aj = ctx.int("ai", -20, 20), ctx.int("aj", -20, 20)
        _r, core, _as = _build.mk_core([], symmetry="full")
        a = assemblies.HexAssembly("fuel")
        a.spatialGrid = grids.AxialGrid.fromNCells(2)
        a.spatialGrid.armiObject = a
        a.add(_build.mk_block())
        a.add(b)
        a.calculateZCoords()
        core.add(a, core.spatialGrid[1, 0, 0])   # (Core.add orients the blocks: a pin lattice is made)
        a.spatialLocator = IndexLocation(ai, aj, 0, core.spatialGrid)
    fuel, clad, wire = b[0], b[1], b[2]
    cladOd = ctx.real("cladOd", 0.8, 1.2)
    wireOd = ctx.real("wireOd", 0.05, 0.3)
    i1, j1, i2, j2 = ctx.int("i1"), ctx.int("j1"), ctx.int("i2"), ctx.int("j2")
    clad.p.od = cladOd
    wire.p.od = wireOd
    if sharing.startswith("auto"):
        system = (core.spatialGrid if placed else HexGrid.fromPitch(16.2, numRings=2)) if sharing == "auto-in-hex" else None
        if placed:
            b.spatialGrid = None    # the lattice Core.add made has the plain pin pitch: make it again with the symbolic one
        b.autoCreateSpatialGrids(system)
        g = b.spatialGrid
        pins = [fuel, clad, wire]
        ctx.check("precondition (armi hands one locator object to all pin components)",
                  fuel.spatialLocator is clad.spatialLocator and clad.spatialLocator is wire.spatialLocator)
        ctx.check("the lattice has one site per pin", len(clad.spatialLocator) == npins)
        ctx.check("nested pin grid has the opposite orientation of the system grid",
                  g.cornersUp == (sharing == "auto-in-hex" and not system.cornersUp))
    else:
        g = HexGrid.fromPitch(cladOd + wireOd, numRings=1)
        g.armiObject = b
        b.spatialGrid = g
        pins = [fuel, clad, wire] if sharing != "shared2" else [fuel, clad]

        def mk():
            ml = MultiIndexLocation(g)
            ml.extend([IndexLocation(i1, j1, 0, g), IndexLocation(i2, j2, 0, g)])
            return ml

        shared = mk()
        for c in pins:
            c.spatialLocator = mk() if sharing == "own3" else shared
    pp = cladOd + wireOd
    # oracle for the sites: the index-level rotation (HexGrid.rotateIndex rotates the coordinates of EVERY cell by
    # k*60 degrees for both orientations: harness hex_rotate_index_rotates_coordinates), applied ONCE to each site
    # the component had before; computed before the block is rotated, from the integers
    before = {c.name: [(loc.i, loc.j) for loc in c.spatialLocator] for c in pins}
    want = {c.name: [g.rotateIndex(IndexLocation(a, c_, 0, g), k) for a, c_ in before[c.name]] for c in pins}
    want = {n: [(w.i, w.j) for w in ws] for n, ws in want.items()}
    pinsBefore = [tuple(xyz) for xyz in b.getPinCoordinates()]
    ctx.check("precondition: getPinCoordinates lists the clad sites", len(pinsBefore) == npins)

    b.rotate(k * math.pi / 3.0)

    for c in pins:
        ctx.check("%s keeps its %d sites" % (c.name, npins), len(c.spatialLocator) == npins)
        for m, loc in enumerate(c.spatialLocator):
            wi, wj = want[c.name][m]
            if ctx.canary and c is clad and m == 1 and npins == 2:
                wi = wi + ITE(AND(i2 == 3, j2 == -2), 1, 0)
            ctx.check("%s site %d is its old site rotated by %d deg, once" % (c.name, m, 60 * k),
                      AND(loc.i == wi, loc.j == wj))
            ctx.check("%s site %d: still on the block's grid" % (c.name, m), loc.grid is g)
    # the block-level view of the pins (what pin-wise data is indexed by): coordinates rotated by k*60 degrees
    pinsAfter = b.getPinCoordinates()
    ctx.check("getPinCoordinates keeps the number of pins", len(pinsAfter) == npins)
    for m in (((1,) if coords else ()) if npins == 2 else COORD_PINS):
        x, y, z = pinsBefore[m]
        wx, wy = rot(ctx, x, y, k)
        if ctx.canary and m == 1 and npins != 2:
            wx = wx + pp * ITE(cladOd > 1.19, 1, 0)
        sc = abs(x) + abs(y) + pp
        ctx.check_close("pin %d of getPinCoordinates: x rotated by %d deg" % (m, 60 * k), pinsAfter[m][0], wx, scale=sc)
        ctx.check_close("pin %d of getPinCoordinates: y rotated by %d deg" % (m, 60 * k), pinsAfter[m][1], wy, scale=sc)
        ctx.check_close("pin %d of getPinCoordinates: z kept" % m, pinsAfter[m][2], z, scale=1.0)


COORD_PINS = (1, 2, 6)   # lattice made by armi: pins whose coordinates are compared (the sites of ALL are compared)


@harness("C08", bounds="list / array of 6 symbolic entries, pivot position in -7..7", stubs=STUBS,
         instances={"quick": [dict(pos=p) for p in range(-7, 8)]})
def pivot_is_a_cyclic_shift(ctx, pos):
    xs = [ctx.real("x%d" % m, -1e3, 1e3) for m in range(6)]
    out = iterables.pivot(list(xs), pos)
    arr = iterables.pivot(np.array(xs, dtype=object if ctx.mode == "sym" else float), pos)
    p = pos if -6 <= pos <= 6 else (6 if pos > 0 else -6)  # slicing saturates outside the list
    for m in range(6):
        want = xs[(m + p) % 6]
        if ctx.canary and m == 2:
            want = want + ITE(xs[0] > 999, 1.0, 0.0)
        ctx.check_close("list entry %d" % m, out[m], want, scale=1e3)
        ctx.check_close("array entry %d" % m, arr[m], want, scale=1e3)
    ctx.check("length kept", len(out) == 6 and len(arr) == 6)
