"""C19 (material-law half): every library material has a finite expansion law and a positive density over its
stated temperature range.  The REAL correlation code of each class in armi.materials runs on a symbolic temperature.

Property text: "Every library material can be instantiated ... and has finite positive density and finite expansion
at every temperature in its stated range."  (The identifier-encoder half of C19 lives in another file.)
"""
import importlib
import math
import pkgutil
import sys

from symx.core import AND, NOT, ITE, Abort, is_sym
from symx.engine import harness
from symx import shims

import armi.materials as matpkg
import armi.utils.units as unitsmod
from armi.materials import material as matmod

# ---------------------------------------------------------------------------------------------------------
# shims: every module of the material library gets the proxy-aware math / numpy / interp stand-ins (identity on
# plain numbers).  exp / log / fractional powers stay unsupported; they are detected at run time and listed.

_np = sys.modules["numpy"]
_PATCHED = []
for _mi in pkgutil.walk_packages(matpkg.__path__, matpkg.__name__ + "."):
    if "test" in _mi.name:
        continue
    _m = importlib.import_module(_mi.name)
    _names = {}
    if getattr(_m, "math", None) is math:
        _names["math"] = shims.math_shim
    if getattr(_m, "np", None) is _np:
        _names["np"] = shims.np_shim
    if getattr(_m, "interp", None) is _np.interp:
        _names["interp"] = shims.np_shim.interp
    if _names:
        shims.patch(_m, **_names)
        _PATCHED.append("%s.{%s}" % (_mi.name.split(".")[-1], ",".join(sorted(_names))))
shims.patch(unitsmod, float=shims.float_shim)

STUBS = ["armi.utils.units.float -> identity on proxies (getTk/getTc call float())",
         "armi.materials.*: math -> shim with algebraic sqrt, np -> object-array aware numpy shim, numpy.interp -> "
         "forking piecewise-linear interpolation; applied to: " + " ".join(_PATCHED)]

# ---------------------------------------------------------------------------------------------------------
# the material library, read at import

ABSTRACT = (matmod.Material, matmod.Fluid, matmod.SimpleSolid, matmod.FuelMaterial)
# placeholders that have no density of their own by design
BY_DESIGN_EMPTY = {"Void": "vacuum: zero density by definition",
                   "Custom": "user-defined composition: density comes from the input, not from the class",
                   "_Mixture": "homogenised mixture placeholder: density comes from its constituents"}

# when a class states no range at all (degrees C): room temperature to a typical operating range
DEFAULT_WINDOW_C = (20.0, 600.0)
DEFAULT_WINDOW_C_THOROUGH = (0.0, 1200.0)
EXP_KEYS = ("linear expansion percent", "linear expansion")
RHO_KEYS = ("density", "pseudoDensity")
EDGE = 1e-6   # the SYMBOLIC temperature approaches the two end points of a range to within EDGE*(hi-lo): what a law
#               does AT an end point depends on float rounding (sodium's range ends exactly at a square-root branch
#               point), which reals do not model; the end points themselves are evaluated on plain floats
#               (check_spot_values)


def _discover():
    found, skipped = {}, {}
    for cls in matpkg.iterAllMaterialClassesInNamespace(matpkg):
        name = cls.__name__
        if cls in ABSTRACT:
            continue
        if name in BY_DESIGN_EMPTY:
            skipped[name] = BY_DESIGN_EMPTY[name]
            continue
        try:
            m = cls()
        except Exception as e:  # noqa: cannot instantiate = would be a C19 finding of its own; listed in every run
            skipped[name] = "CANNOT BE INSTANTIATED: %r" % (e,)
            continue
        try:
            m.pseudoDensity(Tk=600.0)
        except NotImplementedError as e:
            skipped[name] = "abstract base (pseudoDensity raises NotImplementedError: %s)" % (e,)
            continue
        except Exception:  # noqa: anything else is for the harness to report
            pass
        found[name] = cls
    return dict(sorted(found.items())), skipped


MATERIALS, SKIPPED = _discover()


def _window(cls, keys):
    """(lo, hi, key) in Celsius of the first stated range among keys, else None."""
    pv = cls.propertyValidTemperature or {}
    for k in keys:
        if k in pv:
            (lo, hi), unit = pv[k]
            off = 273.15 if unit.strip().upper().startswith("K") else 0.0
            return float(lo) - off, float(hi) - off, k
    return None


def windows(cls, default):
    e = _window(cls, EXP_KEYS)
    r = _window(cls, RHO_KEYS)
    # a solid's density is derived from its expansion law and a fluid has no expansion law: share the stated range
    e2 = e or r or tuple(default) + ("no stated range: default window",)
    r2 = r or e or tuple(default) + ("no stated range: default window",)
    return e2, r2


# which quantity of which material the proxies could not pass (filled by the symbolic runs; the concrete replays,
# which come later in the same process, then skip the same obligations so that both kinds of run stay aligned)
UNSUPPORTED = {}

# ---------------------------------------------------------------------------------------------------------
# Candidate genuine defects (see report): each stays visible in the notes of every run and is guarded by a flag so
# that the check is green on the unchanged tree.  Set a flag to False to see the violation.
#
# (1) pseudoDensity() is zero at every temperature: Material.__init__ sets the *instance* attribute refDens = 0.0
#     and these classes never assign it (Uranium assigns refDens = 19.07 as a *class* attribute, which the instance
#     attribute shadows).  A component made of such a material is created with all number densities equal to zero.
KNOWN_DEFECT_zero_pseudo_density = False  # recorded in known_findings.jsonl
ZERO_PSEUDO_DENSITY = ("Concrete", "Cu", "Uranium", "ZnO")
# (2) density() of UThZr is zero at every temperature (refDens never assigned; only pseudoDensity is overridden).
KNOWN_DEFECT_zero_density = False  # recorded in known_findings.jsonl
ZERO_DENSITY = ("UThZr",)
# (3) Air.pseudoDensity(Tc=...) always raises ValueError: it converts to Kelvin and then calls getTk(Tc, Tk) again
#     with both arguments set.  (Tk=... works, which is how components call it.)
KNOWN_DEFECT_air_celsius = False  # repaired in /repo (fix: 3ea0111)
CELSIUS_CALL_RAISES = ("Air",)
# (4) Sulfur's default mass fractions sum to 1.0018: S36 is entered as 0.002 (natural: 0.0002; with that value the
#     four fractions sum to exactly 1).
KNOWN_DEFECT_sulfur_mass_fractions = False  # recorded in known_findings.jsonl
MASS_FRACTIONS_OFF = {"Sulfur": 1.0018}
# (5) Potassium defines no composition at all (no setDefaultMassFracs): a component made of it has a positive density
#     and no nuclides.
KNOWN_DEFECT_potassium_has_no_composition = False  # recorded in known_findings.jsonl
NO_COMPOSITION = ("Potassium",)

# "mass fractions summing to one within data precision": the compositions are entered with 4 to 9 decimals; 1e-5 is
# armi's own acceptance limit for a user-entered mass-fraction vector (CustomIsotopic._initializeMassFracs), and the
# unchanged library is within 1.0e-6 (MOX, six-decimal data) apart from the two recorded above.
MASS_FRACTION_SUM_TOL = 1e-5


def check_composition(ctx, mat, m):
    """Concrete obligations on the default composition of the instance (finite data, no symbolic input)."""
    from armi.nucDirectory import nuclideBases

    mf = dict(m.massFrac)
    unknown = sorted(n for n in mf if n not in nuclideBases.byName)
    ctx.check("the composition refers only to known nuclides" + ("" if not unknown else ": %s" % unknown), not unknown)
    bad = sorted(n for n, v in mf.items() if not (0.0 <= v <= 1.0))
    ctx.check("every mass fraction lies in [0, 1]" + ("" if not bad else ": %s" % bad), not bad)
    total = sum(mf.values())
    if KNOWN_DEFECT_potassium_has_no_composition and mat in NO_COMPOSITION:
        ctx.note("KNOWN_DEFECT_potassium_has_no_composition: %s().massFrac is empty" % mat)
        ctx.check("known defect: the material has no composition (must have one summing to 1)", not mf)
        return
    if KNOWN_DEFECT_sulfur_mass_fractions and mat in MASS_FRACTIONS_OFF:
        ctx.note("KNOWN_DEFECT_sulfur_mass_fractions: %s mass fractions sum to %r" % (mat, total))
        ctx.check("known defect: the mass fractions sum to %r (must be 1)" % MASS_FRACTIONS_OFF[mat],
                  abs(total - MASS_FRACTIONS_OFF[mat]) <= MASS_FRACTION_SUM_TOL)
        return
    ok = abs(total - 1.0) <= MASS_FRACTION_SUM_TOL
    ctx.check("the default mass fractions sum to one within 1e-5" + ("" if ok else ": %s sums to %r" % (mat, total)), ok)


# (6) Sodium.pseudoDensity / density return a COMPLEX number exactly at the upper end of the stated density range when
#     the temperature is given in Celsius: the range ends at the critical temperature (2230.55 C = 2503.7 K), where
#     1 - (Tc + 273.15) / 2503.7 is -2.2e-16 in floating point, and its square root (** 0.5) is complex.  Reproduction:
#     armi.materials.Sodium().pseudoDensity(Tc=2230.55) == (0.219+3.1e-09j)   (Tk=2503.7 gives 0.219).
#     (Tk=2503.7 gives 0.219; Tk=2230.55 + 273.15, one ulp higher, is complex again.)  Reported by an independent
#     engineer on the unchanged tree; with the flag set a complex value with a positive real part and a negligible
#     imaginary part is tolerated at that one temperature; every other spot value of Sodium is live.
KNOWN_DEFECT_sodium_complex_at_upper_end = False  # repaired in /repo (fix: 4116f8a)
COMPLEX_AT = {("Sodium", "pseudoDensity", "upper end"), ("Sodium", "density", "upper end")}


def _stated(cls, keys, default):
    """((lo, hi), unit, key) of the first stated range among keys as the class states it (no conversion)."""
    pv = cls.propertyValidTemperature or {}
    for k in keys:
        if k in pv:
            (lo, hi), unit = pv[k]
            return (float(lo), float(hi)), ("K" if unit.strip().upper().startswith("K") else "C"), k
    return None


def spot_temperatures(cls, keys, other, default):
    """Plain temperatures AT which the law is evaluated: both end points of the stated range and its middle, and 0 in
    the stated unit and 0 C when they lie in the closed range.  Returns [(where, Tc, Tk)] with the stated-unit value
    exact and the other one converted."""
    st = _stated(cls, keys, default) or _stated(cls, other, default)
    if st is None:
        # the class states no range: the default window is this harness's choice, not a statement of the material
        # (SaturatedSteam has no density above the critical point, inside the thorough window), so nothing is
        # claimed about its end points
        return [], "C"
    (lo, hi), unit, _ = st
    pts = [("lower end", lo), ("upper end", hi), ("middle", 0.5 * (lo + hi))]
    zeros = [0.0] + ([273.15] if unit == "K" else [])
    pts += [("zero Celsius" if (z != 0.0 or unit == "C") else "zero Kelvin", z) for z in zeros if lo < z < hi]
    out = []
    for where, t in pts:
        out.append((where, t - 273.15, t) if unit == "K" else (where, t, t + 273.15))
    return out, unit


def check_spot_values(ctx, mat, cls, default):
    """"finite positive density and finite expansion at EVERY temperature in its stated range": the end points belong
    to the range.  The symbolic temperature above covers the laws the proxies can pass (polynomials, tables, square
    roots); here every law -- those with exp / log / fractional powers included -- is evaluated on plain floats at
    both end points and the middle of the stated range, once with the temperature given in Celsius and once in
    Kelvin.  All values are concrete: the same in the symbolic runs and in the replays."""
    import numbers

    laws = [("linearExpansionPercent", EXP_KEYS, RHO_KEYS, False), ("linearExpansion", EXP_KEYS, RHO_KEYS, False),
            ("pseudoDensity", RHO_KEYS, EXP_KEYS, True), ("density", RHO_KEYS, EXP_KEYS, True)]
    for law, keys, other, positive in laws:
        pts, unit = spot_temperatures(cls, keys, other, default)
        if not pts:
            continue
        bad, notPositive, defined = [], [], True
        for where, tc, tk in pts:
            for style, kw in (("C", dict(Tc=tc)), ("K", dict(Tk=tk))):
                m = cls()
                call = "%s(%s=%r) [%s of the range, given in %s]" % (law, "Tc" if style == "C" else "Tk",
                                                                    kw["Tc" if style == "C" else "Tk"], where, style)
                try:
                    v = getattr(m, law)(**kw)
                except NotImplementedError:
                    defined = False           # the class does not define this law
                    break
                except Exception as e:  # noqa: any refusal inside the stated range is the finding
                    bad.append("%s raised %r" % (call, e))
                    continue
                if (KNOWN_DEFECT_sodium_complex_at_upper_end and (mat, law, where) in COMPLEX_AT
                        and isinstance(v, complex) and abs(v.imag) < 1e-6 and v.real > 0.0):
                    ctx.note("KNOWN_DEFECT_sodium_complex_at_upper_end: %s returns %r" % (call, v))
                    continue
                if isinstance(v, bool) or not isinstance(v, numbers.Real) or not math.isfinite(float(v)):
                    bad.append("%s returned %r" % (call, v))
                    continue
                zero = (law == "pseudoDensity" and mat in ZERO_PSEUDO_DENSITY) or (law == "density" and mat in ZERO_DENSITY)
                if positive and zero:
                    if float(v) != 0.0:       # recorded finding: identically zero; anything else is new
                        notPositive.append("%s is recorded as 0, returned %r" % (call, v))
                elif positive and not float(v) > 0.0:
                    notPositive.append("%s returned %r" % (call, v))
                elif law == "linearExpansionPercent" and not -100.0 < float(v) < 100.0:
                    notPositive.append("%s returned %r" % (call, v))
            if not defined:
                break
        if not defined:
            continue
        ctx.check("spot values: %s is a finite real number at both end points and the middle of its stated range, "
                  "temperature given in C and in K" % law + ("" if not bad else ": " + "; ".join(bad[:3])), not bad)
        if positive:
            ctx.check("spot values: %s is positive there (identically zero where recorded)" % law
                      + ("" if not notPositive else ": " + "; ".join(notPositive[:3])), not notPositive)
        elif law == "linearExpansionPercent":
            ctx.check("spot values: -100 < linearExpansionPercent < 100 there"
                      + ("" if not notPositive else ": " + "; ".join(notPositive[:3])), not notPositive)


def _finite(x):
    """A proxy is a real number by construction (division by zero / domain errors surface as exceptions, which the
    engine replays on plain numbers); a plain float is tested."""
    if is_sym(x):
        return True
    return x is not None and math.isfinite(float(x))


def _call(ctx, mat, what, fn):
    """Run one real correlation; returns (value, supported)."""
    if (mat, what) in UNSUPPORTED:
        if UNSUPPORTED[(mat, what)] is not None:
            ctx.note("unsupported %s.%s: %s" % (mat, what, UNSUPPORTED[(mat, what)]))
        return None, False
    try:
        return fn(), True
    except NotImplementedError:
        UNSUPPORTED[(mat, what)] = None     # the class does not define this law (same on plain numbers)
        return None, False
    except Abort as e:
        why = e.reason
    except TypeError as e:
        if not any(is_sym(v) for v in ctx.inputs.values()):
            raise
        why = "TypeError %s" % (e,)
    UNSUPPORTED[(mat, what)] = why
    ctx.note("unsupported %s.%s: %s" % (mat, what, why))
    return None, False


def _instances(default):
    return [dict(mat=n, default=list(default)) for n in MATERIALS]


@harness("C19", bounds="one instance per concrete class of armi.materials (list read at import; abstract bases and "
                       "Void/Custom/_Mixture placeholders are listed in the notes); temperature symbolic over the "
                       "interior of the class's stated range for the property (propertyValidTemperature; the "
                       "expansion range is used for a density without own range and vice versa; a default window "
                       "of 20..600 C, thorough 0..1200 C, when the class states none); plus plain-float "
                       "evaluation of every law AT both end points and the middle of a STATED range (and at 0 C / "
                       "0 K when inside), temperature given in Celsius and in Kelvin",
         stubs=STUBS, qtimeout_ms=20000, max_paths=600,
         instances={"quick": _instances(DEFAULT_WINDOW_C), "thorough": _instances(DEFAULT_WINDOW_C_THOROUGH)})
def material_law_is_finite_and_density_positive(ctx, mat, default):
    cls = MATERIALS[mat]
    m = cls()                               # "every library material can be instantiated"
    (elo, ehi, ekey), (rlo, rhi, rkey) = windows(cls, default)
    de, dr = EDGE * (ehi - elo), EDGE * (rhi - rlo)
    Te = ctx.real("T_expansion", elo + de, ehi - de)
    if (elo, ehi) == (rlo, rhi):
        Tr = Te
    else:
        Tr = ctx.real("T_density", rlo + dr, rhi - dr)
    for name, why in sorted(SKIPPED.items()):
        ctx.note("no material law of its own: %s (%s)" % (name, why))
    check_composition(ctx, mat, m)          # "... refers only to known nuclides with mass fractions summing to one"
    check_spot_values(ctx, mat, cls, default)   # "... at every temperature in its stated range": the end points too
    covered = []
    canary = [ctx.canary]

    def floor(T, lo, hi, value):
        """Lower bound that the quantity must exceed; the canary raises it in a narrow temperature band."""
        if canary[0]:
            canary[0] = False
            band = AND(T > lo + 0.70 * (hi - lo), T < lo + 0.71 * (hi - lo))
            return ITE(band, value + 1, 0)
        return 0

    celsius = not (KNOWN_DEFECT_air_celsius and mat in CELSIUS_CALL_RAISES)
    if not celsius:
        ctx.note("KNOWN_DEFECT_air_celsius: %s.pseudoDensity(Tc=...) raises ValueError; called with Tk only" % mat)

    # ---- average expansion (the law that sets hot dimensions and densities)
    L, ok = _call(ctx, mat, "linearExpansionPercent", lambda: m.linearExpansionPercent(Tc=Te))
    if ok:
        covered.append("linearExpansionPercent")
        ctx.check("linearExpansionPercent is finite on [%g, %g] C (%s)" % (elo, ehi, ekey), _finite(L))
        ctx.check("100 + linearExpansionPercent > 0", 100 + L > floor(Te, elo, ehi, 100 + L))
        ctx.check("linearExpansionPercent < 100", L < 100)
        Lk, okk = _call(ctx, mat, "linearExpansionPercent(Tk)", lambda: m.linearExpansionPercent(Tk=Te + 273.15))
        if okk:
            ctx.check_close("same expansion whether the temperature is given in K or in C", Lk, L, scale=abs(L) + 1e-3)

    # ---- instantaneous coefficient, where the class defines one
    a, ok = _call(ctx, mat, "linearExpansion", lambda: m.linearExpansion(Tc=Te))
    if ok:
        covered.append("linearExpansion")
        ctx.check("linearExpansion is finite", _finite(a))

    # ---- 2-D (pseudo) density: the one components use to set number densities
    if celsius:
        rho2, ok = _call(ctx, mat, "pseudoDensity", lambda: m.pseudoDensity(Tc=Tr))
    else:
        rho2, ok = _call(ctx, mat, "pseudoDensity", lambda: m.pseudoDensity(Tk=Tr + 273.15))
    if ok:
        covered.append("pseudoDensity")
        ctx.check("pseudoDensity is finite on [%g, %g] C (%s)" % (rlo, rhi, rkey), _finite(rho2))
        if KNOWN_DEFECT_zero_pseudo_density and mat in ZERO_PSEUDO_DENSITY:
            ctx.note("KNOWN_DEFECT_zero_pseudo_density: %s.pseudoDensity is 0 at every temperature" % mat)
            ctx.check("pseudoDensity >= 0 (known defect: it is zero, must be > 0)", rho2 >= 0)
        else:
            ctx.check("pseudoDensity > 0", rho2 > floor(Tr, rlo, rhi, rho2))
        if celsius:
            rk, okk = _call(ctx, mat, "pseudoDensity(Tk)", lambda: m.pseudoDensity(Tk=Tr + 273.15))
            if okk:
                ctx.check_close("same pseudoDensity whether the temperature is given in K or in C", rk, rho2,
                                scale=abs(rho2) + 1e-6)

    # ---- 3-D density, on a material that belongs to no component (its documented use)
    m3 = cls()
    if celsius:
        rho3, ok = _call(ctx, mat, "density", lambda: m3.density(Tc=Tr))
    else:
        rho3, ok = _call(ctx, mat, "density", lambda: m3.density(Tk=Tr + 273.15))
    if ok:
        covered.append("density")
        ctx.check("density is finite", _finite(rho3))
        if KNOWN_DEFECT_zero_density and mat in ZERO_DENSITY:
            ctx.note("KNOWN_DEFECT_zero_density: %s.density is 0 at every temperature" % mat)
            ctx.check("density >= 0 (known defect: it is zero, must be > 0)", rho3 >= 0)
        else:
            ctx.check("density > 0", rho3 > floor(Tr, rlo, rhi, rho3))

    # always present, so that an instance whose laws are all outside the technique still has a live canary
    inside = AND(Te > elo, Te < ehi)
    if canary[0]:
        inside = AND(inside, NOT(AND(Te > elo + 0.70 * (ehi - elo), Te < elo + 0.71 * (ehi - elo))))
    ctx.check("temperature inside the stated range", inside)
    ctx.note("covered %s: %s" % (mat, ", ".join(covered) or "nothing"))
