"""C18 (lattice-map index arithmetic): text position (line, column) <-> cell indices (i, j) for every map geometry."""
from symx.core import AND, OR, NOT, IMPLIES, IFF, ITE, Sym
from symx.engine import harness

from armi.utils import asciimaps
from armi.reactor.grids import HexGrid, IndexLocation
import armi.reactor.grids.hexagonal as hexmod
import armi.reactor.grids.structuredGrid as sgmod
import armi.utils.hexagon as hexagon
from symx import shims

shims.patch(sgmod, np=shims.np_shim)
shims.patch(hexmod, np=shims.np_shim)
shims.patch(hexagon, math=shims.math_shim, int=shims.int_shim)

STUBS = ["map objects are created empty and their size attributes (_ijMax, _asciiLinesOffCorner) set to symbolic "
         "integers; text parsing/printing is not executed"]

KINDS = {
    "cartesian": asciimaps.AsciiMapCartesian,
    "hexThirdFlatsUp": asciimaps.AsciiMapHexThirdFlatsUp,
    "hexFullFlatsUp": asciimaps.AsciiMapHexFullFlatsUp,
    "hexFullTipsUp": asciimaps.AsciiMapHexFullTipsUp,
}


def mkmap(ctx, kind):
    m = KINDS[kind]()
    if kind in ("hexFullFlatsUp", "hexFullTipsUp"):
        m._ijMax = ctx.int("ijMax", 0)
    if kind == "hexFullFlatsUp":
        m._asciiLinesOffCorner = ctx.int("offCorner", 0)
        ctx.assume(m._asciiLinesOffCorner <= m._ijMax)
    return m


@harness("C18", bounds="all lines, columns >= 0 (unbounded Int), all map sizes _ijMax >= 0 and corner cut-offs; the four "
                       "map geometries", stubs=STUBS, instances={"quick": [dict(kind=k) for k in KINDS]})
def two_text_positions_never_name_the_same_cell(ctx, kind):
    m = mkmap(ctx, kind)
    l1, c1, l2, c2 = (ctx.int(n, 0) for n in ("l1", "c1", "l2", "c2"))
    a = m._getIJFromColRow(c1, l1)
    b = m._getIJFromColRow(c2, l2)
    samePos = AND(l1 == l2, c1 == c2)
    if ctx.canary:
        samePos = OR(samePos, AND(l1 == 4, c1 == 1, l2 == 5, c2 == 1))
    ctx.check("(line, col) -> (i, j) is injective", IFF(AND(a[0] == b[0], a[1] == b[1]), samePos))
    if kind != "cartesian":
        base = m._getIJBaseByAsciiLine(l1)
        viaBase = m._getIJFromColAndBase(c1, *base)
        ctx.check("writer (col,row) lookup agrees with the reader's base + column computation",
                  AND(viaBase[0] == a[0], viaBase[1] == a[1]))
        nxt = m._getIJFromColRow(c1 + 1, l1)
        if kind == "hexFullTipsUp":
            ctx.check("moving one column right follows the +i axis", AND(nxt[0] == a[0] + 1, nxt[1] == a[1] - 1))
        else:
            ctx.check("moving one column right: i += 2, j -= 1", AND(nxt[0] == a[0] + 2, nxt[1] == a[1] - 1))
    else:
        ctx.check("Cartesian: i, j are column and row", AND(a[0] == c1, a[1] == l1))


@harness("C18", bounds="third-core flats-up map: all lines/columns >= 0 and all integer cells (unbounded)", stubs=STUBS)
def third_core_map_covers_exactly_the_first_third(ctx):
    m = asciimaps.AsciiMapHexThirdFlatsUp()
    l, c = ctx.int("l", 0), ctx.int("c", 0)
    i, j = m._getIJFromColRow(c, l)
    # the grid's own first-third test (shown in C08 to agree with the geometry) is the reference for "the modelled third"
    g = HexGrid.fromPitch(1.0, numRings=1, symmetry="third periodic")
    inThird = g.isInFirstThird(IndexLocation(i, j, 0, g))
    ctx.check("every text position is a cell of the modelled third (as the grid defines it)", inThird)
    ctx.check("the line number is the cell's height above the 0-degree line", i + 2 * j == l)
    # conversely: every cell of the closed third is drawn at exactly one text position
    ci, cj = ctx.int("ci"), ctx.int("cj")
    ctx.assume(g.isInFirstThird(IndexLocation(ci, cj, 0, g)))
    line = ci + 2 * cj
    bi, bj = m._getIJBaseByAsciiLine(line)
    num = (2 * ci + cj) - (2 * bi + bj)
    col, rem = divmod(num, 3)
    ok = AND(rem == 0, col >= 0)
    if ctx.canary:
        ok = AND(ok, NOT(AND(ci == 5, cj == 7)))
    ctx.check("cell lies on the column raster of its line", ok)
    if bool(ok):
        back = m._getIJFromColRow(col, line)
        ctx.check("the position found reads back to the cell", AND(back[0] == ci, back[1] == cj))


@harness("C18", bounds="full-core maps: every cell of the hexagon of radius _ijMax is drawn (tips-up: all sizes; flats-up: "
                       "without corner cut-off), symbolic cell and size", stubs=STUBS,
         instances={"quick": [dict(kind="hexFullTipsUp"), dict(kind="hexFullFlatsUp")]})
def full_core_map_reaches_every_cell_of_the_hexagon(ctx, kind):
    m = KINDS[kind]()
    s = ctx.int("ijMax", 0)
    m._ijMax = s
    m._asciiLinesOffCorner = 0
    ci, cj = ctx.int("ci"), ctx.int("cj")
    ctx.assume(AND(abs(ci) <= s, abs(cj) <= s, abs(ci + cj) <= s))
    if kind == "hexFullTipsUp":
        # i = -s + c, j... solve from the map's own base: line from j-extent, column from i
        bi0, bj0 = m._getIJBaseByAsciiLine(0)
        line = s - (ci + cj)           # rows run from the top (i+j = s) to the bottom (i+j = -s)
        bi, bj = m._getIJBaseByAsciiLine(line)
        col = -cj - bi
    else:
        line = ci + 2 * cj + 2 * s     # rows counted from the bottom (y = -2s)
        bi, bj = m._getIJBaseByAsciiLine(line)
        num = (2 * ci + cj) - (2 * bi + bj)
        col, rem = divmod(num, 3)
        ctx.check("cell lies on the column raster of its line", rem == 0)
    ok = AND(line >= 0, col >= 0)
    if ctx.canary:
        ok = AND(ok, NOT(AND(ci == 2, cj == -1, s == 3)))
    ctx.check("cell of the hexagon has a non-negative text position", ok)
    back = m._getIJFromColRow(col, line)
    ctx.check("the position reads back to the cell", AND(back[0] == ci, back[1] == cj))


def in_hexagon(i, j, s):
    return AND(abs(i) <= s, abs(j) <= s, abs(i + j) <= s)


@harness("C18", bounds="full-core flats-up map: all map sizes _ijMax >= 1, all corner cut-offs 0 <= off <= _ijMax, all "
                       "text lines of the map (symbolic, unbounded)", stubs=STUBS)
def full_flats_up_line_starts_at_the_leftmost_cell_of_its_row(ctx):
    m = asciimaps.AsciiMapHexFullFlatsUp()
    s = ctx.int("ijMax", 1)
    off = ctx.int("offCorner", 0)
    ctx.assume(off <= s)
    m._ijMax, m._asciiLinesOffCorner = s, off
    l = ctx.int("l", 0)
    ctx.assume(l + off <= 4 * s)                 # the map has 4*ijMax + 1 rows before corners are cut
    i, j = m._getIJBaseByAsciiLine(l)
    # geometry of a flats-up hexagon of radius s: rows are lines of constant i + 2j, counted from the bottom (-2s)
    row = i + 2 * j
    want = (l + off) - 2 * s
    if ctx.canary:
        want = want + ITE(AND(s == 3, off == 1, l == 4), 1, 0)
    ctx.check_eq("text line l (after the cut-off) is the row i + 2j = l + off - 2*ijMax", row, want)
    # up to the upper-left corner (row <= ijMax) a line starts at the leftmost cell of the hexagon on that row; above
    # it the text keeps starting under the same two columns (placeholders fill the cut-away corner)
    below = l + off <= 3 * s
    ctx.check("up to the upper-left corner the first cell of a line lies inside the hexagon",
              IMPLIES(below, in_hexagon(i, j, s)))
    ctx.check("... and is the leftmost one: two columns further left is outside",
              IMPLIES(below, NOT(in_hexagon(i - 2, j + 1, s))))
    ctx.check("above the corner the line still starts in one of the two leftmost columns",
              IMPLIES(NOT(below), OR(i == -s, i == -s + 1)))
