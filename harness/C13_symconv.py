"""C13: third-core -> full-core growth and edge-assembly add/remove multiply and restore the model."""
from symx.core import AND, OR, NOT, ITE, CLOSE, Sym
from symx.engine import harness
from symx import shims

import armi.reactor.composites as compmod
import armi.reactor.components.component as cmod
import armi.reactor.blocks as blkmod
import armi.reactor.assemblies as asmmod
import armi.reactor.converters.geometryConverters as gc
import armi.reactor.grids.hexagonal as hexmod
import armi.reactor.grids.structuredGrid as sgmod
from armi.reactor import geometry, grids
from armi.settings import Settings

from harness import _util_C13 as U

shims.patch(compmod, np=shims.np_shim)
shims.patch(cmod, np=shims.np_shim, float=shims.float_shim)
shims.patch(blkmod, np=shims.np_shim)
shims.patch(asmmod, np=shims.np_shim)
shims.patch(gc, np=shims.np_shim)
shims.patch(sgmod, np=shims.np_shim)

STUBS = ["composites.np / component.np / blocks.np / assemblies.np / geometryConverters.np / structuredGrid.np -> "
         "object-array aware numpy shim", "component.float -> identity on proxies"]

THIRD = geometry.SymmetryType(geometry.DomainType.THIRD_CORE, geometry.BoundaryType.PERIODIC)
FULL = geometry.SymmetryType(geometry.DomainType.FULL_CORE, geometry.BoundaryType.NO_SYMMETRY)

# guarded obligations (candidate genuine defects, see report)
KNOWN_DEFECT_restore_without_centre = True
KNOWN_DEFECT_convert_drops_edge_assemblies = True
KNOWN_DEFECT_centre_not_scaled_after_noop_addEdge = True

LAYOUTS = {
    "c+3": [(0, 0), (1, 0), (2, -1), (1, 1)],          # centre, ring 2, 0-degree line, interior of ring 3
    "c+1": [(0, 0), (2, 0)],
    "holes": [(0, 0), (2, -1), (0, 2)],                # ring 2 empty
    "nocentre": [(1, 0), (1, 1)],
    "ring3": [(0, 0), (1, 0), (0, 1), (2, -1), (2, 0), (1, 1), (0, 2)],  # complete third of 3 rings
}
SCALARS = ("power", "powerGenerated", "kgHM")
LISTS = ("adjMgFlux",)           # stays a python list
ARRAYS = ("mgFlux",)             # the parameter setter turns it into a numpy array
NG = 2


def build(ctx, cells, nblocks, symmetry="third periodic", numRings=3):
    """Mini core with symbolic block heights, number densities and volume-integrated block parameters."""
    r, core, _ = U.mk_reactor(symmetry, numRings=numRings)
    S = {}
    asms = []
    for ai, (i, j) in enumerate(cells):
        hs = [ctx.real("h_%d_%d" % (ai, k), 1.0, 400.0) for k in range(nblocks)]
        a = U.mk_assembly(("fuel",) * nblocks, heights=hs)
        core.add(a, core.spatialGrid[i, j, 0])
        S[ai] = dict(h=hs, n=U.inject_densities(ctx, a, "%d" % ai), p={})
        asms.append(a)
    for ai, a in enumerate(asms):
        for k, b in enumerate(a):
            for pn in SCALARS:
                v = ctx.real("%s_%d_%d" % (pn, ai, k), 0.0, 1e9)
                b.p[pn] = v
                S[ai]["p"][(k, pn)] = v
            for pn in LISTS + ARRAYS:
                v = [ctx.real("%s_%d_%d_g%d" % (pn, ai, k, g), 0.0, 1e9) for g in range(NG)]
                b.p[pn] = list(v)
                S[ai]["p"][(k, pn)] = v
    return r, core, asms, S


def totals(core):
    """API-level totals of the core model: nuclide masses, volume, sums of volume-integrated block parameters."""
    t = {}
    for nuc in U.NUCS:
        t["mass " + nuc] = core.getMass(nuc)
    t["volume"] = sum(b.getVolume() for a in core for b in a)
    for pn in SCALARS:
        t[pn] = core.getTotalBlockParam(pn)
    for pn in LISTS + ARRAYS:
        for g in range(NG):
            t["%s[%d]" % (pn, g)] = sum(b.p[pn][g] for a in core for b in a)
    return t


def snapshot(core):
    """Observable state: assemblies (identity) by cell, names, per-block parameters, lookup tables."""
    st = dict(cells={}, names={}, blocks={}, params={}, byLabel={}, symmetry=str(core.symmetry))
    for a in core:
        ij = tuple(int(x) for x in a.spatialLocator.indices[:2])
        st["cells"][ij] = a
        st["names"][a.getName()] = a
        for k, b in enumerate(a):
            st["blocks"][b.getName()] = b
            vals = {"height": b.getHeight(), "symFactor": b.getSymmetryFactor()}
            for pn in SCALARS:
                vals[pn] = b.p[pn]
            for pn in LISTS + ARRAYS:
                for g in range(NG):
                    vals["%s[%d]" % (pn, g)] = b.p[pn][g]
            for nuc in U.NUCS:
                vals["N " + nuc] = b.getNumberDensity(nuc)
            st["params"][(ij, k)] = vals
    for ring in range(1, 4):
        for pos in range(1, (6 * (ring - 1) or 1) + 1):
            lab = "%03d-%03d" % (ring, pos)
            st["byLabel"][lab] = core.getAssemblyWithStringLocation(lab)
    return st


def check_lookups_truthful(ctx, core, what):
    """Location and name tables list exactly the assemblies / blocks present."""
    kids = list(core)
    ctx.check("%s: one assembly per location" % what,
              len(set(tuple(a.spatialLocator.indices) for a in kids)) == len(kids))
    cbl = core.childrenByLocator
    ctx.check("%s: childrenByLocator lists exactly the assemblies present" % what,
              len(cbl) == len(kids) and all(cbl.get(a.spatialLocator) is a for a in kids))
    ctx.check("%s: assembliesByName lists exactly the assemblies present" % what,
              len(core.assembliesByName) == len(kids) and
              all(core.assembliesByName.get(a.getName()) is a for a in kids))
    blks = [b for a in kids for b in a]
    ctx.check("%s: blocksByName lists exactly the blocks present" % what,
              len(core.blocksByName) == len(blks) and all(core.blocksByName.get(b.getName()) is b for b in blks))
    for a in kids:
        ctx.check("%s: getAssemblyWithStringLocation / getAssemblyByName find %s" % (what, a.getLocation()),
                  core.getAssemblyWithStringLocation(a.getLocation()) is a and
                  core.getAssemblyByName(a.getName()) is a)


def check_same_state(ctx, core, before, what, canary_key=None):
    """The core is back in the observable state `before` (same objects, places, parameters, lookups)."""
    now = snapshot(core)
    ctx.check("%s: symmetry restored" % what, now["symmetry"] == before["symmetry"])
    ctx.check("%s: same cells occupied" % what, sorted(now["cells"]) == sorted(before["cells"]))
    for ij, a in before["cells"].items():
        ctx.check("%s: the same assembly object sits at %s" % (what, (ij,)), now["cells"].get(ij) is a)
    ctx.check("%s: same assembly names resolve to the same objects" % what,
              sorted(now["names"]) == sorted(before["names"]) and
              all(now["names"][n] is a for n, a in before["names"].items()))
    ctx.check("%s: same block names resolve to the same objects" % what,
              sorted(now["blocks"]) == sorted(before["blocks"]) and
              all(now["blocks"][n] is b for n, b in before["blocks"].items()))
    ctx.check("%s: every location label resolves as before" % what,
              all(now["byLabel"][lab] is a for lab, a in before["byLabel"].items()))
    for key, vals in before["params"].items():
        for pn, old in vals.items():
            got = now["params"][key][pn] if key in now["params"] else None
            if got is None:
                ctx.check("%s: block %s still there" % (what, key), False)
                continue
            if canary_key is not None and (key, pn) == canary_key[:2]:
                old = old * ITE(canary_key[2], 1.01, 1.0)
            ctx.check_close("%s: %s of block %s as before" % (what, pn, key), got, old, scale=abs(old) + 1e-30)


@harness("C13", bounds="third-core mini reactor, 3 rings, hand-made assemblies at enumerated cell sets (with centre, "
                       "0-degree-line cell, holes), 1-2 blocks each; symbolic per block: height [1,400], 4 number "
                       "densities [0,10], 3 scalar + 2 two-group list/array volume-integrated parameters [0,1e9]",
         stubs=STUBS, qtimeout_ms=20000,
         instances={"quick": [dict(layout="c+3", nblocks=1), dict(layout="holes", nblocks=2),
                              dict(layout="c+1", nblocks=1)],
                    "thorough": [dict(layout="c+3", nblocks=2), dict(layout="ring3", nblocks=1),
                                 dict(layout="holes", nblocks=2), dict(layout="c+1", nblocks=3)]})
def third_to_full_multiplies_by_three_and_restores(ctx, layout, nblocks):
    cells = LAYOUTS[layout]
    r, core, asms, S = build(ctx, cells, nblocks)
    before = snapshot(core)
    tot0 = totals(core)
    n0 = len(core)
    hasCentre = (0, 0) in cells
    ctx.check("starts as third core", core.symmetry == THIRD and not core.isFullCore)

    changer = gc.ThirdCoreHexToFullCoreChanger(Settings())
    changer.convert(r)

    # ---- after growing
    ctx.check("full-core symmetry after convert", core.symmetry == FULL and core.isFullCore)
    ctx.check_eq("assembly count = 3 n - 2 [centre present]", len(core), 3 * n0 - (2 if hasCentre else 0))
    check_lookups_truthful(ctx, core, "full")
    now = snapshot(core)
    allNames = [a.getName() for a in core]
    allNums = [a.getNum() for a in core]
    allBlockNames = [b.getName() for a in core for b in a]
    ctx.check("names, serial numbers and block names are unique",
              len(set(allNames)) == len(allNames) and len(set(allNums)) == len(allNums) and
              len(set(allBlockNames)) == len(allBlockNames))
    wantCells = set()
    for ai, (i, j) in enumerate(cells):
        src = asms[ai]
        ctx.check("source assembly %d stays in place" % ai, now["cells"].get((i, j)) is src)
        wantCells.add((i, j))
        if (i, j) == (0, 0):
            continue
        for m in (1, 2):
            img = U.rot120(i, j, m)
            wantCells.add(img)
            cp = now["cells"].get(img)
            ctx.check("cell %s (the %d-degree image of %s) holds an assembly" % ((img,), 120 * m, ((i, j),)),
                      cp is not None)
            if cp is None:
                continue
            ctx.check("... which is a new object with its own blocks and components",
                      all(cp is not s for s in asms) and
                      all(cb is not sb and all(cc is not sc for cc, sc in zip(cb, sb)) for cb, sb in zip(cp, src)))
            ctx.check("... a copy of the source (type, number of blocks)",
                      cp.getType() == src.getType() and len(cp) == len(src))
            for k, (cb, sb) in enumerate(zip(cp, src)):
                ctx.check("... rotated into place by %d degrees" % (120 * m),
                          (cb.p.orientation[2] - sb.p.orientation[2]) % 360 == 120 * m)
                vc, vs = now["params"][(img, k)], now["params"][((i, j), k)]
                for pn in vs:
                    ctx.check_close("... with the source's %s (block %d)" % (pn, k), vc[pn], vs[pn],
                                    scale=abs(vs[pn]) + 1e-30)
    ctx.check("exactly the cells generated by 120-degree rotation are occupied", set(now["cells"]) == wantCells)

    tot1 = totals(core)
    for key, old in tot0.items():
        want = 3 * old
        if ctx.canary and key == "power":
            want = want * ITE(S[0]["h"][0] > 399, 1.01, 1.0)
        ctx.check_close("full-core %s = 3 x third-core value" % key, tot1[key], want, scale=want + 1e-30)
    # the same totals from the input symbols (the centre input is the one-third share of the centre assembly)
    for pn in SCALARS:
        want = 3 * sum(S[ai]["p"][(k, pn)] for ai in S for k in range(nblocks))
        ctx.check_close("full-core %s = 3 x sum of the third-core inputs" % pn, tot1[pn], want, scale=want + 1e-30)
    if hasCentre:
        ci = cells.index((0, 0))
        for k, b in enumerate(asms[ci]):
            ctx.check("centre block is whole in the full core", b.getSymmetryFactor() == 1.0)
            ctx.check_close("centre block power = 3 x its one-third share", b.p.power, 3 * S[ci]["p"][(k, "power")],
                            scale=S[ci]["p"][(k, "power")] + 1e-30)

    # independence of the copies: changing a copy leaves its source alone (and vice versa)
    for ai, (i, j) in enumerate(cells):
        if (i, j) == (0, 0):
            continue
        cp = now["cells"].get(U.rot120(i, j, 1))
        if cp is None:
            continue
        srcN, srcP = asms[ai][0].getNumberDensity("U235"), asms[ai][0].p.power
        cp[0].setNumberDensity("U235", srcN + 1.0)
        cp[0].p.power = srcP + 5.0
        cp[0].p.adjMgFlux[0] = cp[0].p.adjMgFlux[0] + 7.0
        ctx.check_close("copy of assembly %d is independent (density)" % ai, asms[ai][0].getNumberDensity("U235"),
                        srcN, scale=srcN + 1e-30)
        ctx.check_close("... and the copy took the new value", cp[0].getNumberDensity("U235"), srcN + 1.0,
                        scale=srcN + 1.0)
        ctx.check_close("copy of assembly %d is independent (power)" % ai, asms[ai][0].p.power,
                        S[ai]["p"][(0, "power")], scale=S[ai]["p"][(0, "power")] + 1e-30)
        ctx.check_close("copy of assembly %d is independent (list parameter)" % ai, asms[ai][0].p.adjMgFlux[0],
                        S[ai]["p"][(0, "adjMgFlux")][0], scale=S[ai]["p"][(0, "adjMgFlux")][0] + 1e-30)

    # ---- undo
    changer.restorePreviousGeometry(r)
    check_same_state(ctx, core, before, "restored")
    check_lookups_truthful(ctx, core, "restored")
    tot2 = totals(core)
    for key, old in tot0.items():
        ctx.check_close("restored %s = original" % key, tot2[key], old, scale=old + 1e-30)
