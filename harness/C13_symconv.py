"""C13: third-core -> full-core growth and edge-assembly add/remove multiply and restore the model."""
from symx.core import AND, OR, NOT, ITE, CLOSE, Sym
from symx.engine import harness
from symx import shims

import armi.reactor.composites as compmod
import armi.reactor.components.component as cmod
import armi.reactor.blocks as blkmod
import armi.reactor.assemblies as asmmod
import armi.reactor.converters.geometryConverters as gc
import armi.reactor.grids.hexagonal as hexmod
import armi.reactor.grids.structuredGrid as sgmod
from armi.reactor import geometry, grids
from armi.reactor import parameters as armiParameters
from armi.settings import Settings
from armi.settings.fwSettings.globalSettings import CONF_TRACK_ASSEMS

from harness import _util_C13 as U

shims.patch(compmod, np=shims.np_shim)
shims.patch(cmod, np=shims.np_shim, float=shims.float_shim)
shims.patch(blkmod, np=shims.np_shim)
shims.patch(asmmod, np=shims.np_shim)
shims.patch(gc, np=shims.np_shim)
shims.patch(sgmod, np=shims.np_shim)
shims.patch(hexmod, np=shims.np_shim, sqrt=shims.math_shim.sqrt, isclose=shims.math_shim.isclose)

STUBS = ["composites.np / component.np / blocks.np / assemblies.np / geometryConverters.np / structuredGrid.np -> "
         "object-array aware numpy shim", "component.float -> identity on proxies",
         "hexagonal.np / sqrt / isclose -> shims (index-level harness only; identity on plain numbers)",
         "case settings: a default Settings() whose 'trackAssems' entry is the symbolic bool, handed to the real "
         "Core.setOptionsFromCs (the settings validation machinery itself is not run on the proxy)",
         "process-wide armi state: the 'assigned since ...' flags on the parameter DEFINITIONS (which the converters "
         "read to select the parameters to scale) are shared by all reactors of a process; every path is a new case, "
         "so every path starts with armi.reactor.parameters.reset() (armi's own call for 'multiple cases in the same "
         "import'): a parameter counts as 'never assigned' until the path assigns it"]

THIRD = geometry.SymmetryType(geometry.DomainType.THIRD_CORE, geometry.BoundaryType.PERIODIC)
FULL = geometry.SymmetryType(geometry.DomainType.FULL_CORE, geometry.BoundaryType.NO_SYMMETRY)

# Guarded obligations: candidate genuine defects found by these harnesses (set a flag to False to see the violation).
# Plain-Python reproductions (third-core mini reactor from harness/_util_C13.py, power = 100 on every block):
#  restore_without_centre: cells (1,0),(1,1); convert(r); restorePreviousGeometry(r) -> TypeError ('NoneType' object
#    is not iterable: getAssemblyWithStringLocation("001-001") is None).
#  convert_drops_edge_assemblies: cells (0,0),(1,0),(2,-1); EdgeAssemblyChanger().addEdgeAssemblies(core);
#    convert(r); restorePreviousGeometry(r) -> the edge assembly at 003-004 is gone (convert removes edge assemblies,
#    restore only removes what convert added).
#  centre_not_scaled_after_noop_addEdge: cells (0,0),(1,0) (nothing on the 0-degree line); addEdgeAssemblies(core)
#    adds nothing but clears the SINCE_LAST_GEOMETRY_TRANSFORMATION flags; convert(r) then selects no parameter
#    (.since(SINCE_LAST_GEOMETRY_TRANSFORMATION) is empty) and the centre power stays 100: total 400 instead of 600.
#  edge_halves_need_ring3_edge: 5 rings, cells (0,0),(1,0),(4,-2); addEdgeAssemblies(core) -> both halves keep
#    symmetry factor 1 (HexBlock.getSymmetryFactor looks for an edge assembly only at cell (-1,2)), core mass
#    1913 g -> 2733 g.
KNOWN_DEFECT_restore_without_centre = False  # repaired in /repo (fix: 0c76163)
KNOWN_DEFECT_convert_drops_edge_assemblies = False  # recorded in known_findings.jsonl
KNOWN_DEFECT_centre_not_scaled_after_noop_addEdge = False  # recorded in known_findings.jsonl
KNOWN_DEFECT_edge_halves_need_ring3_edge = False  # recorded in known_findings.jsonl
#  reused_changer_keeps_first_param_list: cells (0,0),(1,0), power = 100 on every block, mgFlux never assigned;
#    ch = ThirdCoreHexToFullCoreChanger(cs); ch.convert(r); ch.restorePreviousGeometry(r); then every block gets
#    b.p.mgFlux = [1, 2]; ch.convert(r) (the SAME object) -> the centre mgFlux stays [1, 2], total 12 instead of 18:
#    the object keeps the list of parameters to scale that it made at its first conversion (a NEW changer object, as
#    Core.growToFullCore makes, gives 18).  Not yet recorded in known_findings.jsonl: guarded here.
KNOWN_DEFECT_reused_changer_keeps_first_param_list = False  # repaired in /repo (fix: 6edc306)

LAYOUTS = {
    "c+3": [(0, 0), (1, 0), (2, -1), (1, 1)],          # centre, ring 2, 0-degree line, interior of ring 3
    "c+1": [(0, 0), (2, 0)],
    "holes": [(0, 0), (2, -1), (0, 2)],                # ring 2 empty
    "nocentre": [(1, 0), (1, 1)],
    "ring3": [(0, 0), (1, 0), (0, 1), (2, -1), (2, 0), (1, 1), (0, 2)],  # complete third of 3 rings
}
SCALARS = ("power", "powerGenerated", "kgHM")
LISTS = ("adjMgFlux",)           # stays a python list
ARRAYS = ("mgFlux",)             # the parameter setter turns it into a numpy array
NG = 2
# multigroup flux parameter -> the block-average scalar flux derived from it
FLUX_SCALAR = {"mgFlux": "flux", "adjMgFlux": "fluxAdj", "mgFluxGamma": "fluxGamma"}
VOLKEYS = ("volume", "volume (core)")


def build(ctx, cells, nblocks, symmetry="third periodic", numRings=3, sfp=False, assign=None):
    """Mini core with symbolic block heights, number densities and volume-integrated block parameters.  The case
    setting trackAssems (keep discharged assemblies in the spent fuel pool) is a symbolic bool; with sfp=True the
    reactor has a spent fuel pool that already holds one assembly.  assign: names of the volume-integrated parameters
    that get their value here (default: all); the symbols of the others are declared and returned (S) for a later
    first assignment by the harness."""
    armiParameters.reset()      # new case: no parameter has been assigned yet (see STUBS)
    track = ctx.bool("trackAssems")
    r, core, pool = U.mk_reactor(symmetry, numRings=numRings, sfp=sfp)
    core.setOptionsFromCs(U.SettingsView(Settings(), **{CONF_TRACK_ASSEMS: track}))
    if pool is not None:
        U.add_pool_resident(pool)
    S = {}
    asms = []
    for ai, (i, j) in enumerate(cells):
        hs = [ctx.real("h_%d_%d" % (ai, k), 1.0, 400.0) for k in range(nblocks)]
        a = U.mk_assembly(("fuel",) * nblocks, heights=hs)
        core.add(a, core.spatialGrid[i, j, 0])
        S[ai] = dict(h=hs, n=U.inject_densities(ctx, a, "%d" % ai), p={})
        asms.append(a)
    for ai, a in enumerate(asms):
        for k, b in enumerate(a):
            for pn in SCALARS:
                v = ctx.real("%s_%d_%d" % (pn, ai, k), 0.0, 1e9)
                if assign is None or pn in assign:
                    b.p[pn] = v
                S[ai]["p"][(k, pn)] = v
            for pn in LISTS + ARRAYS:
                v = [ctx.real("%s_%d_%d_g%d" % (pn, ai, k, g), 0.0, 1e9) for g in range(NG)]
                if assign is None or pn in assign:
                    b.p[pn] = list(v)
                S[ai]["p"][(k, pn)] = v
    return r, core, asms, S


def param_values(core, names):
    """{(cell, block index, parameter, component): value} of the named block parameters, where they have a value."""
    out = {}
    for a in core:
        ij = tuple(int(x) for x in a.spatialLocator.indices[:2])
        for k, b in enumerate(a):
            for pn in names:
                v = b.p[pn]
                if v is None:
                    continue
                for g, x in enumerate([v] if pn in SCALARS else [v[g] for g in range(NG)]):
                    out[(ij, k, pn, g)] = x
    return out


def input_values(S, cells, nblocks, names):
    """The same table from the input symbols (third-core values as assigned by build / by the harness)."""
    out = {}
    for ai, ij in enumerate(cells):
        for k in range(nblocks):
            for pn in names:
                v = S[ai]["p"][(k, pn)]
                for g, x in enumerate([v] if pn in SCALARS else list(v)):
                    out[(ij, k, pn, g)] = x
    return out


def totals(core):
    """API-level totals of the core model: nuclide masses, volume, sums of volume-integrated block parameters."""
    t = {}
    for nuc in U.NUCS:
        t["mass " + nuc] = core.getMass(nuc)
    t["volume"] = sum(b.getVolume() for a in core for b in a)
    t["volume (core)"] = core.getVolume()      # sum over assemblies of (area of the first block, cached) x height
    for pn in SCALARS:
        t[pn] = core.getTotalBlockParam(pn)
    for pn in LISTS + ARRAYS:
        for g in range(NG):
            t["%s[%d]" % (pn, g)] = sum(b.p[pn][g] for a in core for b in a)
    return t


def snapshot(core):
    """Observable state: assemblies (identity) by cell, names, per-block parameters, lookup tables."""
    st = dict(cells={}, names={}, blocks={}, params={}, byLabel={}, byName={}, byBlockName={}, asm={},
              symmetry=str(core.symmetry))
    for a in core:
        ij = tuple(int(x) for x in a.spatialLocator.indices[:2])
        st["cells"][ij] = a
        st["names"][a.getName()] = a
        st["asm"][ij] = {"getArea()": a.getArea(), "getVolume()": a.getVolume()}
        for k, b in enumerate(a):
            st["blocks"][b.getName()] = b
            vals = {"height": b.getHeight(), "symFactor": b.getSymmetryFactor(), "area": b.getArea(),
                    "block volume": b.getVolume()}
            for pn in SCALARS:
                vals[pn] = b.p[pn]
            for pn in LISTS + ARRAYS:
                for g in range(NG):
                    vals["%s[%d]" % (pn, g)] = b.p[pn][g]
            for nuc in U.NUCS:
                vals["N " + nuc] = b.getNumberDensity(nuc)
            st["params"][(ij, k)] = vals
    for ring in range(1, 6):
        for pos in range(1, (6 * (ring - 1) or 1) + 1):
            lab = "%03d-%03d" % (ring, pos)
            st["byLabel"][lab] = core.getAssemblyWithStringLocation(lab)
    st["byName"] = dict(core.assembliesByName)
    st["byBlockName"] = dict(core.blocksByName)
    # everything else an assembly can be found through: the spent fuel pool and the all-inclusive assembly list
    pool = core.r.excore.get("sfp")
    st["pool"] = [] if pool is None else [(a, tuple(int(x) for x in a.spatialLocator.indices)) for a in pool]
    st["everywhere"] = list(core.getAssemblies(includeSFP=True))
    return st


def check_lookups_truthful(ctx, core, what):
    """Location and name tables list exactly the assemblies / blocks present."""
    kids = list(core)
    ctx.check("%s: one assembly per location" % what,
              len(set(tuple(a.spatialLocator.indices) for a in kids)) == len(kids))
    cbl = core.childrenByLocator
    ctx.check("%s: childrenByLocator lists exactly the assemblies present" % what,
              len(cbl) == len(kids) and all(cbl.get(a.spatialLocator) is a for a in kids))
    ctx.check("%s: assembliesByName lists exactly the assemblies present" % what,
              len(core.assembliesByName) == len(kids) and
              all(core.assembliesByName.get(a.getName()) is a for a in kids))
    blks = [b for a in kids for b in a]
    ctx.check("%s: blocksByName lists exactly the blocks present" % what,
              len(core.blocksByName) == len(blks) and all(core.blocksByName.get(b.getName()) is b for b in blks))
    for a in kids:
        ctx.check("%s: getAssemblyWithStringLocation / getAssemblyByName find %s" % (what, a.getLocation()),
                  core.getAssemblyWithStringLocation(a.getLocation()) is a and
                  core.getAssemblyByName(a.getName()) is a)


def check_geometry_consistent(ctx, core, what):
    """Areas and volumes reported by blocks, assemblies and the core agree with each other and with the symmetry
    factor of the moment (they are derived quantities and some are cached, so this is asked in every state).
    Cross-sections are concrete numbers (trivial obligations); per state there is one solver obligation."""
    volBlocks = 0
    for a in core:
        loc = a.getLocation()
        for k, b in enumerate(a):
            full = sum(c.getArea() for c in b)
            ctx.check_close("%s: area of block %d of %s x symmetry factor = its whole cross-section" % (what, k, loc),
                            b.getArea() * b.getSymmetryFactor(), full, scale=full)
            volBlocks = volBlocks + b.getVolume()
        fullA = sum(c.getArea() for c in a[0])
        ctx.check_close("%s: area of assembly %s x symmetry factor = whole cross-section of its blocks" % (what, loc),
                        a.getArea() * a[0].getSymmetryFactor(), fullA, scale=fullA)
        ctx.check_close("%s: volume of assembly %s = area x height" % (what, loc), a.getVolume(),
                        a.getArea() * a.getTotalHeight(), scale=fullA * a.getTotalHeight())
    ctx.check_close("%s: core volume = sum of the block volumes" % what, core.getVolume(), volBlocks, scale=volBlocks)


def check_same_state(ctx, core, before, what):
    """The core is back in the observable state `before` (same objects, places, parameters, lookups)."""
    now = snapshot(core)
    ctx.check("%s: symmetry restored" % what, now["symmetry"] == before["symmetry"])
    ctx.check("%s: same cells occupied" % what, sorted(now["cells"]) == sorted(before["cells"]))
    for ij, a in before["cells"].items():
        ctx.check("%s: the same assembly object sits at %s" % (what, (ij,)), now["cells"].get(ij) is a)
    ctx.check("%s: same assembly names resolve to the same objects" % what,
              sorted(now["names"]) == sorted(before["names"]) and
              all(now["names"][n] is a for n, a in before["names"].items()))
    ctx.check("%s: same block names resolve to the same objects" % what,
              sorted(now["blocks"]) == sorted(before["blocks"]) and
              all(now["blocks"][n] is b for n, b in before["blocks"].items()))
    ctx.check("%s: every location label resolves as before" % what,
              all(now["byLabel"][lab] is a for lab, a in before["byLabel"].items()))
    ctx.check("%s: the name lookup tables resolve exactly as before" % what,
              sorted(now["byName"]) == sorted(before["byName"]) and
              all(core.getAssemblyByName(n) is a for n, a in before["byName"].items()) and
              sorted(now["byBlockName"]) == sorted(before["byBlockName"]) and
              all(core.getBlockByName(n) is b for n, b in before["byBlockName"].items()))
    ctx.check("%s: the spent fuel pool holds the same assemblies at the same places" % what,
              len(now["pool"]) == len(before["pool"]) and
              all(n[0] is o[0] and n[1] == o[1] for n, o in zip(now["pool"], before["pool"])))
    ctx.check("%s: getAssemblies(includeSFP=True) finds the same assemblies, nothing else" % what,
              len(now["everywhere"]) == len(before["everywhere"]) and
              all(any(n is o for n in now["everywhere"]) for o in before["everywhere"]))
    for ij, vals in before["asm"].items():
        for pn, old in vals.items():
            if ij in now["asm"]:
                ctx.check_close("%s: assembly %s %s as before" % (what, (ij,), pn), now["asm"][ij][pn], old,
                                scale=abs(old) + 1e-30)
    for key, vals in before["params"].items():
        for pn, old in vals.items():
            got = now["params"][key][pn] if key in now["params"] else None
            if got is None:
                ctx.check("%s: block %s still there" % (what, key), False)
                continue
            ctx.check_close("%s: %s of block %s as before" % (what, pn, key), got, old, scale=abs(old) + 1e-30)


@harness("C13", bounds="third-core mini reactor, 3 rings, hand-made assemblies at enumerated cell sets (with centre, "
                       "0-degree-line cell, holes), 1-2 blocks each; symbolic per block: height [1,400], 4 number "
                       "densities [0,10], 3 scalar + 2 two-group list/array volume-integrated parameters [0,1e9]; "
                       "case setting trackAssems symbolic bool; with / without a spent fuel pool holding one "
                       "assembly; areas, volumes and masses queried in every state",
         stubs=STUBS, qtimeout_ms=20000,
         instances={"quick": [dict(layout="c+3", nblocks=1, sfp=True), dict(layout="holes", nblocks=2, sfp=False),
                              dict(layout="c+1", nblocks=1, sfp=False), dict(layout="nocentre", nblocks=1, sfp=True)],
                    "thorough": [dict(layout="c+3", nblocks=2, sfp=False), dict(layout="ring3", nblocks=1, sfp=True),
                                 dict(layout="holes", nblocks=2, sfp=True), dict(layout="c+1", nblocks=3, sfp=True),
                                 dict(layout="nocentre", nblocks=2, sfp=False)]})
def third_to_full_multiplies_by_three_and_restores(ctx, layout, nblocks, sfp):
    cells = LAYOUTS[layout]
    r, core, asms, S = build(ctx, cells, nblocks, sfp=sfp)
    before = snapshot(core)
    tot0 = totals(core)
    check_geometry_consistent(ctx, core, "third")
    n0 = len(core)
    hasCentre = (0, 0) in cells
    ctx.check("starts as third core", core.symmetry == THIRD and not core.isFullCore)

    changer = gc.ThirdCoreHexToFullCoreChanger(Settings())
    changer.convert(r)

    # ---- after growing
    ctx.check("full-core symmetry after convert", core.symmetry == FULL and core.isFullCore)
    ctx.check_eq("assembly count = 3 n - 2 [centre present]", len(core), 3 * n0 - (2 if hasCentre else 0))
    check_lookups_truthful(ctx, core, "full")
    check_geometry_consistent(ctx, core, "full")
    now = snapshot(core)
    allNames = [a.getName() for a in core]
    allNums = [a.getNum() for a in core]
    allBlockNames = [b.getName() for a in core for b in a]
    ctx.check("names, serial numbers and block names are unique",
              len(set(allNames)) == len(allNames) and len(set(allNums)) == len(allNums) and
              len(set(allBlockNames)) == len(allBlockNames))
    wantCells = set()
    for ai, (i, j) in enumerate(cells):
        src = asms[ai]
        ctx.check("source assembly %d stays in place" % ai, now["cells"].get((i, j)) is src)
        wantCells.add((i, j))
        if (i, j) == (0, 0):
            continue
        for m in (1, 2):
            img = U.rot120(i, j, m)
            wantCells.add(img)
            cp = now["cells"].get(img)
            ctx.check("cell %s (the %d-degree image of %s) holds an assembly" % ((img,), 120 * m, ((i, j),)),
                      cp is not None)
            if cp is None:
                continue
            ctx.check("... which is a new object with its own blocks and components",
                      all(cp is not s for s in asms) and
                      all(cb is not sb and all(cc is not sc for cc, sc in zip(cb, sb)) for cb, sb in zip(cp, src)))
            ctx.check("... a copy of the source (type, number of blocks)",
                      cp.getType() == src.getType() and len(cp) == len(src))
            for k, (cb, sb) in enumerate(zip(cp, src)):
                ctx.check("... rotated into place by %d degrees" % (120 * m),
                          (cb.p.orientation[2] - sb.p.orientation[2]) % 360 == 120 * m)
                vc, vs = now["params"][(img, k)], now["params"][((i, j), k)]
                for pn in vs:
                    ctx.check_close("... with the source's %s (block %d)" % (pn, k), vc[pn], vs[pn],
                                    scale=abs(vs[pn]) + 1e-30)
    ctx.check("exactly the cells generated by 120-degree rotation are occupied", set(now["cells"]) == wantCells)

    tot1 = totals(core)
    for key, old in tot0.items():
        want = 3 * old
        if ctx.canary and key == "power":
            want = want * ITE(S[0]["h"][0] > 399, 1.01, 1.0)
        ctx.check_close("full-core %s = 3 x third-core value" % key, tot1[key], want, scale=want + 1e-30)
    # the same totals from the input symbols (the centre input is the one-third share of the centre assembly)
    for pn in SCALARS:
        want = 3 * sum(S[ai]["p"][(k, pn)] for ai in S for k in range(nblocks))
        ctx.check_close("full-core %s = 3 x sum of the third-core inputs" % pn, tot1[pn], want, scale=want + 1e-30)
    if hasCentre:
        ci = cells.index((0, 0))
        for k, b in enumerate(asms[ci]):
            ctx.check("centre block is whole in the full core", b.getSymmetryFactor() == 1.0)
            ctx.check_close("centre block power = 3 x its one-third share", b.p.power, 3 * S[ci]["p"][(k, "power")],
                            scale=S[ci]["p"][(k, "power")] + 1e-30)

    # independence of the copies: changing a copy leaves its source alone (and vice versa)
    for ai, (i, j) in enumerate(cells):
        if (i, j) == (0, 0):
            continue
        cp = now["cells"].get(U.rot120(i, j, 1))
        if cp is None:
            continue
        srcN, srcP = asms[ai][0].getNumberDensity("U235"), asms[ai][0].p.power
        cp[0].setNumberDensity("U235", srcN + 1.0)
        cp[0].p.power = srcP + 5.0
        cp[0].p.adjMgFlux[0] = cp[0].p.adjMgFlux[0] + 7.0
        ctx.check_close("copy of assembly %d is independent (density)" % ai, asms[ai][0].getNumberDensity("U235"),
                        srcN, scale=srcN + 1e-30)
        ctx.check_close("... and the copy took the new value", cp[0].getNumberDensity("U235"), srcN + 1.0,
                        scale=srcN + 1.0)
        ctx.check_close("copy of assembly %d is independent (power)" % ai, asms[ai][0].p.power,
                        S[ai]["p"][(0, "power")], scale=S[ai]["p"][(0, "power")] + 1e-30)
        ctx.check_close("copy of assembly %d is independent (list parameter)" % ai, asms[ai][0].p.adjMgFlux[0],
                        S[ai]["p"][(0, "adjMgFlux")][0], scale=S[ai]["p"][(0, "adjMgFlux")][0] + 1e-30)

    # ---- undo
    try:
        changer.restorePreviousGeometry(r)
        undone = True
    except TypeError:
        undone = False
    if not (KNOWN_DEFECT_restore_without_centre and not hasCentre):
        ctx.check("restorePreviousGeometry completes", undone)
    if not undone:
        ctx.note("KNOWN_DEFECT_restore_without_centre: restorePreviousGeometry raises TypeError when the core has "
                 "no centre assembly; the undo obligations are skipped for this layout")
        return
    check_same_state(ctx, core, before, "restored")
    check_lookups_truthful(ctx, core, "restored")
    check_geometry_consistent(ctx, core, "restored")
    tot2 = totals(core)
    for key, old in tot0.items():
        ctx.check_close("restored %s = original" % key, tot2[key], old, scale=old + 1e-30)


# ---------------------------------------------------------------------------------------------------------------
# sources that were turned before the conversion (direction-carrying block parameters)

_S3H = 0.8660254037844386       # sin(120 degrees)
_ROT = {1: (-0.5, _S3H), 2: (-0.5, -_S3H)}      # (cos, sin) of m x 120 degrees


@harness("C13", bounds="third-core mini reactor, centre + 1..3 source assemblies, 1 block each; every source off the "
                       "centre was turned by n x 60 degrees in an earlier shuffle (n forked over 0..5: one choice "
                       "shared by the sources, staggered, or one independent choice per source = instance) and carries "
                       "a symbolic bowing displacement (dx, dy) in [-5,5]^2 and 6 symbolic corner values [0,1e9]; "
                       "other block parameters as above", stubs=STUBS, qtimeout_ms=20000,
         instances={"quick": [dict(layout="c+1", independent=True), dict(layout="c+3", independent=False)],
                    "thorough": [dict(layout="holes", independent=True), dict(layout="nocentre", independent=True)]})
def copies_of_sources_turned_earlier_are_rotated_by_the_increment(ctx, layout, independent):
    """'each new assembly a copy of its source rotated into place': the copy at the m x 120-degree image is the
    source turned by m x 120 degrees - relative to the source AS IT IS, whatever orientation the source had already
    accumulated.  Direction-carrying block parameters (bowing displacement vector, per-corner values) of the copy
    are the source's turned by exactly that increment; the source is left alone; the undo brings everything back."""
    import math
    cells, nblocks = LAYOUTS[layout], 1
    r, core, asms, S = build(ctx, cells, nblocks)
    shared = None if independent else ctx.choice("turnedBefore", list(range(6)))
    D = {}
    for ai, c in enumerate(cells):
        if c == (0, 0):
            continue
        n = ctx.choice("turnedBefore_%d" % ai, list(range(6))) if independent else (shared + ai) % 6
        asms[ai].rotate(n * math.pi / 3.0)          # the earlier shuffle
        b = asms[ai][0]
        ctx.check("set-up: source %d has accumulated %d degrees" % (ai, 60 * n), b.p.orientation[2] % 360 == 60 * n)
        dx, dy = ctx.real("dx_%d" % ai, -5.0, 5.0), ctx.real("dy_%d" % ai, -5.0, 5.0)
        corners = [ctx.real("corner_%d_%d" % (ai, k), 0.0, 1e9) for k in range(6)]
        b.p.displacementX, b.p.displacementY = dx, dy
        b.p.cornerFastFlux = list(corners)
        D[ai] = dict(n=n, o=b.p.orientation[2], dx=dx, dy=dy, corners=corners)
    before = snapshot(core)

    changer = gc.ThirdCoreHexToFullCoreChanger(Settings())
    changer.convert(r)

    for ai, d in D.items():
        i, j = cells[ai]
        sb = asms[ai][0]
        mag = abs(d["dx"]) + abs(d["dy"]) + 1e-6
        ctx.check_close("source %d keeps its displacement (x)" % ai, sb.p.displacementX, d["dx"], scale=mag)
        ctx.check_close("source %d keeps its displacement (y)" % ai, sb.p.displacementY, d["dy"], scale=mag)
        ctx.check("source %d keeps its orientation" % ai, sb.p.orientation[2] == d["o"])
        for k in range(6):
            ctx.check_close("source %d keeps its corner values" % ai, sb.p.cornerFastFlux[k], d["corners"][k],
                            scale=d["corners"][k] + 1e-30)
        for m in (1, 2):
            cp = core.childrenByLocator.get(core.spatialGrid[U.rot120(i, j, m) + (0,)])
            ctx.check("the %d-degree image of source %d is filled" % (120 * m, ai), cp is not None)
            if cp is None:
                continue
            cb = cp[0]
            ctx.check("copy of source %d (turned %d before): orientation = source's + %d degrees" %
                      (ai, 60 * d["n"], 120 * m), (cb.p.orientation[2] - d["o"]) % 360 == 120 * m)
            c, sn = _ROT[m]
            wantX, wantY = d["dx"] * c - d["dy"] * sn, d["dx"] * sn + d["dy"] * c
            if ctx.canary and m == 2:
                wantX = wantX + ITE(AND(d["dx"] > 4.9, d["dy"] > 4.9), 0.05, 0.0)
            ctx.check_close("copy of source %d (turned %d before): displacement x = source's vector turned by %d "
                            "degrees" % (ai, 60 * d["n"], 120 * m), cb.p.displacementX, wantX, scale=mag)
            ctx.check_close("copy of source %d (turned %d before): displacement y = source's vector turned by %d "
                            "degrees" % (ai, 60 * d["n"], 120 * m), cb.p.displacementY, wantY, scale=mag)
            for k in range(6):
                # counter-clockwise turn by 2m corners: the value of corner k arrives at corner k + 2m
                w = d["corners"][(k - 2 * m) % 6]
                ctx.check_close("copy of source %d (turned %d before): corner %d holds the source's corner %d" %
                                (ai, 60 * d["n"], k, (k - 2 * m) % 6), cb.p.cornerFastFlux[k], w, scale=w + 1e-30)

    changer.restorePreviousGeometry(r)
    check_same_state(ctx, core, before, "restored")
    for ai, d in D.items():
        sb = asms[ai][0]
        mag = abs(d["dx"]) + abs(d["dy"]) + 1e-6
        ctx.check_close("restored: source %d displacement (x) as before" % ai, sb.p.displacementX, d["dx"], scale=mag)
        ctx.check_close("restored: source %d displacement (y) as before" % ai, sb.p.displacementY, d["dy"], scale=mag)
        ctx.check("restored: source %d orientation as before" % ai, sb.p.orientation[2] == d["o"])


# ---------------------------------------------------------------------------------------------------------------
# array-valued parameters whose storage is shared between blocks


def _set_partitions(items):
    """All partitions of a list into non-empty groups (15 for 4 items)."""
    if not items:
        return [[]]
    head, out = items[0], []
    for part in _set_partitions(items[1:]):
        out.append([[head]] + part)
        for n in range(len(part)):
            out.append(part[:n] + [[head] + part[n]] + part[n + 1:])
    return out


# blocks (assembly index, block index) of the layout "c+1" with two blocks per assembly; assembly 0 is the centre
_BLOCKS4 = [(0, 0), (0, 1), (1, 0), (1, 1)]
SHARING = {
    "own": [[x] for x in _BLOCKS4],                               # every block has its own array
    "centre+other": [[(0, 0), (1, 0)], [(0, 1)], [(1, 1)]],      # a centre block shares with a block elsewhere
    "centre+centre": [[(0, 0), (0, 1)], [(1, 0)], [(1, 1)]],     # the two centre blocks share
    "level": [[(0, 0), (1, 0)], [(0, 1), (1, 1)]],               # one array per axial level (flat flux guess)
    "all": [list(_BLOCKS4)],                                      # one array for the whole core
    "others": [[(0, 0)], [(0, 1)], [(1, 0), (1, 1)]],            # shared, but not with the centre
}
SHARING_ALL = {"/".join("+".join("%d%d" % x for x in grp) for grp in part): part for part in _set_partitions(_BLOCKS4)}


@harness("C13", bounds="third-core mini reactor, centre + one ring-3 assembly, 2 blocks each; the two-group flux "
                       "parameters are handed over as numpy arrays (mgFlux; adjMgFlux as array or python list) and "
                       "the array / list OBJECT of one value may be shared by several blocks: sharing pattern forked "
                       "over all 15 set partitions of the 4 blocks (6 named ones: quick, list container); symbolic: the group "
                       "values [0,1e9] of every sharing group, heights, densities, scalar parameters as above",
         stubs=STUBS, qtimeout_ms=20000,
         instances={"quick": [dict(container="array", patterns="all"), dict(container="list", patterns="named")],
                    "thorough": [dict(container="array", patterns="all"), dict(container="list", patterns="all")]})
def shared_array_storage_does_not_multiply_the_scaling(ctx, container, patterns):
    """A code that writes one flux guess to many blocks hands the SAME array object to all of them.  The statement
    is about values: every total times three, source assemblies as they were (the centre counted once, i.e. its
    one-third share times three), and everything back after the undo - whoever shares storage with whom."""
    cells, nblocks = LAYOUTS["c+1"], 2
    names = LISTS + ARRAYS
    r, core, asms, S = build(ctx, cells, nblocks)
    table = SHARING if patterns == "named" else SHARING_ALL
    part = table[ctx.choice("sharing", sorted(table))]
    want0 = {}
    for grp in part:
        ai0, k0 = grp[0]
        for pn in names:
            vals = S[ai0]["p"][(k0, pn)]          # the group's value: the symbols of its first member
            box = list(vals) if (container == "list" and pn in LISTS) else shims.np_shim.array(list(vals))
            for (ai, k) in grp:
                asms[ai][k].p[pn] = box            # one object for the whole group
                for g in range(NG):
                    want0[(cells[ai], k, pn, g)] = vals[g]
    for grp in part:
        ctx.check("set-up: the blocks of a group hold one and the same object",
                  all(asms[ai][k].p[pn] is asms[grp[0][0]][grp[0][1]].p[pn] for (ai, k) in grp for pn in names))
    n0 = len(core)
    tot0 = {(pn, g): sum(v for (c, k, p, gg), v in want0.items() if p == pn and gg == g) for pn in names
            for g in range(NG)}
    got0 = param_values(core, names)
    for key, w in want0.items():
        ctx.check_close("third core: %s[%d] of block %d at %s is what was assigned" % (key[2], key[3], key[1], (key[0],)),
                        got0[key], w, scale=w + 1e-30)

    changer = gc.ThirdCoreHexToFullCoreChanger(Settings())
    changer.convert(r)

    ctx.check_eq("assembly count = 3 n - 2", len(core), 3 * n0 - 2)
    got = param_values(core, names)
    for key, w in want0.items():
        centre = key[0] == (0, 0)
        ctx.check_close("full core: %s[%d] of source block %d at %s %s" %
                        (key[2], key[3], key[1], (key[0],), "= 3 x its one-third share" if centre else "unchanged"),
                        got[key], 3 * w if centre else w, scale=w + 1e-30)
        if not centre:
            for m in (1, 2):
                img = U.rot120(key[0][0], key[0][1], m)
                ctx.check_close("full core: the %d-degree copy has the source's %s[%d] (block %d)" %
                                (120 * m, key[2], key[3], key[1]), got.get((img,) + key[1:]), w, scale=w + 1e-30)
    for (pn, g), t0 in tot0.items():
        want = 3 * t0
        if ctx.canary and pn == "mgFlux" and g == 1:
            want = want * ITE(S[0]["h"][0] > 399, 1.01, 1.0)
        tot = sum(v for (c, k, p, gg), v in got.items() if p == pn and gg == g)
        ctx.check_close("full-core total of %s[%d] = 3 x third-core total" % (pn, g), tot, want, scale=want + 1e-30)
    # independence of a copy: writing INTO its array leaves the source's values alone
    cp = core.childrenByLocator.get(core.spatialGrid[U.rot120(cells[1][0], cells[1][1], 1) + (0,)])
    if cp is not None:
        keep = cp[0].p.mgFlux[0]
        cp[0].p.mgFlux[0] = keep + 7.0
        w = want0[(cells[1], 0, "mgFlux", 0)]
        ctx.check_close("writing into a copy's flux array does not reach its source", asms[1][0].p.mgFlux[0], w,
                        scale=w + 1e-30)
        w = want0[((0, 0), 0, "mgFlux", 0)]
        ctx.check_close("... nor the centre assembly", asms[0][0].p.mgFlux[0], 3 * w, scale=w + 1e-30)
        cp[0].p.mgFlux[0] = keep

    changer.restorePreviousGeometry(r)

    ctx.check_eq("restored: assembly count", len(core), n0)
    got2 = param_values(core, names)
    for key, w in want0.items():
        ctx.check_close("restored: %s[%d] of block %d at %s as before" % (key[2], key[3], key[1], (key[0],)),
                        got2.get(key), w, scale=w + 1e-30)
    ctx.check("restored: no other block carries a value", sorted(got2) == sorted(want0))


# ---------------------------------------------------------------------------------------------------------------
# several converter objects, parameters that get their first value between two conversions

@harness("C13", bounds="third-core mini reactor (centre + 1..3 assemblies, 1 block each); history: changer A "
                       "converts and restores while only the parameters `early` have ever been assigned in the "
                       "process, then every block gets its first value of the others (a flux solve), then a second "
                       "conversion + restore by a NEW changer object / Core.growToFullCore / the same object "
                       "(instance); symbolic: all values [0,1e9], heights, densities, trackAssems",
         stubs=STUBS, qtimeout_ms=20000,
         instances={"quick": [dict(layout="c+1", early=("power", "kgHM"), second="new changer"),
                              dict(layout="c+3", early=("power", "adjMgFlux"), second="growToFullCore"),
                              dict(layout="holes", early=("mgFlux",), second="new changer"),
                              dict(layout="nocentre", early=(), second="growToFullCore")],
                    "thorough": [dict(layout=lay, early=e, second=sec)
                                 for lay in ("c+1", "c+3", "holes", "nocentre")
                                 for e in (("power", "kgHM"), ("mgFlux",), (), ("power", "powerGenerated", "adjMgFlux"))
                                 for sec in ("new changer", "growToFullCore")] +
                                [dict(layout="c+1", early=("power", "kgHM"), second="same changer")]})
def parameters_first_assigned_between_two_conversions_are_scaled(ctx, layout, early, second):
    """'all sequences of convert / restore' and 'arbitrary block parameters': which parameters carry values changes
    along a history (at beginning of life no flux has ever been assigned); every conversion has to triple what the
    blocks carry at THAT time, whichever converter object performs it."""
    cells, nblocks = LAYOUTS[layout], 1
    names = SCALARS + LISTS + ARRAYS
    late = tuple(pn for pn in names if pn not in early)
    r, core, asms, S = build(ctx, cells, nblocks, assign=early)
    n0 = len(core)
    hasCentre = (0, 0) in cells
    inEarly = input_values(S, cells, nblocks, early)
    inAll = input_values(S, cells, nblocks, names)

    def check_full(what, inp, skip=()):
        ctx.check("%s: full core" % what, core.symmetry == FULL and core.isFullCore)
        ctx.check_eq("%s: assembly count = 3 n - 2 [centre present]" % what, len(core),
                     3 * n0 - (2 if hasCentre else 0))
        got = param_values(core, sorted(set(k[2] for k in inp)))
        for key, w in inp.items():
            centre = key[0] == (0, 0)
            if not (centre and key[2] in skip):
                ctx.check_close("%s: %s[%d] of the source block at %s %s" %
                                (what, key[2], key[3], (key[0],), "= 3 x its one-third share" if centre else "unchanged"),
                                got.get(key), 3 * w if centre else w, scale=w + 1e-30)
            if not centre:
                for m in (1, 2):
                    img = U.rot120(key[0][0], key[0][1], m)
                    ctx.check_close("%s: the %d-degree copy of %s has the source's %s[%d]" %
                                    (what, 120 * m, (key[0],), key[2], key[3]), got.get((img,) + key[1:]), w,
                                    scale=w + 1e-30)
        for pn, g in sorted(set(k[2:] for k in inp)):
            if hasCentre and pn in skip:
                continue
            want = 3 * sum(v for k, v in inp.items() if k[2:] == (pn, g))
            if ctx.canary and pn == "power" and what.startswith("second"):
                want = want * ITE(S[0]["h"][0] > 399, 1.01, 1.0)
            tot = sum(v for k, v in got.items() if k[2:] == (pn, g))
            ctx.check_close("%s: full-core total of %s[%d] = 3 x the third-core values" % (what, pn, g), tot, want,
                            scale=want + 1e-30)

    def check_third(what, inp):
        ctx.check("%s: third core again" % what, core.symmetry == THIRD and not core.isFullCore)
        ctx.check("%s: the same assemblies at the same cells, nothing else" % what, len(core) == n0 and all(
            core.childrenByLocator.get(core.spatialGrid[c + (0,)]) is asms[ai] for ai, c in enumerate(cells)))
        got = param_values(core, sorted(set(k[2] for k in inp)))
        for key, w in inp.items():
            ctx.check_close("%s: %s[%d] of the block at %s as before" % (what, key[2], key[3], (key[0],)),
                            got.get(key), w, scale=w + 1e-30)
        check_lookups_truthful(ctx, core, what)

    first = gc.ThirdCoreHexToFullCoreChanger(Settings())
    first.convert(r)
    check_full("first conversion", inEarly)
    first.restorePreviousGeometry(r)
    check_third("first restore", inEarly)

    # a physics solve writes the first value of the remaining parameters on every block
    for ai, a in enumerate(asms):
        for k, b in enumerate(a):
            for pn in late:
                v = S[ai]["p"][(k, pn)]
                b.p[pn] = v if pn in SCALARS else list(v)

    skip = ()
    if second == "new changer":
        ch = gc.ThirdCoreHexToFullCoreChanger(Settings())
        ch.convert(r)
    elif second == "growToFullCore":
        ch = core.growToFullCore(Settings())
        ctx.check("growToFullCore hands back a converter of its own", ch is not first)
    else:
        ch = first
        ch.convert(r)
        if KNOWN_DEFECT_reused_changer_keeps_first_param_list:
            ctx.note("KNOWN_DEFECT_reused_changer_keeps_first_param_list: a converter object that is used again does "
                     "not triple the centre values of parameters first assigned after its first conversion; those "
                     "obligations are skipped")
            skip = late
    check_full("second conversion", inAll, skip=skip)
    ch.restorePreviousGeometry(r)
    if not skip:
        check_third("second restore", inAll)
    else:
        check_third("second restore", {k: v for k, v in inAll.items() if not (k[0] == (0, 0) and k[2] in skip)})


# ---------------------------------------------------------------------------------------------------------------
# edge assemblies

EDGE_LAYOUTS = {
    "line3": ([(0, 0), (1, 0), (2, -1)], 3),                 # one assembly on the 0-degree line (ring 3)
    "line3+5": ([(0, 0), (2, -1), (1, 1), (4, -2)], 5),      # two of them (rings 3 and 5)
    "noline": ([(0, 0), (1, 0), (1, 1)], 3),                 # nothing on the line: add/remove are no-ops
    "line5only": ([(0, 0), (1, 0), (4, -2)], 5),             # hole at the ring-3 line cell
}


def _edge_cells(cells):
    """Cells on the 0-degree symmetry line (y = 0, x > 0  <=>  i = -2j > 0) and their 120-degree images."""
    return [((i, j), U.rot120(i, j, 1)) for (i, j) in cells if i == -2 * j and i > 0]


@harness("C13", bounds="third-core mini reactor (3 or 5 rings) with 0, 1 or 2 assemblies on the 0-degree line; "
                       "symbolic per block as above; trackAssems symbolic bool, with / without a spent fuel pool; "
                       "areas, volumes and masses queried in every state (before, with edges, after scaling, after "
                       "removal, second round)", stubs=STUBS, qtimeout_ms=20000,
         instances={"quick": [dict(layout="line3", nblocks=1, sfp=True), dict(layout="line3+5", nblocks=1, sfp=False),
                              dict(layout="noline", nblocks=1, sfp=False),
                              dict(layout="line5only", nblocks=1, sfp=False)],
                    "thorough": [dict(layout="line3", nblocks=2, sfp=False),
                                 dict(layout="line3+5", nblocks=2, sfp=True),
                                 dict(layout="noline", nblocks=2, sfp=True),
                                 dict(layout="line5only", nblocks=2, sfp=True)]})
def edge_add_then_remove_is_identity(ctx, layout, nblocks, sfp):
    cells, numRings = EDGE_LAYOUTS[layout]
    r, core, asms, S = build(ctx, cells, nblocks, numRings=numRings, sfp=sfp)
    before = snapshot(core)
    tot0 = totals(core)
    check_geometry_consistent(ctx, core, "before")
    pairs = _edge_cells(cells)
    ec = gc.EdgeAssemblyChanger()
    ec.addEdgeAssemblies(core)
    # HexBlock.getSymmetryFactor recognises edge assemblies only through cell (-1, 2) (ring 3)
    halvesSeen = (2, -1) in cells or not pairs
    skipHalves = KNOWN_DEFECT_edge_halves_need_ring3_edge and not halvesSeen
    if skipHalves:
        ctx.note("KNOWN_DEFECT_edge_halves_need_ring3_edge: with a hole at the ring-3 line cell the edge halves are "
                 "not recognised (symmetry factor 1, mass double counted); those obligations are skipped")

    now = snapshot(core)
    ctx.check("still a third core", core.symmetry == THIRD)
    ctx.check_eq("one edge assembly per assembly on the 0-degree line", len(core), len(cells) + len(pairs))
    ctx.check("exactly the 120-degree images of the line cells were added",
              set(now["cells"]) == set(cells) | set(e for _, e in pairs))
    check_lookups_truthful(ctx, core, "with edges")
    check_geometry_consistent(ctx, core, "with edges")
    names = [a.getName() for a in core]
    ctx.check("names unique with edges", len(set(names)) == len(names))
    for (lo, up) in pairs:
        src, cp = now["cells"][lo], now["cells"].get(up)
        ctx.check("edge cell %s filled by a new object" % (up,), cp is not None and all(cp is not a for a in asms))
        if cp is None:
            continue
        ctx.check("edge assembly lies on the 120-degree line, its source on the 0-degree line",
                  cp.isOnWhichSymmetryLine() == grids.BOUNDARY_120_DEGREES and
                  src.isOnWhichSymmetryLine() == grids.BOUNDARY_0_DEGREES)
        for k in range(nblocks):
            if not skipHalves:
                ctx.check("both halves are cut in two", src[k].getSymmetryFactor() == 2.0 and
                          cp[k].getSymmetryFactor() == 2.0)
            for pn in ("height",) + tuple("N " + n for n in U.NUCS):
                ctx.check_close("edge copy has the source's %s" % pn, now["params"][(up, k)][pn],
                                now["params"][(lo, k)][pn], scale=abs(now["params"][(lo, k)][pn]) + 1e-30)
    # two halves make one whole: the modelled mass and volume do not change
    tot1 = totals(core)
    for key in ["mass " + n for n in U.NUCS] + list(VOLKEYS):
        want = tot0[key]
        if not skipHalves:
            ctx.check_close("with edges: %s unchanged" % key, tot1[key], want, scale=want + 1e-30)

    # nothing re-assigned in between: scaling must not touch anything, removal restores the previous state
    gc.EdgeAssemblyChanger.scaleParamsRelatedToSymmetry(core)
    check_geometry_consistent(ctx, core, "with edges, scaled")
    ec.removeEdgeAssemblies(core)
    check_geometry_consistent(ctx, core, "edges removed")
    check_same_state(ctx, core, before, "edges removed")
    check_lookups_truthful(ctx, core, "edges removed")
    tot2 = totals(core)
    for key, old in tot0.items():
        if ctx.canary and key == "volume":
            old = old * ITE(S[0]["h"][0] > 399, 1.01, 1.0)
        ctx.check_close("edges removed: %s = original" % key, tot2[key], old, scale=old + 1e-30)
    # a second round trip with the same changer object behaves the same
    ec.addEdgeAssemblies(core)
    ctx.check_eq("second add: edge assemblies are back", len(core), len(cells) + len(pairs))
    check_geometry_consistent(ctx, core, "second add")
    if not skipHalves:
        tot3 = totals(core)
        for key in VOLKEYS:
            ctx.check_close("second add: %s unchanged" % key, tot3[key], tot0[key], scale=tot0[key] + 1e-30)
    ec.removeEdgeAssemblies(core)
    check_geometry_consistent(ctx, core, "edges removed again")
    check_same_state(ctx, core, before, "edges removed again")


@harness("C13", bounds="as above; after adding edges both halves get fresh symbolic (half-assembly) values of power "
                       "[1e-3,1e9], a two-group list flux and a two-group array flux; optional subset argument",
         stubs=STUBS, qtimeout_ms=20000,
         instances={"quick": [dict(layout="line3", subset=None), dict(layout="line3+5", subset=None),
                              dict(layout="line3", subset=["power"])],
                    "thorough": [dict(layout="line3", subset=None), dict(layout="line3+5", subset=None),
                                 dict(layout="line3", subset=["power"]), dict(layout="line3+5", subset=["mgFlux"])]})
def edge_scale_then_remove_combines_two_halves(ctx, layout, subset):
    """Docstring of scaleParamsRelatedToSymmetry: scaling then removing the symmetric identicals is identical to
    combining two half assemblies into a full one."""
    cells, numRings = EDGE_LAYOUTS[layout]
    r, core, asms, S = build(ctx, cells, 1, numRings=numRings, sfp=subset is not None)
    pairs = _edge_cells(cells)
    vol0 = {key: v for key, v in totals(core).items() if key in VOLKEYS}
    ec = gc.EdgeAssemblyChanger()
    ec.addEdgeAssemblies(core)
    check_geometry_consistent(ctx, core, "with edges")
    byCell = {tuple(int(x) for x in a.spatialLocator.indices[:2]): a for a in core}
    # "physics" writes half-assembly results on every block on a symmetry line
    half = {}
    for n, (lo, up) in enumerate(pairs):
        for side, cell in (("lo", lo), ("up", up)):
            b = byCell[cell][0]
            v = dict(power=ctx.real("hp_%s%d" % (side, n), 1e-3, 1e9),
                     adjMgFlux=[ctx.real("hadj_%s%d_g%d" % (side, n, g), 1e-3, 1e9) for g in range(NG)],
                     mgFlux=[ctx.real("hmg_%s%d_g%d" % (side, n, g), 1e-3, 1e9) for g in range(NG)],
                     mgFluxGamma=[ctx.real("hgam_%s%d_g%d" % (side, n, g), 1e-3, 1e9) for g in range(NG)])
            b.p.power = v["power"]
            b.p.adjMgFlux = list(v["adjMgFlux"])
            b.p.mgFlux = list(v["mgFlux"])
            # a coupled neutron / gamma solution: the gamma group fluxes and the three block-average scalar fluxes
            # (neutron, adjoint, gamma) of the half assembly, every one with a value of its own
            b.p.mgFluxGamma = list(v["mgFluxGamma"])
            for sc in FLUX_SCALAR.values():
                v[sc] = ctx.real("h%s_%s%d" % (sc, side, n), 1e-3, 1e9)
                b.p[sc] = v[sc]
            half[(n, side)] = v
    untouched = {c: (byCell[c][0].p.power, byCell[c][0].p.kgHM) for c in cells if c not in [p[0] for p in pairs]}
    volHalves = {n: byCell[lo][0].getVolume() + byCell[up][0].getVolume() for n, (lo, up) in enumerate(pairs)}
    totBefore = sum(b.p.power for a in core for b in a)

    gc.EdgeAssemblyChanger.scaleParamsRelatedToSymmetry(core, paramsToScaleSubset=subset)
    ec.removeEdgeAssemblies(core)

    ctx.check_eq("edge assemblies gone", len(core), len(cells))
    check_geometry_consistent(ctx, core, "combined")
    tot = totals(core)
    for key, old in vol0.items():
        ctx.check_close("combined: %s as before the edge assemblies were added" % key, tot[key], old, scale=old)
    sel = lambda pn: subset is None or pn in subset
    for n, (lo, up) in enumerate(pairs):
        b = byCell[lo][0]
        l, u = half[(n, "lo")], half[(n, "up")]
        want = l["power"] + u["power"] if sel("power") else l["power"]
        if ctx.canary and n == 0:
            want = want + u["power"] * ITE(l["power"] > 5e8, 0.01, 0.0)
        ctx.check_close("whole assembly power = sum of its two halves", b.p.power, want, scale=want)
        ctx.check("the assembly on the line is whole again", b.getSymmetryFactor() == 1.0)
        for pn in ("adjMgFlux", "mgFlux", "mgFluxGamma"):
            for g in range(NG):
                want = l[pn][g] + u[pn][g] if sel(pn) else l[pn][g]
                ctx.check_close("whole assembly %s[%d] = sum of its two halves" % (pn, g), b.p[pn][g], want,
                                scale=want)
        # every block-average scalar flux is re-derived from ITS OWN group fluxes (and only when those were merged)
        for pn, sc in FLUX_SCALAR.items():
            if sel(pn):
                want = sum(l[pn][g] + u[pn][g] for g in range(NG))
                ctx.check_close("%s x (volume of both halves) = total of the combined %s" % (sc, pn),
                                b.p[sc] * volHalves[n], want, scale=want)
            else:
                ctx.check_close("%s stays as assigned (%s not merged)" % (sc, pn), b.p[sc], l[sc], scale=l[sc])
    for c, (pw, kg) in untouched.items():
        ctx.check_close("assembly %s off the line keeps its power" % (c,), byCell[c][0].p.power, pw, scale=pw + 1e-30)
        ctx.check_close("assembly %s off the line keeps its kgHM" % (c,), byCell[c][0].p.kgHM, kg, scale=kg + 1e-30)
    if sel("power"):
        totAfter = sum(b.p.power for a in core for b in a)
        ctx.check_close("total power is conserved by scale + remove", totAfter, totBefore, scale=totBefore)
    check_lookups_truthful(ctx, core, "combined")


# ---------------------------------------------------------------------------------------------------------------
# histories

OPS = ("convert", "restore", "addEdge", "removeEdge")


@harness("C13", bounds="every sequence of K operations from {convert, restore, add-edge, remove-edge} (first one "
                       "per instance, the others symbolic and forked; K=3 quick, 4 thorough) on a third-core mini "
                       "reactor with / without an assembly on the 0-degree line; one changer object of each kind; "
                       "symbolic block parameters as above; trackAssems symbolic bool, spent fuel pool present when "
                       "the history starts with convert / add-edge; areas, volumes, masses queried after every step",
         stubs=STUBS, qtimeout_ms=20000, max_paths=400,
         instances={"quick": [dict(layout="line3", first=op, K=3) for op in OPS] +
                             [dict(layout="noline", first="addEdge", K=2), dict(layout="noline", first="convert", K=2)],
                    "thorough": [dict(layout=lay, first=op, K=4) for lay in ("line3", "noline", "line3+5")
                                 for op in OPS]})
def histories_of_conversions_keep_the_model(ctx, layout, first, K):
    """Reference model: T = third core without edges (the initial state), E = third core with edge assemblies,
    F = full core.  convert: T|E -> F (times three), restore: back to the state before the last convert,
    add-edge: T -> E (if anything sits on the 0-degree line), remove-edge: E -> T; everything else is a no-op."""
    cells, numRings = EDGE_LAYOUTS[layout]
    r, core, asms, S = build(ctx, cells, 1, numRings=numRings, sfp=first in ("convert", "addEdge"))
    pairs = _edge_cells(cells)
    n0 = len(cells)
    hasCentre = (0, 0) in cells
    changer = gc.ThirdCoreHexToFullCoreChanger(Settings())
    ec = gc.EdgeAssemblyChanger()
    base = snapshot(core)
    baseTot = totals(core)
    model, snapE, beforeConvert = "T", None, None
    flagsReset = False      # add-edge ran without adding anything (resets the 'assigned since geometry change' flags)
    centreUnscaled = False
    ops = []
    for step in range(K):
        op = first if step == 0 else ctx.choice("op%d" % step, OPS)
        ops.append(op)
        what = "after " + ">".join(ops)
        if op == "convert":
            changer.convert(r)
            if model != "F":
                beforeConvert = (model, snapE)
                centreUnscaled = flagsReset and hasCentre
                model = "F"
        elif op == "restore":
            changer.restorePreviousGeometry(r)
            if model == "F":
                model, snapE = beforeConvert
                if model == "E" and KNOWN_DEFECT_convert_drops_edge_assemblies:
                    ctx.note("KNOWN_DEFECT_convert_drops_edge_assemblies: convert removes edge assemblies and restore "
                             "does not bring them back; model continues from the edge-free state")
                    model, snapE = "T", None
                    ec = gc.EdgeAssemblyChanger()   # the user's changer still believes its edges are there
        elif op == "addEdge":
            ec.addEdgeAssemblies(core)
            if model == "T":
                if pairs:
                    model, snapE = "E", snapshot(core)
                else:
                    flagsReset = True
        elif op == "removeEdge":
            ec.removeEdgeAssemblies(core)
            if model == "E":
                model, snapE = "T", None

        check_lookups_truthful(ctx, core, what)
        check_geometry_consistent(ctx, core, what)
        tot = totals(core)
        if model == "T":
            check_same_state(ctx, core, base, what + " (third core)")
            for key, old in baseTot.items():
                ctx.check_close("%s: %s = initial" % (what, key), tot[key], old, scale=old + 1e-30)
        elif model == "E":
            check_same_state(ctx, core, snapE, what + " (with edges)")
        else:
            ctx.check("%s: full core" % what, core.isFullCore)
            ctx.check_eq("%s: 3 n - 2 [centre] assemblies" % what, len(core), 3 * n0 - (2 if hasCentre else 0))
            for key, old in baseTot.items():
                integrated = not (key.startswith("mass") or key in VOLKEYS)
                if integrated and centreUnscaled and KNOWN_DEFECT_centre_not_scaled_after_noop_addEdge:
                    ctx.note("KNOWN_DEFECT_centre_not_scaled_after_noop_addEdge: convert after an add-edge that added "
                             "nothing leaves the centre assembly's volume-integrated parameters at one third")
                    continue
                want = 3 * old
                if ctx.canary and key == "power" and step == K - 1:
                    want = want * ITE(S[0]["h"][0] > 399, 1.01, 1.0)
                ctx.check_close("%s: %s = 3 x third-core value" % (what, key), tot[key], want, scale=want + 1e-30)
            for ai, (i, j) in enumerate(cells):
                got = [core.childrenByLocator.get(core.spatialGrid[c + (0,)]) for c in
                       ((i, j), U.rot120(i, j, 1), U.rot120(i, j, 2))]
                ctx.check("%s: source assembly %d in place, images filled" % (what, ai),
                          got[0] is asms[ai] and all(g is not None for g in got))
    if ctx.canary and model != "F":
        ctx.check_close("canary (histories ending outside the full core)", totals(core)["power"],
                        baseTot["power"] * ITE(S[0]["h"][0] > 399, 1.01, 1.0), scale=baseTot["power"] + 1e-30)


# ---------------------------------------------------------------------------------------------------------------
# index level (all integer cells)


@harness("C13", bounds="all integer cells (i1,j1), (i2,j2) (unbounded Int) of a third-core hex grid", stubs=STUBS)
def growth_places_every_full_core_cell_exactly_once(ctx):
    """The converter places the copies of the assembly at cell c at grid.getSymmetricEquivalents(c).  For ALL first-
    third cells these are the two 120-degree index images (the oracle used by the reactor-level harnesses; that
    they are the geometric images is C08), and the cells generated from two different first-third cells never
    coincide, so growing fills each full-core cell at most once (that every cell is reached is C08's orbit lemma)."""
    from armi.reactor.grids.hexagonal import HexGrid
    from armi.reactor.grids.locations import IndexLocation
    g = HexGrid.fromPitch(1.0, numRings=1, symmetry="third periodic")
    i1, j1, i2, j2 = ctx.int("i1"), ctx.int("j1"), ctx.int("i2"), ctx.int("j2")
    ctx.assume(OR(i1 != 0, j1 != 0))
    ctx.assume(bool(g.locatorInDomain(IndexLocation(i1, j1, 0, g))))
    eq1 = g.getSymmetricEquivalents((i1, j1, 0))
    ctx.check("two equivalents off centre", len(eq1) == 2)
    gen1 = [(i1, j1)]
    for m, e in enumerate(eq1):
        wi, wj = U.rot120(i1, j1, m + 1)
        if ctx.canary and m == 1:
            wi = wi + ITE(AND(i1 == 7, j1 == 2), 1, 0)
        ctx.check("equivalent %d = index image under %d degrees" % (m, 120 * (m + 1)), AND(e[0] == wi, e[1] == wj))
        ctx.check("image %d lies outside the modelled third (no collision with a source assembly)" % m,
                  NOT(g.locatorInDomain(IndexLocation(e[0], e[1], 0, g))))
        gen1.append((e[0], e[1]))
    ctx.check("the centre has no equivalents", len(g.getSymmetricEquivalents((0, 0, 0))) == 0)
    # a second, different first-third cell generates three other cells
    ctx.assume(OR(i2 != i1, j2 != j1))
    ctx.assume(bool(g.locatorInDomain(IndexLocation(i2, j2, 0, g))))
    gen2 = [(i2, j2)] + [(e[0], e[1]) for e in g.getSymmetricEquivalents((i2, j2, 0))]
    for a in gen1:
        for b in gen2:
            ctx.check("cells generated from different sources differ", OR(a[0] != b[0], a[1] != b[1]))


@harness("C13", bounds="all integer cells (unbounded Int) of a third-core hex grid", stubs=STUBS)
def edge_cells_are_the_images_of_the_zero_degree_line(ctx):
    """add-edge copies an assembly on the 0-degree line to the first symmetric equivalent; for ALL cells this lands
    on the 120-degree line, inside the domain-with-overlap that Core.add accepts, and outside the plain domain;
    conversely every 120-degree-line cell (the ones remove-edge drops) is such an image."""
    from armi.reactor.grids.hexagonal import HexGrid
    from armi.reactor.grids.locations import IndexLocation
    g = HexGrid.fromPitch(1.0, numRings=1, symmetry="third periodic")
    i, j = ctx.int("i"), ctx.int("j")
    line = g.overlapsWhichSymmetryLine((i, j))
    if line == grids.BOUNDARY_0_DEGREES:
        ctx.check("0-degree line  <=>  i = -2j > 0 (oracle used by the reactor-level harnesses)",
                  AND(i == -2 * j, i > 0))
        e = g.getSymmetricEquivalents((i, j, 0))[0]
        tgt = IndexLocation(e[0], e[1], 0, g)
        ok = g.overlapsWhichSymmetryLine((e[0], e[1])) == grids.BOUNDARY_120_DEGREES
        if ctx.canary:
            ok = AND(ok, NOT(AND(i == 6, j == -3)))
        ctx.check("edge target is on the 120-degree line", ok)
        ctx.check("edge target is accepted with symmetry overlap only",
                  AND(g.locatorInDomain(tgt, symmetryOverlap=True), NOT(g.locatorInDomain(tgt))))
    else:
        ctx.check("not on the 0-degree line", NOT(AND(i == -2 * j, i > 0)))
    if line == grids.BOUNDARY_120_DEGREES:
        bi, bj = U.rot120(i, j, 2)       # rotate back by 120 degrees
        ctx.check("a 120-degree-line cell is the image of a 0-degree-line cell",
                  g.overlapsWhichSymmetryLine((bi, bj)) == grids.BOUNDARY_0_DEGREES)
