"""C04: kernels of the database round trip that are shared with C05 / C07 (same harness functions, registered for C04 as
well because jaggedArray.py, packSpecialData/unpackSpecialData and StructuredGrid.reduce are anchors of C04 too):

* the ragged-array kernel (per-object arrays of differing shapes, unset entries, zero-valued entries);
* dictionary-valued parameters (Component.p.numberDensities is one): "the same number densities" includes nuclides
  whose density is exactly zero;
* "grid persisted through its constructor arguments": the grid rebuilt from reduce() is the grid as it is at the time
  of THIS snapshot, whatever happened to it (and however often it was snapshotted) before.
"""
from symx.engine import harness

from harness import C05_jagged as _j
from harness import C05_sentinels as _s
from harness import C07_grids as _g


def _also_for_C04(fn, name, instances):
    h = fn.harness
    harness("C04", name=name, bounds=h.bounds, stubs=h.stubs, max_paths=h.max_paths, instances=instances)(fn)
    fn.harness = h


_also_for_C04(_j.ragged_collection_survives_packing_or_is_refused, "ragged_parameter_values_survive_packing",
              {"quick": [dict(n=2)], "thorough": [dict(n=3)]})
_also_for_C04(_j.ragged_entries_holding_zeros_are_still_values, "ragged_parameter_values_holding_zeros_survive_packing",
              {"quick": [dict(n=2)], "thorough": [dict(n=3)]})
_also_for_C04(_s.dictionary_entries_read_back_whatever_their_value, "number_density_dictionaries_keep_zero_valued_nuclides",
              {"quick": [dict(n=1, nkeys=2, rich=True), dict(n=2, nkeys=2, rich=False)],
               "thorough": [dict(n=1, nkeys=3, rich=True)]})
_also_for_C04(_g.grid_rebuilt_from_constructor_arguments_is_the_same_grid, "grid_persisted_through_constructor_arguments",
              {"quick": [dict(kind=k) for k in ("hex", "hexCorners", "cart", "cartOffset", "axial")]})
_also_for_C04(_g.grid_rebuilt_from_constructor_arguments_is_the_current_grid_after_any_history,
              "grid_persisted_is_the_current_grid_after_any_history",
              {"quick": [dict(kind=k, nops=2) for k in ("hex", "cartOffset", "axial")],
               "thorough": [dict(kind=k, nops=3) for k in _g.HISTORY_OPS]})
