"""C04: the ragged-array kernel of the database round trip (same harness function as C05's, registered for C04 as well:
jaggedArray.py is an anchor of both properties)."""
from symx.engine import harness

from harness import C05_jagged as _j

_h = _j.ragged_collection_survives_packing_or_is_refused.harness
harness("C04", name="ragged_parameter_values_survive_packing", bounds=_h.bounds, stubs=_h.stubs, max_paths=_h.max_paths,
        instances={"quick": [dict(n=2)], "thorough": [dict(n=3)]})(_j.ragged_collection_survives_packing_or_is_refused.__wrapped__
                                                                   if hasattr(_j.ragged_collection_survives_packing_or_is_refused, "__wrapped__")
                                                                   else _j.ragged_collection_survives_packing_or_is_refused)
