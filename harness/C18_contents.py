"""C18 (lattice contents clause): indexed contents <-> text maps, with the REAL writer and reader run on symbolic
occupancy patterns.

Property text: "A lattice map read from text, written and read again gives the same indexed contents in every
supported geometry, and indexed contents are either drawn as text that reads back to them or refused, never drawn
incompletely" and "places, at every location named in the core and pin lattice maps ..., an assembly of the specified
design".

What is symbolic here is WHICH cells of a lattice hold a specifier: one Bool per cell (small maps), or two emptied
text lines and one isolated hole chosen by symbolic integers (larger maps) -- which covers completely empty text
lines at the start, in the middle and at the end of a map.  The geometry and the size of the lattice are instances.
The index arithmetic for unbounded sizes is the subject of C18_asciimaps.py.
"""
import io

from ruamel.yaml.cyaml import CLoader

from symx.engine import harness
from symx import shims

from armi.reactor import geometry
from armi.reactor.blueprints.gridBlueprint import GridBlueprint, Grids, saveToStream
from armi.reactor.grids import HexGrid, IndexLocation
from armi.utils import asciimaps


class _QuietLog:
    """AsciiMap.__str__ reports its refusal through runLog.error as well as by raising; only the printing is muted."""

    def __getattr__(self, name):
        return lambda *a, **k: None


shims.patch(asciimaps, runLog=_QuietLog())

STUBS = ["the real AsciiMap*/GridBlueprint code runs; the occupancy pattern is decided by the solver (forks), after "
         "which writer and reader run on plain strings", "armi.utils.asciimaps.runLog -> silent (log output only)"]

PLACEHOLDER = asciimaps.PLACEHOLDER

# ---------------------------------------------------------------------------------------------------------
# Candidate genuine defects found by these harnesses on the unchanged tree (plain-Python reproductions in the report).
# They are recorded in /verif/known_findings.jsonl (predicates over the named inputs: cornerCellOccupied, occupied_<i>_<j>,
# emptyLine1/2, hole), so the flags are False and the obligations are live; setting a flag to True narrows the
# quantifier to the part armi gets right instead.
#
# (1) hex maps (1/3 flats-up, full flats-up, full corners-up) infer the size of the text window from max(i + j) and
#     from the end of the j = 0 ray, assuming the outline is a hexagon whose corner on the i axis is occupied (or cut
#     like the other corners).  Contents of ring <= s whose corner cell (s, 0) is empty can be drawn INCOMPLETELY (cells
#     silently dropped, or read back at other indices) instead of being refused, e.g. corners-up {(0,0): A, (1,-1): B}
#     is drawn as "A".  With the flag set the corner cell (s, 0) is always occupied.
KNOWN_DEFECT_hex_outline_needs_corner_cell = False  # recorded in known_findings.jsonl
# (2) AsciiMapCartesian draws columns/rows 0..max only: cells with a negative index are silently dropped (the check
#     in _updateDimensionsFromData refuses min > 0 but not min < 0).  A full-core Cartesian grid blueprint -- whose
#     contents are centred on (0, 0) by _readGridContentsLattice -- therefore loses its left column and bottom row
#     when saved as a lattice map and re-read.  With the flag set Cartesian contents start at index 0 and the
#     blueprint-level round trip is not run for full-core Cartesian grids.
KNOWN_DEFECT_cartesian_negative_indices_dropped = False  # recorded in known_findings.jsonl
# (3) gridBlueprint.saveToStream falls back to explicit `grid contents` when AsciiMap.gridContentsToAscii refuses, but
#     the refusal can also come one call later, from writeAscii ("Inconsistent lines (8) and offsets (9)"), which is
#     outside the try block: saving a full-core flats-up hex grid whose top text line is empty (e.g. ring-2 hexagon
#     without its (0, 2) corner) raises ValueError instead of writing the contents.  With the flag set that
#     ValueError is accepted as a refusal.
KNOWN_DEFECT_save_raises_when_map_writer_refuses_late = False  # recorded in known_findings.jsonl


# ---------------------------------------------------------------------------------------------------------
# geometry tables (concrete, computed once)

MAPS = {
    "cartesian": asciimaps.AsciiMapCartesian,
    "hexThirdFlatsUp": asciimaps.AsciiMapHexThirdFlatsUp,
    "hexFullFlatsUp": asciimaps.AsciiMapHexFullFlatsUp,
    "hexFullTipsUp": asciimaps.AsciiMapHexFullTipsUp,
}
_THIRD = HexGrid.fromPitch(1.0, numRings=1, symmetry="third periodic")


def candidate_cells(kind, size):
    """The cells that may hold a specifier: a rectangle starting at (lo, lo), or the hexagon / its first third of
    ring index <= size."""
    if kind == "cartesian":
        nx, ny, lo = size
        return [(i, j) for j in range(lo, lo + ny) for i in range(lo, lo + nx)]
    s = size
    hexagon = [(i, j) for j in range(-s, s + 1) for i in range(-s, s + 1) if abs(i + j) <= s]
    if kind == "hexThirdFlatsUp":
        return [c for c in hexagon if _THIRD.isInFirstThird(IndexLocation(c[0], c[1], 0, _THIRD))]
    return hexagon


def text_line(kind, cell, size):
    """Which cells share a text line, from plane geometry: a text line is a row of cells of equal height y (Cartesian:
    y ~ j; flats-up hexagons: y ~ i + 2j; corners-up hexagons: y ~ i + j).  Only used to group cells into lines; the
    number is the position in the order of writing for corners-up maps (top line first) and the height otherwise."""
    i, j = cell
    if kind == "cartesian":
        return j
    if kind == "hexFullTipsUp":
        return -(i + j)
    return i + 2 * j


def label(k):
    """Distinct specifiers of different widths (the writer sizes its columns by the longest one)."""
    return "ABCDEFGHJKLMNPQRSTUVWXYZ"[k % 24] + ("", "%d" % (k % 10), "x%d" % (k % 7))[k % 3] + ("" if k < 24 else "q")


def corner_of(kind, size):
    """The corner cell of the hexagon on the i axis (hex maps infer their outline from it, see finding (1))."""
    return None if kind == "cartesian" else (size, 0)


def _nm(v):
    return ("m%d" % -v) if v < 0 else "%d" % v


def occupancy(ctx, kind, size, mode):
    """Symbolic choice of the occupied cells; returns (contents, cells, lines) with plain Python values on every path.

    Inputs: 'cells' -- one Bool per cell named occupied_<i>_<j> (a negative index is written m<n>); 'lines' /
    'lines+hole' -- emptyLine1 <= emptyLine2 (index into the sorted text lines, -1 = none) and hole (index into the
    cell list, -1 = none).  In every mode the occupancy of the hexagon's corner cell (size, 0) is the separate Bool
    cornerCellOccupied (it is not affected by the emptied lines or the hole), so that findings about the outline can
    be stated over the inputs."""
    cells = candidate_cells(kind, size)
    corner = corner_of(kind, size)
    lines = sorted({text_line(kind, c, size) for c in cells})
    if mode == "cells":
        flags = [ctx.bool("cornerCellOccupied" if c == corner else "occupied_%s_%s" % (_nm(c[0]), _nm(c[1])))
                 for c in cells]
        if KNOWN_DEFECT_hex_outline_needs_corner_cell and corner is not None:
            ctx.assume(flags[cells.index(corner)])
        occ = [bool(b) for b in flags]
    else:
        e1 = ctx.int("emptyLine1", -1, len(lines) - 1)
        e2 = ctx.int("emptyLine2", -1, len(lines) - 1)
        h = ctx.int("hole", -1, len(cells) - 1 if mode == "lines+hole" else -1)
        cornerFlag = ctx.bool("cornerCellOccupied") if corner is not None else None
        ctx.assume(e1 <= e2)
        if KNOWN_DEFECT_hex_outline_needs_corner_cell and corner is not None:
            ctx.assume(cornerFlag)
        e1, e2, h = int(e1), int(e2), int(h)
        cornerOcc = bool(cornerFlag) if corner is not None else None
        gone = {lines[e] for e in (e1, e2) if e >= 0}
        occ = [cornerOcc if c == corner else (text_line(kind, c, size) not in gone and k != h)
               for k, c in enumerate(cells)]
    contents = {c: label(k) for k, (c, o) in enumerate(zip(cells, occ)) if o}
    ctx.assume(len(contents) > 0)
    return contents, cells, lines


def draw_and_read(cls, contents):
    """Real writer, then real reader on the text.  None when the writer refuses (ValueError, the documented way)."""
    m = cls()
    m.asciiLabelByIndices = dict(contents)
    try:
        m.gridContentsToAscii()
        stream = io.StringIO()
        m.writeAscii(stream)
    except ValueError:
        return None, None
    text = stream.getvalue()
    m2 = cls()
    m2.readAscii(text)
    return {ij: v for ij, v in m2.items() if v != PLACEHOLDER}, text


_Q1 = [
    dict(kind="cartesian", size=[3, 3, 0], mode="cells"),
    dict(kind="cartesian", size=[2, 5, 0], mode="lines+hole"),
    dict(kind="hexFullTipsUp", size=1, mode="cells"),
    dict(kind="hexFullTipsUp", size=2, mode="lines"),
    dict(kind="hexFullFlatsUp", size=1, mode="cells"),
    dict(kind="hexFullFlatsUp", size=2, mode="lines"),
    dict(kind="hexThirdFlatsUp", size=2, mode="cells"),
    dict(kind="hexThirdFlatsUp", size=4, mode="lines"),
]
_T1 = _Q1 + [
    dict(kind="cartesian", size=[4, 4, 0], mode="lines+hole"),
    dict(kind="hexFullTipsUp", size=2, mode="lines+hole"),
    dict(kind="hexFullTipsUp", size=3, mode="lines+hole"),
    dict(kind="hexFullFlatsUp", size=2, mode="lines+hole"),
    dict(kind="hexFullFlatsUp", size=3, mode="lines"),
    dict(kind="hexThirdFlatsUp", size=3, mode="cells"),
    dict(kind="hexThirdFlatsUp", size=4, mode="lines+hole"),
    dict(kind="hexThirdFlatsUp", size=6, mode="lines"),
]
if not KNOWN_DEFECT_cartesian_negative_indices_dropped:
    _Q1 = _Q1 + [dict(kind="cartesian", size=[3, 3, -1], mode="cells")]


@harness("C18", bounds="the four map geometries; lattice size per instance (Cartesian nx x ny, hex ring index <= 6); "
                       "occupancy symbolic: one Bool per cell ('cells'), or two emptied text lines + one isolated "
                       "hole chosen by symbolic Ints ('lines', 'lines+hole'); specifiers distinct, 1-3 characters",
         stubs=STUBS, instances={"quick": _Q1, "thorough": _T1}, max_paths=5000)
def indexed_contents_are_drawn_as_text_that_reads_back_or_refused(ctx, kind, size, mode):
    contents, cells, lines = occupancy(ctx, kind, size, mode)
    if KNOWN_DEFECT_hex_outline_needs_corner_cell and kind != "cartesian":
        ctx.note("KNOWN_DEFECT_hex_outline_needs_corner_cell: corner cell (%d, 0) kept occupied in every pattern" % size)
    if KNOWN_DEFECT_cartesian_negative_indices_dropped and kind == "cartesian":
        ctx.note("KNOWN_DEFECT_cartesian_negative_indices_dropped: Cartesian contents start at index 0")
    back, text = draw_and_read(MAPS[kind], contents)
    want = dict(contents)
    everyLine = {text_line(kind, c, size) for c in contents} == set(lines)
    # (canary: one input of the whole family, outside the recorded findings: the complete lattice -- no emptied line,
    # no hole -- or, for a Cartesian lattice that reaches below index 0, exactly its cells without a negative index)
    full = [c for c in cells if min(c) >= 0] if kind == "cartesian" else cells
    if ctx.canary and sorted(contents) == sorted(full):
        want[full[1]] = "wrong"
    if back is None:
        if kind == "hexFullFlatsUp":
            ctx.check("the complete lattice is drawn, not refused", len(contents) < len(cells))
        else:
            firstColumn = kind != "cartesian" or min(c[0] for c in contents) <= 0
            ctx.check("contents with a specifier on every text line of the lattice (Cartesian: and none right of "
                      "column 0 only) are drawn, not refused", not (everyLine and firstColumn))
        return
    missing = sorted(ij for ij in want if ij not in back)
    extra = sorted(ij for ij in back if ij not in want)
    moved = sorted(ij for ij in want if ij in back and back[ij] != want[ij])
    ctx.check("every cell of the contents is in the text (never drawn incompletely)", not missing)
    ctx.check("the text names no cell that the contents do not have", not extra)
    ctx.check("every specifier reads back at its own index", not moved)


# ---------------------------------------------------------------------------------------------------------
# lattice map text -> grid blueprint contents (Cartesian: the index rule can be stated without the map classes)


def _cartesian_text(ctx, nx, ny, mode):
    """A Cartesian lattice map of nx text columns and ny text lines.  Symbolic: which border columns/lines consist of
    placeholders only (how a user pads a map), one isolated hole, whether trailing placeholders are written out; or
    one Bool per text position ('cells').  Returns (text, specs) with specs[(column, line from the bottom)] = label
    or PLACEHOLDER for every text position."""
    n = nx * ny
    if mode == "cells":
        flags = [ctx.bool("placeholder_%d" % k) for k in range(n)]
        empty = [bool(b) for b in flags]
        ragged = False
    else:
        flags = [ctx.bool(nm) for nm in ("padLeft", "padRight", "padTop", "padBottom", "trailingPlaceholdersOmitted")]
        h = ctx.int("hole", -1, n - 1)
        padL, padR, padT, padB, ragged = (bool(b) for b in flags)
        h = int(h)
        empty = []
        for k in range(n):
            c, l = k % nx, k // nx
            empty.append((padL and c == 0) or (padR and c == nx - 1) or (padB and l == 0) or (padT and l == ny - 1)
                         or k == h)
    specs = {(k % nx, k // nx): (PLACEHOLDER if empty[k] else label(k)) for k in range(n)}
    rows = []
    for l in reversed(range(ny)):                      # text is written top line first
        row = [specs[c, l] for c in range(nx)]
        if ragged:
            while len(row) > 1 and row[-1] == PLACEHOLDER:
                row.pop()
        rows.append(row)
    return "\n".join(" ".join(r) for r in rows) + "\n", specs, rows


def _contents_of(text, symmetry):
    gb = GridBlueprint(name="core", geom=geometry.CARTESIAN, symmetry=symmetry, latticeMap=text)
    grid = gb.construct()
    return dict(gb.gridContents), grid


_Q2 = [dict(nx=4, ny=3, symmetry="full", mode="borders"), dict(nx=3, ny=4, symmetry="full", mode="borders"),
       dict(nx=3, ny=3, symmetry="quarter reflective", mode="borders")]
_T2 = _Q2 + [dict(nx=3, ny=3, symmetry="full", mode="cells"), dict(nx=4, ny=2, symmetry="full", mode="cells"),
             dict(nx=5, ny=4, symmetry="full", mode="borders"), dict(nx=4, ny=4, symmetry="full", mode="borders"),
             dict(nx=6, ny=5, symmetry="full", mode="borders"),
             dict(nx=4, ny=4, symmetry="quarter reflective", mode="borders")]


@harness("C18", bounds="Cartesian lattice maps of nx x ny text positions (instances, up to 6 x 5), full-core and "
                       "quarter-core; symbolic: each of the four border columns/lines all-placeholder or not, one "
                       "isolated hole anywhere, trailing placeholders written or omitted ('borders'); or one Bool "
                       "per text position ('cells')", stubs=STUBS, instances={"quick": _Q2, "thorough": _T2},
         max_paths=5000)
def cartesian_lattice_map_places_each_specifier_where_its_text_position_says(ctx, nx, ny, symmetry, mode):
    text, specs, rows = _cartesian_text(ctx, nx, ny, mode)
    ctx.assume(any(v != PLACEHOLDER for v in specs.values()))
    got, grid = _contents_of(text, symmetry)
    # independent reading of the text: the map is NX columns wide (longest line) and NY lines high, placeholders
    # included; a full-core map has its middle position (the one right of / above the middle for even counts) at
    # index (0, 0); a quarter-core map has its bottom-left position there
    NX, NY = max(len(r) for r in rows), len(rows)
    i0, j0 = (NX // 2, NY // 2) if symmetry == "full" else (0, 0)
    want = {(c - i0, l - j0): v for (c, l), v in specs.items() if v != PLACEHOLDER}
    if ctx.canary and sum(1 for v in specs.values() if v == PLACEHOLDER) == 1 and specs[1, 1] == PLACEHOLDER:
        want[(0 - i0, 0 - j0)] = "wrong"              # one input: the map whose only placeholder is at (1, 1)
    ctx.check("exactly the specifiers of the text are placed (placeholders name nothing)",
              sorted(got) == sorted(want))
    ctx.check("each specifier is at the index its text column and line dictate",
              all(got.get(ij) == v for ij, v in want.items()))
    # the same statement without any centring convention: turning placeholders into specifiers moves nothing else
    filled = "\n".join(" ".join((v if v != PLACEHOLDER else "fill") for v in r) for r in rows) + "\n"
    gotFilled, _ = _contents_of(filled, symmetry)
    ctx.check("a specifier stays at its index when the placeholders of the map are replaced by specifiers",
              all(gotFilled.get(ij) == v for ij, v in got.items()))
    ctx.check("every placed specifier has a location in the constructed grid",
              all(grid[i, j, 0].getCompleteIndices() == (i, j, 0) for (i, j) in got))


# ---------------------------------------------------------------------------------------------------------
# grid blueprint: contents -> saved as a lattice map (or, when the map writer refuses, as explicit contents) -> loaded


def _save(gridBp):
    grids = Grids()
    grids[gridBp.name] = gridBp
    stream = io.StringIO()
    saveToStream(stream, grids, full=False, tryMap=True)
    return stream.getvalue()


def _reload(saved, name):
    again = Grids.load(saved, Loader=CLoader)[name]
    again.construct()
    return dict(again.gridContents)


_GEOM = {
    "cartesian": (geometry.CARTESIAN, "quarter reflective"),
    "cartesianFull": (geometry.CARTESIAN, "full"),
    "hexThirdFlatsUp": (geometry.HEX, "third periodic"),
    "hexFullFlatsUp": (geometry.HEX, "full"),
    "hexFullTipsUp": (geometry.HEX_CORNERS_UP, "full"),
}
_Q3 = [
    dict(kind="cartesian", size=[3, 4, 0], mode="lines+hole"),
    dict(kind="hexThirdFlatsUp", size=3, mode="lines"),
    dict(kind="hexFullFlatsUp", size=2, mode="lines"),
    dict(kind="hexFullTipsUp", size=2, mode="lines"),
]
_T3 = _Q3 + [
    dict(kind="hexThirdFlatsUp", size=3, mode="lines+hole"),
    dict(kind="cartesian", size=[3, 3, 0], mode="cells"),
    dict(kind="hexThirdFlatsUp", size=2, mode="cells"),
    dict(kind="hexThirdFlatsUp", size=5, mode="lines+hole"),
    dict(kind="hexFullFlatsUp", size=1, mode="cells"),
    dict(kind="hexFullFlatsUp", size=3, mode="lines+hole"),
    dict(kind="hexFullTipsUp", size=1, mode="cells"),
    dict(kind="hexFullTipsUp", size=3, mode="lines+hole"),
]
if not KNOWN_DEFECT_cartesian_negative_indices_dropped:
    _Q3 = _Q3 + [dict(kind="cartesianFull", size=[3, 3, -1], mode="cells")]


@harness("C18", bounds="grid blueprints built in Python from indexed contents (occupancy symbolic as above), saved with "
                       "saveToStream(tryMap=True) and loaded again through yamlize; Cartesian quarter-core, hex "
                       "third-core, hex full-core flats-up and corners-up", stubs=STUBS,
         instances={"quick": _Q3, "thorough": _T3}, max_paths=5000)
def grid_blueprint_written_as_lattice_map_reloads_to_the_same_contents(ctx, kind, size, mode):
    mapKind = "cartesian" if kind == "cartesianFull" else kind
    contents, cells, lines = occupancy(ctx, mapKind, size, mode)
    if KNOWN_DEFECT_hex_outline_needs_corner_cell and mapKind != "cartesian":
        ctx.note("KNOWN_DEFECT_hex_outline_needs_corner_cell: corner cell (%d, 0) kept occupied in every pattern" % size)
    if KNOWN_DEFECT_cartesian_negative_indices_dropped:
        ctx.note("KNOWN_DEFECT_cartesian_negative_indices_dropped: full-core Cartesian grid blueprints (contents "
                 "centred on (0,0)) are not exercised")
    geom, symmetry = _GEOM[kind]
    gb = GridBlueprint(name="core", geom=geom, symmetry=symmetry, gridContents=dict(contents))
    want = dict(contents)
    if ctx.canary and len(contents) == len(cells):
        want[cells[1]] = "wrong"                        # one input of the family: the complete lattice
    try:
        saved = _save(gb)
    except ValueError as e:
        # finding (3); any other kind of exception escapes and is reported by the engine
        ctx.check("the original blueprint is not altered by the failed save", dict(gb.gridContents) == contents)
        if KNOWN_DEFECT_save_raises_when_map_writer_refuses_late:
            ctx.note("KNOWN_DEFECT_save_raises_when_map_writer_refuses_late: saveToStream raised ValueError")
        else:
            ctx.check("saving writes the grid, as a lattice map or (when the map writer refuses) as explicit contents, "
                      "without raising: ValueError %s" % (str(e)[:80],), False)
        return
    ctx.check("saving writes the grid, as a lattice map or (when the map writer refuses) as explicit contents, "
              "without raising", True)
    got = _reload(saved, gb.name)
    # (canary: `want` is wrong for one input; full-core Cartesian grids lie entirely inside a recorded finding about the
    # two obligations below, so the deliberately wrong expectation is also put to this one)
    ctx.check("the original blueprint is not altered by saving",
              dict(gb.gridContents) == (want if ctx.canary and kind == "cartesianFull" else contents))
    ctx.check("the saved grid loads to exactly the cells it had", sorted(got) == sorted(want))
    ctx.check("... with each specifier at its own index", all(got.get(ij) == v for ij, v in want.items()))


# ---------------------------------------------------------------------------------------------------------
# pin lattice of a block: "places, at every location named in the core and pin lattice maps (text maps and explicit
# lists alike) ..." and "components have the specified ... multiplicity".  The blueprint is TEXT generated per path.

from armi import settings as _settings  # noqa: E402
from armi.reactor import blueprints as _blueprints  # noqa: E402

PIN_TEMPLATE = r"""
nuclide flags:
    U235: {{burn: false, xs: true}}
    U238: {{burn: false, xs: true}}
    ZR: {{burn: false, xs: true}}
blocks:
    pins: &block_pins
        grid name: pingrid
        pinA:
            shape: Circle
            material: UZr
            Tinput: 25.0
            Thot: 25.0
            id: 0.0
            od: 0.4
            latticeIDs: [{a}]
        pinB:
            shape: Circle
            material: UZr
            Tinput: 25.0
            Thot: 25.0
            id: 0.0
            od: 0.3
            latticeIDs: [{b}]
        clad:
            shape: Circle
            material: Void
            Tinput: 25.0
            Thot: 25.0
            id: 0.4
            od: 0.45
            latticeIDs: [{a}, {b}]
        loose:
            shape: Circle
            material: UZr
            Tinput: 25.0
            Thot: 25.0
            id: 0.0
            od: 0.2
            mult: 3
        pitch:
            shape: Square
            material: Void
            Tinput: 25.0
            Thot: 25.0
            widthInner: 6.0
            widthOuter: 6.0
            mult: 1
assemblies:
    pins a:
        specifier: IC
        blocks: [*block_pins]
        height: [10.0]
        axial mesh points: [1]
        xs types: [A]
grids:
    pingrid:
        geom: cartesian
        symmetry: full
        lattice pitch:
            x: 1.0
            y: 1.0
{grid}"""

# Candidate genuine defect on the unchanged tree (reported by an independent engineer): explicit `grid contents` whose
# specifiers are written as bare integers ([0, 0]: 1) stay ints, while GridBlueprint.getLocators compares them with
# the latticeIDs converted to str ('1'): no cell ever matches, the components get no grid locations and keep
# multiplicity 1 -- the same grid written as a lattice map (or with quoted specifiers) places them.  Reproduction:
# the text of pin_lattice_text("explicit", [1, 2], ...) below: pinA has mult 1.0 and a CoordinateLocation.
# With the flag set the instance with bare-integer specifiers in explicit contents is not run.
KNOWN_DEFECT_integer_specifiers_in_explicit_contents_never_match = False  # repaired in /repo (fix: a361d54)


# Candidate genuine defect found by this harness on the unchanged tree: GridBlueprint._getMaxIndex sizes the spatial
# grid by max(all i and j of the contents), not by the largest magnitude: contents whose indices are ALL negative
# (e.g. a 2 x 2 full-symmetry Cartesian map with only its bottom-left position occupied, index (-1, -1)) give
# numRings = 0, an empty grid that BlockBlueprint.construct treats as "no grid": the components get no positions and
# keep multiplicity 1, silently.  Reproduction: the text of pin_lattice_text("map", ["A", "B"], [0, 2, 2, 2], 2, 2)
# (lattice map "- -" / "A -"): pinA has mult 1.0 and a CoordinateLocation; with "A -" / "- -" (index (-1, 0), max
# index 0) it has mult 1 and sits at (-1, 0).  With the flag set at least one occupied position has an index >= 0.
KNOWN_DEFECT_contents_with_only_negative_indices_get_an_empty_grid = False  # repaired in /repo (fix: 5446422)


def pin_lattice_text(form, specs, kinds, nx, ny):
    """Blueprint text of a block with an nx x ny full-symmetry Cartesian pin grid; kinds[l * nx + c] in (0, 1, 2) =
    (specs[0], specs[1], empty) for text column c and text line l counted from the bottom.  Returns (text, cells)
    with cells[(i, j)] = 0 | 1: a full-symmetry Cartesian map has its middle position (the one right of / above the
    middle for even counts) at index (0, 0)."""
    cells = {}
    for k, kind in enumerate(kinds):
        if kind < 2:
            cells[(k % nx - nx // 2, k // nx - ny // 2)] = kind
    pad = " " * 12
    if form == "map":
        rows = [" ".join(str(specs[kinds[l * nx + c]]) if kinds[l * nx + c] < 2 else PLACEHOLDER for c in range(nx))
                for l in reversed(range(ny))]
        grid = "        lattice map: |\n" + "".join(pad + r + "\n" for r in rows)
    else:
        quote = "'" if form == "explicit quoted" else ""
        grid = "        grid contents:\n" + "".join("%s[%d, %d]: %s%s%s\n" % (pad, i, j, quote, specs[kind], quote)
                                                    for (i, j), kind in sorted(cells.items()))
    return PIN_TEMPLATE.format(a=specs[0], b=specs[1], grid=grid), cells


_Q4 = [dict(form="map", specs=["A", "B"], nx=2, ny=2), dict(form="explicit", specs=["A", "B"], nx=2, ny=2),
       dict(form="explicit quoted", specs=[1, 2], nx=2, ny=2)]
_T4 = _Q4 + [dict(form="map", specs=[1, 2], nx=2, ny=2), dict(form="map", specs=["A", "B"], nx=3, ny=2),
             dict(form="explicit", specs=["A", "B"], nx=2, ny=3)]
if not KNOWN_DEFECT_integer_specifiers_in_explicit_contents_never_match:
    _Q4 = _Q4 + [dict(form="explicit", specs=[1, 2], nx=2, ny=2)]


@harness("C18", bounds="block with an nx x ny Cartesian pin grid (instances: 2 x 2, thorough up to 6 positions) given as "
                       "a lattice map or as explicit `grid contents`; symbolic: what each position holds (specifier "
                       "a, specifier b, nothing); components: one per specifier, one naming both, one outside the "
                       "grid; specifiers letters or numbers", stubs=["none: Blueprints.load + _prepConstruction on "
                                                                     "generated text"],
         instances={"quick": _Q4, "thorough": _T4}, max_paths=5000)
def pin_lattice_gives_each_component_its_positions_and_multiplicity(ctx, form, specs, nx, ny):
    kinds = [ctx.int("position_%d" % k, 0, 2) for k in range(nx * ny)]
    kinds = [int(k) for k in kinds]
    ctx.assume(any(k < 2 for k in kinds))
    text, cells = pin_lattice_text(form, specs, kinds, nx, ny)
    if KNOWN_DEFECT_contents_with_only_negative_indices_get_an_empty_grid:
        ctx.note("KNOWN_DEFECT_contents_with_only_negative_indices_get_an_empty_grid: some occupied position has an "
                 "index >= 0")
        ctx.assume(max(max(ij) for ij in cells) >= 0)
    design = _blueprints.Blueprints.load(text)
    design._prepConstruction(_settings.Settings())
    block = design.assemblies["pins a"][0]
    want = {"pinA": sorted(ij for ij, k in cells.items() if k == 0),
            "pinB": sorted(ij for ij, k in cells.items() if k == 1), "clad": sorted(cells)}
    if ctx.canary and kinds == [0] * (nx * ny - 1) + [1]:
        want["pinB"] = []                                  # one input of the family: b only at the last position
    for name, where in want.items():
        c = block.getComponentByName(name)
        try:
            got = sorted(tuple(int(v) for v in loc.getCompleteIndices()[:2]) for loc in c.spatialLocator)
        except (TypeError, AttributeError):                # not a multi-location: the component is not in the grid
            got = []
        ctx.check("%s sits at exactly the positions that hold (one of) its specifier(s)" % name, got == where)
        if where:
            ctx.check("%s: multiplicity = number of its positions" % name, c.getDimension("mult") == len(where))
    ctx.check("the component that names no specifier keeps the multiplicity of its input",
              block.getComponentByName("loose").getDimension("mult") == 3)
