"""C09: whole-file round trips of the simple CCCC formats with the header integers (geometry type, dimension counts,
block counts, optional-record flags) as symbolic inputs: every feasible combination within the bounds is explored,
the file is written by the real Stream class into memory and read back by the same class."""
import io

import numpy as np

from symx.core import AND, OR, NOT, IMPLIES, IFF, ITE, Sym
from symx.engine import harness

from armi.nuclearDataIO.cccc import cccc, geodst, pwdint, rtflux

STUBS = ["file on disk -> io.BytesIO / io.StringIO handed to the real Stream object (open() is not called)",
         "header integers are symbolic and are concretised by forking where they reach struct.pack / range(); array "
         "contents are concrete, pairwise different numbers"]


def _run(streamCls, data, mode, raw=None):
    s = object.__new__(streamCls)
    cccc.Stream.__init__(s, "<memory>", mode)
    s._data = data
    s._metadata = data.metadata
    binary = "b" in mode
    s._stream = (io.BytesIO(raw) if binary else io.StringIO(raw)) if raw is not None else (io.BytesIO() if binary else io.StringIO())
    s.readWrite()
    return s._stream


def roundtrip(ctx, streamCls, data, binary=True):
    """write `data`, read into a fresh container; returns (new container, leftover bytes, error or None)"""
    out = _run(streamCls, data, "wb" if binary else "w")
    raw = out.getvalue()
    fresh = streamCls._getDataContainer()
    try:
        rd = _run(streamCls, fresh, "rb" if binary else "r", raw)
        left = len(raw) - rd.tell()
        return fresh, left, None
    except (BufferError, ValueError, struct_error) as e:
        return fresh, -1, e


import struct  # noqa: E402

struct_error = struct.error


def same_array(a, b, rtol=1e-6):
    if a is None or b is None:
        return a is None and b is None
    a, b = np.asarray(a), np.asarray(b)
    return a.shape == b.shape and bool(np.allclose(a.astype(float), b.astype(float), rtol=rtol, atol=0))


def setmd(md, values):
    for k, v in values.items():
        md[k] = v


def seq(n, start, dtype=float):
    return np.arange(start, start + n, dtype=dtype)


@harness("C09", bounds="GEODST: geometry type IGOM in 0..18, coarse/fine mesh counts 1..2 per direction, NBS, NRASS in "
                       "{0,1}: all combinations (solver-enumerated), binary encoding", stubs=STUBS, max_paths=5000,
         instances={"quick": [dict(binary=True)], "thorough": [dict(binary=True), dict(binary=False)]})
def geodst_roundtrip_for_every_header(ctx, binary):
    g = int(ctx.int("IGOM", 0, 18))
    ni, nj, nk = (int(ctx.int(n, 1, 2)) for n in ("NCINTI", "NCINTJ", "NCINTK"))
    nbs = int(ctx.int("NBS", 0, 1))
    nrass = int(ctx.int("NRASS", 0, 1))
    d = geodst.GeodstData()
    md = d.metadata
    md["label"] = "GEODST verif"
    for k in geodst.FILE_SPEC_1D_KEYS:
        md[k] = 0
    setmd(md, dict(IGOM=g, NZONE=2, NREG=3, NCINTI=ni, NCINTJ=nj, NCINTK=nk, NINTI=ni + 1, NINTJ=nj + 1, NINTK=nk,
                   NBS=nbs, NBCS=1, NIBCS=1, NZWBB=1, NRASS=nrass))
    # what the file specification announces for this header (documented in GeodstStream.readWrite):
    has1 = 1 <= g <= 3          # slab, cylinder, sphere: 1-D meshes
    has2 = 6 <= g <= 11         # 2-D geometries
    has3 = g >= 12              # 3-D geometries
    if has1 or has2 or has3:
        d.xmesh, d.iintervals = seq(ni + 1, 0.5), seq(ni, 1, int)
    if has2 or has3:
        d.ymesh, d.jintervals = seq(nj + 1, 10.5), seq(nj, 3, int)
    if has3:
        d.zmesh, d.kintervals = seq(nk + 1, 20.5), seq(nk, 5, int)
    if g > 0 or nbs > 0:
        d.regionVolumes, d.bucklings = seq(3, 100.0), seq(nbs, 0.25)
        d.boundaryConstants, d.internalBlackBoundaryConstants = seq(1, 0.125), seq(1, 0.375)
        d.zonesWithBlackAbs, d.zoneClassifications, d.regionZoneNumber = seq(1, 7, int), seq(2, 8, int), seq(3, 1, int)
    if g > 0 and nrass == 0:
        d.coarseMeshRegions = (np.arange(ni * nj * nk).reshape(ni, nj, nk) % 3 + 1).astype(np.int16)
    if g > 0 and nrass == 1:
        d.fineMeshRegions = (np.arange((ni + 1) * (nj + 1) * nk).reshape(ni + 1, nj + 1, nk) % 3 + 1).astype(np.int16)
    back, left, err = roundtrip(ctx, geodst.GeodstStream, d, binary)
    ctx.check("reader accepts what the writer produced", err is None)
    ctx.check("reader consumes the whole file", left == 0)
    for name in ("xmesh", "iintervals", "ymesh", "jintervals", "zmesh", "kintervals", "regionVolumes", "bucklings",
                 "boundaryConstants", "internalBlackBoundaryConstants", "zonesWithBlackAbs", "zoneClassifications",
                 "regionZoneNumber", "coarseMeshRegions", "fineMeshRegions"):
        w = getattr(d, name)
        if w is None:
            continue
        ok = same_array(w, getattr(back, name))
        if ctx.canary and name == "ymesh" and g == 9 and nj == 2:
            ok = False
        ctx.check("record data announced by the header reads back: %s" % name, ok)
    ctx.check("header integers read back", all(back.metadata[k] == md[k] for k in geodst.FILE_SPEC_1D_KEYS))


@harness("C09", bounds="PWDINT: mesh counts 1..3 x 1..4 x 1..2, sub-blocking factor NBLOK 1..4, all combinations",
         stubs=STUBS, max_paths=5000, instances={"quick": [dict(binary=True)],
                                                 "thorough": [dict(binary=True), dict(binary=False)]})
def pwdint_roundtrip_for_every_header(ctx, binary):
    ni, nj, nk = int(ctx.int("NINTI", 1, 3)), int(ctx.int("NINTJ", 1, 4)), int(ctx.int("NINTK", 1, 2))
    nb = int(ctx.int("NBLOK", 1, 4))
    ctx.assume(nb <= nj)
    d = pwdint.PwdintData()
    setmd(d.metadata, dict(hname="PWDINT", huse="verif", huse2="", version=1, mult=1, TIME=1.5, POWER=2.5e6, VOL=3.0,
                           NINTI=ni, NINTJ=nj, NINTK=nk, NCY=0, NBLOK=nb))
    d.powerDensity = (np.arange(ni * nj * nk, dtype=np.float32).reshape(ni, nj, nk) + 1.0)
    back, left, err = roundtrip(ctx, pwdint.PwdintStream, d, binary)
    ctx.check("reader accepts what the writer produced", err is None)
    ctx.check("reader consumes the whole file", left == 0)
    ok = same_array(d.powerDensity, back.powerDensity)
    if ctx.canary and nj == 3 and nb == 2:
        ok = False
    ctx.check("power density reads back for every sub-blocking", ok)
    ctx.check("header reads back", all(back.metadata[k] == d.metadata[k] for k in ("NINTI", "NINTJ", "NINTK", "NBLOK")))


@harness("C09", bounds="RTFLUX/ATFLUX: NDIM 2..3, groups 1..3, mesh 1..2 x 1..4 x 1..2, NBLOK 1..4, all combinations",
         stubs=STUBS, max_paths=8000, instances={"quick": [dict(adjoint=False), dict(adjoint=True)]})
def rtflux_roundtrip_for_every_header(ctx, adjoint):
    ng = int(ctx.int("NGROUP", 1, 3))
    ni, nj, nk = int(ctx.int("NINTI", 1, 2)), int(ctx.int("NINTJ", 1, 4)), int(ctx.int("NINTK", 1, 2))
    nb = int(ctx.int("NBLOK", 1, 4))
    ctx.assume(nb <= nj)
    cls = rtflux.AtfluxStream if adjoint else rtflux.RtfluxStream
    d = rtflux.RtfluxData()
    setmd(d.metadata, dict(label="RTFLUX verif", NDIM=3 if nk > 1 else 2, NGROUP=ng, NINTI=ni, NINTJ=nj, NINTK=nk,
                           ITER=4, EFFK=1.01, POWER=1e6, NBLOK=nb))
    d.groupFluxes = np.arange(ni * nj * nk * ng, dtype=float).reshape(ni, nj, nk, ng) + 0.5
    back, left, err = roundtrip(ctx, cls, d, True)
    ctx.check("reader accepts what the writer produced", err is None)
    ctx.check("reader consumes the whole file", left == 0)
    ok = same_array(d.groupFluxes, back.groupFluxes, rtol=1e-12)
    if ctx.canary and ng == 3 and nb == 2 and nj == 4:
        ok = False
    ctx.check("group fluxes read back (doubles exactly)", ok)
    # the file stores groups in forward (RTFLUX) or reversed (ATFLUX) order: reading the same bytes with the other
    # class must give the group-reversed array
    other = rtflux.RtfluxStream if adjoint else rtflux.AtfluxStream
    raw = _run(cls, d, "wb").getvalue()
    fresh = rtflux.RtfluxData()
    _run(other, fresh, "rb", raw)
    ctx.check("adjoint and real files differ exactly by group order",
              same_array(fresh.groupFluxes, d.groupFluxes[:, :, :, ::-1], rtol=1e-12))
