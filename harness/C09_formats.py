"""C09: whole-file round trips of the simple CCCC formats (GEODST, PWDINT, RTFLUX/ATFLUX) with the header integers
(geometry type, coarse AND fine mesh counts, the counts of the geometry-data record, block counts, optional-record
flags) as symbolic inputs: every feasible combination within the bounds is explored, the file is written by the real
Stream class into memory and read back by the same class.

Obligations, from the property text: the reader accepts and consumes what the writer produced; every record the header
announces reads back (arrays hold pairwise different numbers, so dropped or permuted entries show); the header reads
back; writing what was read reproduces the file byte for byte; the binary file is a sequence of records framed by two
equal byte counts and holds exactly as many records as the header integers announce (independent walk over the bytes);
where the CCCC text / module documentation states the order of the numbers inside a record, one record is compared
with it byte-wise (reader and writer share one routine, so a round trip cannot see that order)."""
import io
import struct

import numpy as np

from symx.core import AND, OR, NOT, IMPLIES, IFF, ITE, Sym
from symx.engine import harness

from armi.nuclearDataIO.cccc import cccc, geodst, pwdint, rtflux

STUBS = ["file on disk -> io.BytesIO / io.StringIO handed to the real Stream object (open() is not called)",
         "header integers are symbolic and are concretised by forking where they reach struct.pack / range(); array "
         "contents are concrete, pairwise different numbers"]


def _run(streamCls, data, mode, raw=None):
    s = object.__new__(streamCls)
    cccc.Stream.__init__(s, "<memory>", mode)
    s._data = data
    s._metadata = data.metadata
    binary = "b" in mode
    s._stream = (io.BytesIO(raw) if binary else io.StringIO(raw)) if raw is not None else (io.BytesIO() if binary else io.StringIO())
    s.readWrite()
    return s._stream


def records_of(raw):
    """independent walk over a binary CCCC file: [payload bytes, ...]; None if some record is not framed by two equal
    byte counts or the file does not end with a complete record"""
    out, pos = [], 0
    while pos < len(raw):
        if pos + 4 > len(raw):
            return None
        (n,) = struct.unpack("i", raw[pos:pos + 4])
        if n < 0 or pos + 8 + n > len(raw):
            return None
        (n2,) = struct.unpack("i", raw[pos + 4 + n:pos + 8 + n])
        if n2 != n:
            return None
        out.append(raw[pos + 4:pos + 4 + n])
        pos += 8 + n
    return out


class RoundTrip:
    """write `data`, read the result into a fresh container, write that again"""

    def __init__(self, streamCls, data, binary=True):
        self.binary = binary
        self.raw = _run(streamCls, data, "wb" if binary else "w").getvalue()
        self.back = streamCls._getDataContainer()
        self.left, self.err, self.raw2 = -1, None, None
        self.records = records_of(self.raw) if binary else None
        try:
            rd = _run(streamCls, self.back, "rb" if binary else "r", self.raw)
            self.left = len(self.raw) - rd.tell()
        except Exception as e:  # noqa: BLE001 (whatever the reader raises, it did not accept the file)
            self.err = e
            return
        try:
            self.raw2 = _run(streamCls, self.back, "wb" if binary else "w").getvalue()
        except Exception as e:  # noqa: BLE001
            self.raw2 = e

    def obligations(self, ctx, numRecords=None):
        """the obligations every format shares; False when there is nothing to compare any further"""
        ctx.check("reader accepts what the writer produced", self.err is None)
        if self.err is not None:
            ctx.note("reader raised %s: %s" % (type(self.err).__name__, str(self.err).strip().splitlines()[-1][:200]
                                               if str(self.err).strip() else ""))
            return False
        ctx.check("reader consumes the whole file", self.left == 0)
        ctx.check("writing what was read reproduces the file byte for byte", self.raw2 == self.raw)
        if self.binary:
            ctx.check("the binary file is a sequence of records, each framed by two equal byte counts equal to its "
                      "payload length", self.records is not None)
            if numRecords is not None:
                ctx.check("the file holds exactly the records its header announces",
                          self.records is not None and len(self.records) == numRecords)
        return True


def same_array(a, b, rtol=1e-6):
    if a is None or b is None:
        return a is None and b is None
    a, b = np.asarray(a), np.asarray(b)
    return a.shape == b.shape and bool(np.allclose(a.astype(float), b.astype(float), rtol=rtol, atol=0))


def same_number(a, b, rtol=1e-6):
    return a is not None and b is not None and abs(float(a) - float(b)) <= rtol * abs(float(a))


def header_ok(written, back, keys, rtol=1e-6):
    """ints exactly, reals to float32 precision"""
    for k in keys:
        w, r = written[k], back[k]
        if isinstance(w, (int, np.integer)) and not isinstance(w, bool):
            if r != w:
                return False
        elif not same_number(w, r, rtol):
            return False
    return True


def setmd(md, values):
    for k, v in values.items():
        md[k] = v


def seq(n, start, dtype=float):
    return np.arange(start, start + n, dtype=dtype)


def first_block(nintj, nblok):
    """columns (0-based, half open) of the first of NBLOK blocks.  CCCC-IV: 'JL=(M-1)*((NINTJ-1)/NBLOK+1)+1,
    JU=MIN0(NINTJ,JUP), JUP=M*((NINTJ-1)/NBLOK+1)' for M = 1"""
    return 0, min(nintj, (nintj - 1) // nblok + 1)


# ---------------------------------------------------------------------------------------------------------------------
# GEODST

_GEODST_ARRAYS = ("xmesh", "iintervals", "ymesh", "jintervals", "zmesh", "kintervals", "regionVolumes", "bucklings",
                  "boundaryConstants", "internalBlackBoundaryConstants", "zonesWithBlackAbs", "zoneClassifications",
                  "regionZoneNumber", "coarseMeshRegions", "fineMeshRegions")


def _fine_intervals(ncint, nint, start):
    """fine-mesh intervals per coarse-mesh interval: they add up to the number of fine-mesh intervals"""
    out = np.ones(ncint, dtype=int)
    out[(start % ncint)] += nint - ncint
    return out


def _geodst_container(g, coarse, fine, nzone, nreg, nbs, nbcs, nibcs, nzwbb, nrass):
    """a GEODST container filled exactly as the file-structure description in GeodstStream.readWrite announces for
    this header; all arrays hold pairwise different numbers (region numbers as far as NREG allows)"""
    (ni, nj, nk), (fi, fj, fk) = coarse, fine
    d = geodst.GeodstData()
    md = d.metadata
    md["label"] = "GEODST verif"
    for i, k in enumerate(geodst.FILE_SPEC_1D_KEYS):
        md[k] = 40 + i                         # pairwise different words where nothing below says otherwise
    setmd(md, dict(IGOM=g, NZONE=nzone, NREG=nreg, NCINTI=ni, NCINTJ=nj, NCINTK=nk, NINTI=fi, NINTJ=fj, NINTK=fk,
                   NBS=nbs, NBCS=nbcs, NIBCS=nibcs, NZWBB=nzwbb, NRASS=nrass))
    has1 = 1 <= g <= 3          # slab, cylinder, sphere: 1-D meshes
    has2 = 6 <= g <= 11         # 2-D geometries
    has3 = g >= 12              # 3-D geometries
    if has1 or has2 or has3:
        d.xmesh, d.iintervals = seq(ni + 1, 0.5), _fine_intervals(ni, fi, 0)
    if has2 or has3:
        d.ymesh, d.jintervals = seq(nj + 1, 10.5), _fine_intervals(nj, fj, 1)
    if has3:
        d.zmesh, d.kintervals = seq(nk + 1, 20.5), _fine_intervals(nk, fk, 1)
    if g > 0 or nbs > 0:
        d.regionVolumes, d.bucklings = seq(nreg, 100.0), seq(nbs, 0.25)
        d.boundaryConstants, d.internalBlackBoundaryConstants = seq(nbcs, 1.125), seq(nibcs, 5.375)
        d.zonesWithBlackAbs, d.zoneClassifications = seq(nzwbb, 7, int), seq(nzone, 11, int)
        d.regionZoneNumber = (np.arange(nreg) % nzone + 1).astype(int)
    if g > 0 and nrass == 0:
        d.coarseMeshRegions = (np.arange(ni * nj * nk).reshape(ni, nj, nk) % nreg + 1).astype(np.int16)
    if g > 0 and nrass == 1:
        d.fineMeshRegions = (np.arange(fi * fj * fk).reshape(fi, fj, fk) % nreg + 1).astype(np.int16)
    return d


def _geodst_num_records(g, nk, fk, nbs, nrass):
    """file identification, file specifications, one mesh record for geometry types 1-3 / 6-11 / 12 and above, the
    geometry data record iff IGOM > 0 or NBS > 0, and for IGOM > 0 one region-assignment record per axial COARSE
    mesh interval (NRASS = 0) or per axial FINE mesh interval (NRASS = 1)"""
    n = 2 + (1 if (1 <= g <= 3 or 6 <= g <= 11 or g >= 12) else 0) + (1 if (g > 0 or nbs > 0) else 0)
    if g > 0:
        n += nk if nrass == 0 else fk
    return n


def _geodst_obligations(ctx, d, c, canary_hit=None):
    for name in _GEODST_ARRAYS:
        w = getattr(d, name)
        if w is None:
            continue
        ok = same_array(w, getattr(c.back, name))
        if canary_hit is not None and canary_hit(name):
            ok = False
        ctx.check("record data announced by the header reads back: %s" % name, ok)
    ctx.check("header integers read back", all(c.back.metadata[k] == d.metadata[k] for k in geodst.FILE_SPEC_1D_KEYS)
              and c.back.metadata["label"] == "GEODST verif")


def _geodst_mesh_body(ctx, binary, g, coarse, fine, nbs, nrass, canary_hit):
    (ni, nj, nk), (fi, fj, fk) = coarse, fine
    d = _geodst_container(g, coarse, fine, 2, 30, nbs, 1, 1, 1, nrass)
    c = RoundTrip(geodst.GeodstStream, d, binary)
    if not c.obligations(ctx, _geodst_num_records(g, nk, fk, nbs, nrass)):
        return
    _geodst_obligations(ctx, d, c, canary_hit if ctx.canary else None)
    # Reader and writer are one routine, so a round trip cannot see in which order a record lists its numbers; the
    # description of cccc._rwMatrix can: a region-assignment record is ((MR(I,J),I=1,N..I),J=1,N..J) for one plane
    if binary and g > 0 and c.records:
        regions = d.coarseMeshRegions if nrass == 0 else d.fineMeshRegions
        expect = [int(regions[i, j, -1]) for j in range(regions.shape[1]) for i in range(regions.shape[0])]
        ctx.check("the last region-assignment record lists the regions of the top plane, I running fastest",
                  len(c.records[-1]) == 4 * len(expect)
                  and list(struct.unpack("%di" % len(expect), c.records[-1])) == expect)


@harness("C09", bounds="GEODST, every geometry type: IGOM in 0..18, coarse mesh counts 1..2 per direction, fine mesh "
                       "either equal to the coarse mesh or one interval finer in every direction (quick) / "
                       "independently per direction (thorough), region assignment to the coarse or to the fine mesh "
                       "(NRASS in {0,1}), NBS = 1 (quick; the counts of the geometry-data record have their own "
                       "harness) / 0..1 (thorough): all combinations (solver-enumerated); 30 regions so that every "
                       "mesh cell has its own region number", stubs=STUBS, max_paths=8000,
         instances={"quick": [dict(binary=True, igom=(0, 18), perDirection=False, minNbs=1)],
                    "thorough": [dict(binary=b, igom=r, perDirection=True, minNbs=0) for b in (True, False)
                                 for r in ((0, 5), (6, 11), (12, 18))]})
def geodst_roundtrip_for_every_header(ctx, binary, igom, perDirection, minNbs):
    g = int(ctx.int("IGOM", igom[0], igom[1]))
    ni, nj, nk = (int(ctx.int(n, 1, 2)) for n in ("NCINTI", "NCINTJ", "NCINTK"))
    # how many fine-mesh intervals more than coarse-mesh intervals, per direction
    ri, rj, rk = (ctx.int(n, 0, 1) for n in ("refineI", "refineJ", "refineK"))
    if not perDirection:
        ctx.assume(ri == rj)
        ctx.assume(rj == rk)
    fi, fj, fk = ni + int(ri), nj + int(rj), nk + int(rk)
    nbs = int(ctx.int("NBS", minNbs, 1))
    nrass = int(ctx.int("NRASS", 0, 1))
    _geodst_mesh_body(ctx, binary, g, (ni, nj, nk), (fi, fj, fk), nbs, nrass,
                      lambda name: name == "fineMeshRegions" and g % 3 == 0 and nj == 2 and fk == 2)


@harness("C09", bounds="GEODST region-assignment records: coarse mesh counts 1..2 per direction, fine mesh counts NINTx "
                       "in NCINTx..NCINTx+1 independently per direction (a fine mesh equal to or finer than the coarse "
                       "mesh in I, J and K), region assignment to the coarse or to the fine mesh (NRASS in {0,1}), one "
                       "geometry type of each dimensionality (IGOM in {2, 7, 17}): all combinations",
         stubs=STUBS, max_paths=8000,
         instances={"quick": [dict(binary=True)], "thorough": [dict(binary=True), dict(binary=False)]})
def geodst_region_assignment_records_for_every_mesh(ctx, binary):
    g = ctx.choice("IGOM", [2, 7, 17])
    ni, nj, nk = (int(ctx.int(n, 1, 2)) for n in ("NCINTI", "NCINTJ", "NCINTK"))
    fiS, fjS, fkS = (ctx.int(n, 1, 3) for n in ("NINTI", "NINTJ", "NINTK"))
    for c_, f_ in ((ni, fiS), (nj, fjS), (nk, fkS)):
        ctx.assume(f_ >= c_)                   # every coarse-mesh interval holds at least one fine-mesh interval
        ctx.assume(f_ <= c_ + 1)
    fi, fj, fk = int(fiS), int(fjS), int(fkS)
    nrass = int(ctx.int("NRASS", 0, 1))
    _geodst_mesh_body(ctx, binary, g, (ni, nj, nk), (fi, fj, fk), 1, nrass,
                      lambda name: name == "fineMeshRegions" and g == 7 and nj == 2 and fk == 2 and fi == 1)


@harness("C09", bounds="GEODST geometry-data (5D) record: zones 1..2, regions 1..2, buckling values NBS 0..2, boundary "
                       "constants NBCS 0..2, internal black boundary constants NIBCS 0..1, zones with black absorber "
                       "NZWBB 0..2, geometry type 0 (the record exists iff NBS > 0) or 14: all combinations; binary "
                       "(thorough: and ASCII)", stubs=STUBS, max_paths=3000,
         instances={"quick": [dict(binary=True)], "thorough": [dict(binary=True), dict(binary=False)]})
def geodst_geometry_data_record_for_every_header(ctx, binary):
    g = ctx.choice("IGOM", [0, 14])
    nzone, nreg = int(ctx.int("NZONE", 1, 2)), int(ctx.int("NREG", 1, 2))
    nbs, nbcs = int(ctx.int("NBS", 0, 2)), int(ctx.int("NBCS", 0, 2))
    nibcs, nzwbb = int(ctx.int("NIBCS", 0, 1)), int(ctx.int("NZWBB", 0, 2))
    d = _geodst_container(g, (2, 1, 1), (2, 1, 2), nzone, nreg, nbs, nbcs, nibcs, nzwbb, 0)
    c = RoundTrip(geodst.GeodstStream, d, binary)
    if not c.obligations(ctx, _geodst_num_records(g, 1, 2, nbs, 0)):
        return
    _geodst_obligations(ctx, d, c, (lambda name: name == "regionZoneNumber" and nbs == 2 and nbcs == 1 and nzwbb == 2
                                    and nreg == 2) if ctx.canary else None)
    if g > 0 or nbs > 0:
        # CCCC-IV, 5D record: (VOLR(N),N=1,NREG), (BSQ(N),N=1,NBS), (BNDC(N),N=1,NBCS), (BNCI(N),N=1,NIBCS),
        # (NZHBB(N),N=1,NZWBB), (NZC(N),N=1,NZONE), (NZNR(N),N=1,NREG): one 4-byte word each
        if binary and c.records:
            k = 3 if g > 0 else 2
            ctx.check("the geometry-data record is as long as the header counts say",
                      len(c.records) > k and len(c.records[k]) == 4 * (2 * nreg + nbs + nbcs + nibcs + nzwbb + nzone))


# ---------------------------------------------------------------------------------------------------------------------
# PWDINT


@harness("C09", bounds="PWDINT: mesh counts 1..3 x 1..4 x 1..2, sub-blocking factor NBLOK 1..4, all combinations",
         stubs=STUBS, max_paths=5000, instances={"quick": [dict(binary=True)],
                                                 "thorough": [dict(binary=True), dict(binary=False)]})
def pwdint_roundtrip_for_every_header(ctx, binary):
    ni, nj, nk = int(ctx.int("NINTI", 1, 3)), int(ctx.int("NINTJ", 1, 4)), int(ctx.int("NINTK", 1, 2))
    nb = int(ctx.int("NBLOK", 1, 4))
    ctx.assume(nb <= nj)
    d = pwdint.PwdintData()
    setmd(d.metadata, dict(hname="PWDINT", huse="verif", huse2="u2", version=1, mult=2, TIME=1.5, POWER=2.5e6, VOL=3.0,
                           NINTI=ni, NINTJ=nj, NINTK=nk, NCY=5, NBLOK=nb))
    written = dict(d.metadata.items())
    d.powerDensity = (np.arange(ni * nj * nk, dtype=np.float32).reshape(ni, nj, nk) + 1.0)
    want = d.powerDensity.copy()
    c = RoundTrip(pwdint.PwdintStream, d, binary)
    if not c.obligations(ctx, 2 + nk * nb):      # one power-density record per plane and block
        return
    back = c.back
    ok = same_array(want, back.powerDensity)
    if ctx.canary and nj == 3 and nb == 2:
        ok = False
    ctx.check("power density reads back for every sub-blocking", ok)
    ctx.check("header reads back", header_ok(written, back.metadata, pwdint.FILE_SPEC_1D_KEYS)
              and all(back.metadata[k] == written[k] for k in ("hname", "huse", "huse2", "version", "mult")))
    if binary and c.records:
        # CCCC-IV: ((PWR(I,J),I=1,NINTI),J=JL,JU) for each block of each plane
        jl, ju = first_block(nj, nb)
        expect = [float(want[i, j, 0]) for j in range(jl, ju) for i in range(ni)]
        ctx.check("the first power-density record lists the first block of columns of the first plane, I running "
                  "fastest", len(c.records[2]) == 4 * len(expect)
                  and list(struct.unpack("%df" % len(expect), c.records[2])) == expect)


# ---------------------------------------------------------------------------------------------------------------------
# RTFLUX / ATFLUX


@harness("C09", bounds="RTFLUX/ATFLUX: NDIM 2..3, groups 1..3, mesh 1..2 x 1..4 x 1..2, NBLOK 1..4, all combinations; "
                       "binary (thorough: and ASCII)",
         stubs=STUBS, max_paths=8000,
         instances={"quick": [dict(adjoint=False, binary=True), dict(adjoint=True, binary=True)],
                    "thorough": [dict(adjoint=a, binary=b) for a in (False, True) for b in (True, False)]})
def rtflux_roundtrip_for_every_header(ctx, adjoint, binary):
    ng = int(ctx.int("NGROUP", 1, 3))
    ni, nj, nk = int(ctx.int("NINTI", 1, 2)), int(ctx.int("NINTJ", 1, 4)), int(ctx.int("NINTK", 1, 2))
    nb = int(ctx.int("NBLOK", 1, 4))
    ctx.assume(nb <= nj)
    cls = rtflux.AtfluxStream if adjoint else rtflux.RtfluxStream
    d = rtflux.RtfluxData()
    setmd(d.metadata, dict(label="RTFLUX verif", NDIM=3 if nk > 1 else 2, NGROUP=ng, NINTI=ni, NINTJ=nj, NINTK=nk,
                           ITER=4, EFFK=1.5, POWER=1048576.0, NBLOK=nb))
    written = dict(d.metadata.items())
    d.groupFluxes = np.arange(ni * nj * nk * ng, dtype=float).reshape(ni, nj, nk, ng) + 0.5
    want = d.groupFluxes.copy()
    c = RoundTrip(cls, d, binary)
    if not c.obligations(ctx, 2 + ng * nk * nb):   # one flux record per group, plane and block
        return
    back = c.back
    ok = same_array(want, back.groupFluxes, rtol=1e-12)
    if ctx.canary and ng == 3 and nb == 2 and nj == 4:
        ok = False
    ctx.check("group fluxes read back (doubles exactly)", ok)
    ctx.check("header reads back", header_ok(written, back.metadata, rtflux.FILE_SPEC_1D_KEYS)
              and back.metadata["label"] == "RTFLUX verif")
    # the file stores groups in forward (RTFLUX) or reversed (ATFLUX) order: reading the same bytes with the other
    # class must give the group-reversed array
    other = rtflux.RtfluxStream if adjoint else rtflux.AtfluxStream
    fresh = rtflux.RtfluxData()
    _run(other, fresh, "rb" if binary else "r", c.raw)
    ctx.check("adjoint and real files differ exactly by group order",
              same_array(fresh.groupFluxes, want[:, :, :, ::-1], rtol=1e-12))
    if binary and c.records:
        # CCCC-IV: ((FREG(I,J),I=1,NINTI),J=JL,JU) for each block, plane and group; RTFLUX lists the groups in order,
        # ATFLUX in reversed order
        jl, ju = first_block(nj, nb)
        gFirst = ng - 1 if adjoint else 0
        expect = [float(want[i, j, 0, gFirst]) for j in range(jl, ju) for i in range(ni)]
        ctx.check("the first flux record lists the first block of columns of the first plane of the first group on "
                  "the file, I running fastest", len(c.records[2]) == 8 * len(expect)
                  and list(struct.unpack("%dd" % len(expect), c.records[2])) == expect)
