"""C14: fuel shuffling conserves the inventory and keeps the core's lookup tables truthful."""
import itertools

from symx.core import AND, OR, NOT, IMPLIES, ITE, CLOSE, Sym
from symx.engine import harness
from symx import shims

import armi.reactor.composites as compmod
import armi.reactor.components.component as cmod
import armi.reactor.blocks as blkmod
import armi.reactor.assemblies as asmmod
import armi.reactor.grids.structuredGrid as sgmod
from armi.physics.fuelCycle.fuelHandlers import FuelHandler
from armi.reactor.flags import Flags
from armi.settings import Settings
from armi.settings.fwSettings.globalSettings import CONF_STATIONARY_BLOCK_FLAGS, CONF_TRACK_ASSEMS

from harness import _util_C13 as U

shims.patch(compmod, np=shims.np_shim)
shims.patch(cmod, np=shims.np_shim, float=shims.float_shim)
shims.patch(blkmod, np=shims.np_shim)
shims.patch(asmmod, np=shims.np_shim)
shims.patch(sgmod, np=shims.np_shim)

STUBS = ["composites.np / component.np / blocks.np / assemblies.np / structuredGrid.np -> object-array aware numpy "
         "shim", "component.float -> identity on proxies",
         "operator: a stub object exposing .r and .cs (FuelHandler only reads these)",
         "core.stationaryBlockFlagsList derived from cs['stationaryBlockFlags'] with the three lines of "
         "Core.processLoading (processLoading itself needs full blueprints)",
         "assemblies stored in the spent fuel pool from the start are put there with SpentFuelPool.add and registered "
         "with Core.regenAssemblyLists (what armi.testing.loadTestReactor does for the pool of the reference reactor)"]

# Guarded obligations: candidate genuine defects found by these harnesses (set a flag to False to see the violation).
# Plain-Python reproductions (full-core mini reactor from harness/_util_C13.py, assemblies of (grid plate, fuel) blocks,
# core.stationaryBlockFlagsList = [Flags.GRID_PLATE], fresh = assembly not yet in the core, placeholder number):
#  pool_block_not_registered: trackAssems on; fh.dischargeSwap(fresh, a0) -> the grid plate that leaves with a0 to the
#    pool (the fresh assembly's one) is not in core.blocksByName (it was exchanged before Core.add registered fresh).
#  stale_block_alias: same call -> Core.add renumbers fresh and renames the grid plate that stayed ('B0000-000' ->
#    'B0002-000') but blocksByName keeps the key 'B0000-000'; with trackAssems off a later
#    core.removeAssembly(fresh) purges that block and getBlockByName('B0000-000') still returns it.
#  refused_add_not_atomic: core.add(fresh, occupiedLocator) raises KeyError while formatting the intended ValueError
#    (it indexes childrenByLocator with fresh's own locator) after Composite.add already appended fresh: the core
#    has one child more, fresh.parent is core, mass counted, no table knows it.
#  moveTo_leaves_stale_locator_entry: a.moveTo(core.spatialGrid[emptyCell]) -> childrenByLocator keeps the old
#    entry: the vacated cell still resolves to a, a later core.add to the vacated cell is refused.
KNOWN_DEFECT_pool_block_not_registered = False  # recorded in known_findings.jsonl
KNOWN_DEFECT_stale_block_alias = False  # recorded in known_findings.jsonl
KNOWN_DEFECT_refused_add_not_atomic = False  # repaired in /repo (fix: d52af37)
# Assembly.moveTo is a composite-level call, not one of the fuel-management operations the property quantifies over
# (swap / cascade / discharge / add / remove): the location-table obligations after a bare moveTo would demand more
# than the property states, so they stay switched off (observation recorded in DESIGN.md section 9).
KNOWN_DEFECT_moveTo_leaves_stale_locator_entry = True

# Round 4 (reported by an independent engineer, confirmed here; repairs proposed in /tmp/scratch/triage/<flag>.diff,
# flags stay True until the repair is committed in /repo).  Same mini reactor:
#  add_foreign_locator_bypasses_occupancy: core.add(fresh, core.spatialGrid[1, 0, 0].detachedCopy()) (or a locator
#    of another HexGrid, or core.add(x) of an assembly x that was removed earlier and still carries the detached
#    copy of its old cell) with that cell occupied -> accepted: two children at (1, 0), the occupant's
#    childrenByLocator entry overwritten (locators compare by grid identity, the occupancy test runs before the
#    locator is converted to the core grid).
#  remove_of_non_member_corrupts_location_table: fresh.spatialLocator = core.spatialGrid[1, 0, 0];
#    core.removeAssembly(fresh) -> ValueError (not a child) AFTER childrenByLocator.pop: the occupant of (1, 0) is
#    still a child but getAssemblyWithStringLocation('002-001') returns None.
#  swap_with_itself_loses_stationary_block: stationaryBlockFlags [GRID_PLATE]; fh.swapAssemblies(a, a) ->
#    ValueError (list.remove(x): x not in list) after the grid plate was taken out: len(a) 3 -> 2 for good.
#  pool_assigned_by_attribute_not_in_collection: r.excore.sfp = SpentFuelPool('sfp') -> 'sfp' not in r.excore
#    (ExcoreCollection.__setattr__ tests `type(value) is ExcoreStructure`); with trackAssems on
#    core.removeAssembly(a) then finds no pool: a is dropped but stays in assembliesByName / blocksByName.
KNOWN_DEFECT_add_foreign_locator_bypasses_occupancy = False  # repaired in /repo (fix: 9b746ec)
KNOWN_DEFECT_remove_of_non_member_corrupts_location_table = False  # repaired in /repo (fix: 8703606)
KNOWN_DEFECT_swap_with_itself_loses_stationary_block = False  # repaired in /repo (fix: 4ab6070)
KNOWN_DEFECT_pool_assigned_by_attribute_not_in_collection = False  # repaired in /repo (fix: 6067ff3)

CELLS = [(0, 0), (1, 0), (0, 1), (2, -1)]
TYPES = ("grid plate", "fuel", "plenum")
# stationary blocks at the bottom (grid plate), at the top (plenum), in the middle (fuel), at bottom and top
STAT = {"none": [], "gridplate": ["GRID_PLATE"], "two": ["GRID_PLATE", "PLENUM"], "plenum": ["PLENUM"],
        "fuel": ["FUEL"]}
# taller assemblies for settings with SEVERAL stationary blocks at arbitrary axial levels: one block type (= one flag)
# per level ("4", "5"), or the same type at two levels ("ctrl5": a control assembly, ducts at levels 1 and 4, so that
# stationaryBlockFlags = [GRID_PLATE, DUCT] keeps levels 0, 1 and 4 in place)
KINDS = {"3": TYPES, "4": ("grid plate", "shield", "fuel", "plenum"),
         "5": ("grid plate", "shield", "fuel", "plenum", "duct"),
         "ctrl5": ("grid plate", "duct", "control", "plenum", "duct")}
NUCS = ("U235", "FE")
QUEUE, POOL, GONE = "queue", "pool", "gone"
HMAX = 400.0       # cm: tallest block; (number of blocks) x HMAX is the scale of elevation comparisons


def flags_of_levels(kind, levels):
    """The stationaryBlockFlags setting that designates exactly the blocks at the given axial levels of an assembly
    of KINDS[kind] (the flag of a block is its type name)."""
    names = []
    for k in levels:
        n = KINDS[kind][k].upper().replace(" ", "_")
        if n not in names:
            names.append(n)
    return tuple(names)


class Op:
    """Stub operator: FuelHandler reads o.r and o.cs only."""


class World:
    """The real objects plus a reference model of where every assembly and block ought to be."""

    def __init__(self, ctx, track, stat, symmetry="full", nfresh=1, cells=CELLS, types=None, sharedStatHeight=False,
                 nstored=0, kind="3"):
        """stat: a key of STAT or a sequence of flag names; kind: key of KINDS (block types of every assembly, unless
        `types` lists them per assembly)."""
        self.ctx = ctx
        self.track = track
        statFlags = STAT[stat] if isinstance(stat, str) else list(stat)
        cs = Settings().modified(newSettings={CONF_TRACK_ASSEMS: track, CONF_STATIONARY_BLOCK_FLAGS: statFlags})
        self.r, self.core, self.sfp = U.mk_reactor(symmetry, sfp=True)
        self.core.setOptionsFromCs(cs)
        self.core.stationaryBlockFlagsList = [Flags.fromString(s) for s in cs[CONF_STATIONARY_BLOCK_FLAGS]]
        flags = self.core.stationaryBlockFlagsList
        o = Op()
        o.r, o.cs = self.r, cs
        self.fh = FuelHandler(o)
        self.asms, self.h, self.n = [], {}, {}
        ntot = len(cells) + nfresh + nstored
        stored = list(range(len(cells) + nfresh, ntot))
        for ai in range(ntot):
            ty = KINDS[kind] if types is None else types[ai]
            hs = [ctx.real("h_%d_%d" % (ai, k), 1.0, 400.0) for k in range(len(ty))]
            if sharedStatHeight and ai:
                # stationary blocks are meant to sit at equal elevations (fuelHandlers only warns otherwise): one
                # symbol per axial level, for all assemblies, up to the top-most stationary block avoids forking on
                # the comparison of their top elevations (grid plate only: just the grid-plate height is shared)
                a0 = self.asms[0]
                top = max([0] + [k for k, b in enumerate(a0) if any(b.hasFlags(f) for f in flags)])
                for k in range(min(top + 1, len(hs))):
                    hs[k] = a0[k].getHeight()
            a = U.mk_assembly(ty, heights=hs)
            if ai < len(cells):
                self.core.add(a, self.core.spatialGrid[cells[ai] + (0,)])
            elif ai in stored:
                self.sfp.add(a)
            self.n[ai] = U.inject_densities(ctx, a, "%d" % ai, nucs=NUCS)
            self.h[ai] = hs
            self.asms.append(a)
        if stored:
            self.core.regenAssemblyLists()
        # reference model
        self.where = {ai: (cells[ai] if ai < len(cells) else (POOL if ai in stored else QUEUE)) for ai in range(ntot)}
        self.blocks = {ai: list(a) for ai, a in enumerate(self.asms)}
        self.statIdx = [k for k, b in enumerate(self.asms[0]) if any(b.hasFlags(f) for f in flags)]
        self.types0 = {ai: [b.getType() for b in a] for ai, a in enumerate(self.asms)}
        self.zmax = HMAX * max(len(a) for a in self.asms)
        self.allBlocks = [b for a in self.asms for b in a]
        self.block0 = {id(b): dict(h=b.getHeight(),
                                   N={(ci, n): c.getNumberDensity(n) for ci, c in enumerate(b) for n in NUCS},
                                   m={n: b.getMass(n) for n in NUCS},
                                   comps=list(b)) for b in self.allBlocks}
        self.total0 = {n: sum(self.block0[id(b)]["m"][n] for b in self.allBlocks) for n in NUCS}
        # elevations recorded on the blocks when the assemblies were made (Assembly.calculateZCoords)
        self.z0 = {id(b): (b.p.zbottom, b.p.ztop) for b in self.allBlocks}
        # the stationary blocks of all assemblies sit at the same elevations (then exchanging them keeps every stack
        # gap-free; otherwise fuelHandlers warns and the elevations are the caller's business)
        self.statAligned = AND(*[AND(self.z0[id(a[k])][0] == self.z0[id(self.asms[0][k])][0],
                                     self.z0[id(a[k])][1] == self.z0[id(self.asms[0][k])][1])
                                 for a in self.asms[1:] for k in self.statIdx if k < len(a)] + [True])
        self.freshStationaryDischarged = False   # scenario of the two block-name defects

    # ---- reference semantics (from the doc strings of the operations)
    def inCore(self):
        return [ai for ai, w in self.where.items() if isinstance(w, tuple)]

    def at(self, cell):
        for ai, w in self.where.items():
            if w == cell:
                return ai
        return None

    def _exchangeStationary(self, x, y):
        for k in self.statIdx:
            self.blocks[x][k], self.blocks[y][k] = self.blocks[y][k], self.blocks[x][k]

    def m_swap(self, x, y):
        self._exchangeStationary(x, y)
        self.where[x], self.where[y] = self.where[y], self.where[x]

    def m_cascade(self, xs):
        """[A, B, C, D]: B takes A's place, C takes B's, D takes C's, A takes D's; stationary blocks stay put."""
        if xs[0] is None:
            return
        xs = [x for x in xs if x is not None]
        oldCell = {x: self.where[x] for x in xs}
        statAt = {self.where[x]: {k: self.blocks[x][k] for k in self.statIdx} for x in xs}
        for n, x in enumerate(xs):
            self.where[x] = oldCell[xs[n - 1]]
        for x in xs:
            for k in self.statIdx:
                self.blocks[x][k] = statAt[self.where[x]][k]

    def m_discharge(self, inc, out):
        if self.statIdx and self.where[inc] == QUEUE:
            self.freshStationaryDischarged = True
        self._exchangeStationary(inc, out)
        self.where[inc] = self.where[out]
        self.where[out] = POOL if self.track else GONE

    def m_remove(self, x):
        self.where[x] = POOL if self.track else GONE

    def m_purge(self, x):
        """removeAssembly(a, discharge=False): deleted, never stored, whatever the tracking option says."""
        self.where[x] = GONE

    def m_add(self, inc, cell):
        self.where[inc] = cell

    # ---- actions
    def actions(self, level):
        core = sorted(self.inCore())
        out = [ai for ai, w in sorted(self.where.items()) if w in (QUEUE, POOL)]
        empty = [c for c in CELLS if self.at(c) is None]
        acts = []
        if level in ("full", "wide"):
            acts += [("swap", x, y) for x in core for y in core if x != y]
            if core and not (KNOWN_DEFECT_swap_with_itself_loses_stationary_block and self.statIdx):
                # the degenerate pair: an assembly swapped with itself stays what and where it is
                acts += [("swap", core[-1], core[-1])]
            acts += [("cascade",) + p for p in itertools.permutations(core, 3)]
            if level == "full":
                acts += [("cascade",) + p for p in itertools.permutations(core, 4)]
            if len(core) >= 2 and level == "full":
                # None entries (failed findAssembly results) are skipped; a None head makes every swap a no-op
                acts += [("cascade", core[0], None, core[1]), ("cascade", None, core[0], core[1])]
            acts += [("discharge", i, o) for i in out for o in core]
            acts += [("remove", x) for x in core]
            acts += [("purge", x) for x in core]
            acts += [("add", i, c) for i in out if self.where[i] == QUEUE for c in empty]
        else:
            sub = core[:3]
            acts += [("swap", x, y) for x, y in itertools.combinations(sub, 2)]
            if len(core) >= 2:
                acts += [("swap", core[-1], core[0])]
            if len(sub) == 3:
                acts += [("cascade",) + tuple(sub), ("cascade", sub[2], sub[0], sub[1])]
            if len(core) == 4:
                acts += [("cascade", core[3], core[1], core[0], core[2])]
            acts += [("discharge", i, o) for i in out[:2] for o in (core[0], core[-1])]
            acts += [("remove", core[0]), ("remove", core[-1])] if core else []
            # (without tracking a purge and a plain removal are specified alike: one of them is enough here)
            acts += [("purge", core[len(core) // 2])] if core and self.track else []
            acts += [("add", i, c) for i in out[:1] if self.where[i] == QUEUE for c in empty[:1]]
        return acts

    def apply(self, act):
        A = self.asms
        if act[0] == "swap":
            self.fh.swapAssemblies(A[act[1]], A[act[2]])
            self.m_swap(act[1], act[2])
        elif act[0] == "cascade":
            self.fh.swapCascade([A[x] if x is not None else None for x in act[1:]])
            self.m_cascade(list(act[1:]))
        elif act[0] == "discharge":
            self.fh.dischargeSwap(A[act[1]], A[act[2]])
            self.m_discharge(act[1], act[2])
        elif act[0] == "remove":
            self.core.removeAssembly(A[act[1]])
            self.m_remove(act[1])
        elif act[0] == "purge":
            self.core.removeAssembly(A[act[1]], discharge=False)
            self.m_purge(act[1])
        elif act[0] == "add":
            self.core.add(A[act[1]], self.core.spatialGrid[act[2] + (0,)])
            self.m_add(act[1], act[2])

    # ---- obligations
    def check(self, what, canary=False):
        ctx, core, sfp, A = self.ctx, self.core, self.sfp, self.asms
        kids, pool = list(core), list(sfp)
        inCore = [ai for ai in sorted(self.where) if isinstance(self.where[ai], tuple)]
        inPool = [ai for ai in sorted(self.where) if self.where[ai] == POOL]
        gone = [ai for ai in sorted(self.where) if self.where[ai] == GONE]
        queue = [ai for ai in sorted(self.where) if self.where[ai] == QUEUE]
        # who is where: nothing duplicated, nothing lost
        ctx.check("%s: the core holds exactly the assemblies the operations left there, each once" % what,
                  len(kids) == len(inCore) and all(any(k is A[ai] for k in kids) for ai in inCore))
        ctx.check("%s: the pool holds exactly the discharged assemblies, each once" % what,
                  len(pool) == len(inPool) and all(any(k is A[ai] for k in pool) for ai in inPool))
        ctx.check("%s: no assembly is in the core and in the spent fuel pool at once" % what,
                  not any(k is q for k in kids for q in pool))
        ctx.check("%s: core, pool, load queue and purged assemblies add up to the assemblies ever made" % what,
                  len(kids) + len(pool) + len(gone) + len(queue) == len(A) and
                  len(kids) + len(pool) == len(inCore) + len(inPool))
        ctx.check("%s: an assembly that was deleted (not stored) is neither in the core nor in the pool" % what,
                  not any(k is A[ai] for ai in gone for k in kids + pool))
        ctx.check("%s: the assembly list of core plus pool is what the core reports with includeSFP" % what,
                  sorted(id(a) for a in core.getAssemblies(includeSFP=True)) == sorted(id(a) for a in kids + pool))
        ctx.check("%s: parents agree with membership" % what,
                  all(A[ai].parent is core for ai in inCore) and all(A[ai].parent is sfp for ai in inPool) and
                  all(A[ai].parent is None for ai in gone + queue))
        for ai in inCore:
            ctx.check("%s: assembly %d sits where the operation put it" % (what, ai),
                      tuple(int(x) for x in A[ai].spatialLocator.indices[:2]) == self.where[ai] and
                      A[ai].spatialLocator.grid is core.spatialGrid and
                      A[ai].getLocation() == core.spatialGrid.getLabel(self.where[ai]))
        ctx.check("%s: each core location holds at most one assembly" % what,
                  len(set(tuple(a.spatialLocator.indices) for a in kids)) == len(kids))
        ctx.check("%s: each pool location holds at most one assembly" % what,
                  len(set(tuple(a.spatialLocator.indices) for a in pool)) == len(pool) and
                  all(a.getLocation() == "SFP" for a in pool))
        # lookup by location
        cbl = core.childrenByLocator
        ctx.check("%s: childrenByLocator lists exactly the assemblies present" % what,
                  len(cbl) == len(kids) and all(cbl.get(a.spatialLocator) is a for a in kids))
        for c in CELLS:
            ai = self.at(c)
            ctx.check("%s: location lookup of cell %s" % (what, (c,)),
                      core.getAssemblyWithStringLocation(core.spatialGrid.getLabel(c)) is (A[ai] if ai is not None
                                                                                           else None))
        # lookup by name
        live = kids + pool
        abn, bbn = core.assembliesByName, core.blocksByName
        names = [a.getName() for a in live]
        ctx.check("%s: live assemblies have distinct names" % what, len(set(names)) == len(names))
        ctx.check("%s: assembliesByName finds every assembly of core and pool under its current name" % what,
                  all(abn.get(a.getName()) is a for a in live))
        ctx.check("%s: assembliesByName has no other entry (nothing purged, no stale name)" % what,
                  len(abn) == len(live))
        liveBlocks = [b for a in live for b in a]
        bnames = [b.getName() for b in liveBlocks]
        ctx.check("%s: live blocks have distinct names" % what, len(set(bnames)) == len(bnames))
        coreBlocks = [b for a in kids for b in a]
        ctx.check("%s: blocksByName finds every block of the core under its current name" % what,
                  all(bbn.get(b.getName()) is b for b in coreBlocks))
        if self.freshStationaryDischarged and (KNOWN_DEFECT_pool_block_not_registered or KNOWN_DEFECT_stale_block_alias):
            ctx.note("KNOWN_DEFECT block-name table after dischargeSwap of a fresh assembly with stationary blocks: "
                     "guarded obligations skipped on these histories")
        if not (KNOWN_DEFECT_pool_block_not_registered and self.freshStationaryDischarged and self.track):
            ctx.check("%s: blocksByName finds every block of the pool under its current name" % what,
                      all(bbn.get(b.getName()) is b for a in pool for b in a))
        if not (KNOWN_DEFECT_stale_block_alias and self.freshStationaryDischarged):
            # (the stale key of a renamed stationary block outlives the later purge of that block)
            ctx.check("%s: blocksByName never returns a purged block" % what,
                      all(any(v is b for b in liveBlocks) for v in bbn.values()))
        if not (KNOWN_DEFECT_stale_block_alias and self.freshStationaryDischarged):
            ctx.check("%s: every blocksByName key is the current name of its block" % what,
                      all(v.getName() == k for k, v in bbn.items()))
        for ai in gone:
            ctx.check("%s: purged assembly %d is not returned by the name lookup" % (what, ai),
                      all(v is not A[ai] for v in abn.values()))
        # contents: block order; stationary blocks stay at their core position and change assemblies
        for ai in sorted(self.where):
            want = self.blocks[ai]
            ctx.check("%s: assembly %d holds the expected blocks in order" % (what, ai),
                      len(A[ai]) == len(want) and all(g is w for g, w in zip(A[ai], want)))
            ctx.check("%s: blocks of assembly %d know their parent and axial index" % (what, ai),
                      all(b.parent is A[ai] and int(b.spatialLocator.k) == k for k, b in enumerate(A[ai])))
            ctx.check("%s: assembly %d is stacked in the original axial order of block types" % (what, ai),
                      [b.getType() for b in A[ai]] == self.types0[ai])
            # elevations (stationary blocks aligned): the stack of each assembly is gap-free bottom-up in its current
            # block order
            zs, stack = 0.0, []
            for b in A[ai]:
                hb = self.block0[id(b)]["h"]
                stack.append(AND(CLOSE(b.p.zbottom, zs, scale=self.zmax), CLOSE(b.p.ztop, zs + hb, scale=self.zmax)))
                zs = zs + hb
            ctx.check("%s: elevations of assembly %d follow its block order without gap or overlap" % (what, ai),
                      IMPLIES(self.statAligned, AND(*stack + [True])))
        # contents of every block ever made are untouched by the moves
        for bi, b in enumerate(self.allBlocks):
            old = self.block0[id(b)]
            ctx.check("%s: block %d keeps its components" % (what, bi),
                      len(b) == len(old["comps"]) and all(c is o for c, o in zip(b, old["comps"])))
            hw = old["h"]
            if canary and bi == 4:
                hw = hw * ITE(old["h"] > 399, 1.01, 1.0)
            ctx.check_close("%s: block %d keeps its height" % (what, bi), b.getHeight(), hw, scale=hw)
            for (ci, n), v in old["N"].items():
                ctx.check_close("%s: block %d component %d keeps N(%s)" % (what, bi, ci, n),
                                b[ci].getNumberDensity(n), v, scale=v + 1e-30)
        # inventory
        for n in NUCS:
            got = {}
            for ai in sorted(self.where):
                want = sum(self.block0[id(b)]["m"][n] for b in self.blocks[ai])
                got[ai] = A[ai].getMass(n)
                ctx.check_close("%s: mass(%s) of assembly %d = sum over the blocks it should hold" % (what, n, ai),
                                got[ai], want, scale=want + 1e-30)
            want = sum(self.block0[id(b)]["m"][n] for ai in inCore for b in self.blocks[ai])
            ctx.check_close("%s: core mass(%s)" % (what, n), core.getMass(n), want, scale=want + 1e-30)
            wantP = sum(self.block0[id(b)]["m"][n] for ai in inPool for b in self.blocks[ai])
            ctx.check_close("%s: pool mass(%s)" % (what, n), sfp.getMass(n) if pool else 0.0, wantP,
                            scale=wantP + 1e-30)
            tot = sum(got.values())
            ctx.check_close("%s: total inventory of %s (core + pool + not yet charged + purged) conserved" % (what, n),
                            tot, self.total0[n], scale=self.total0[n] + 1e-30)


BOUNDS = ("full-core mini reactor, 4 occupied cells (centre, ring 2 x2, ring 3) + 1 fresh assembly + spent fuel pool, "
          "(instances with nstored=1: + 1 assembly stored in the pool from the start), "
          "3 blocks (grid plate / fuel / plenum) per assembly (instances with kind=4 / 5 / ctrl5: 4 or 5 blocks of "
          "distinct types, or grid plate / duct / control / plenum / duct, with the stationary flags chosen so that a "
          "given subset of two or more axial levels stays in place: quick 4 subsets, thorough every subset); "
          "symbolic: 15 (18) block heights [1,400], 60 (72) number "
          "densities [0,10], the action of each of K steps (forked over all legal ones: swap, cascade, dischargeSwap "
          "of a fresh or a stored assembly, removeAssembly with discharge=True and discharge=False, add); enumerated: "
          "trackAssems, stationaryBlockFlags in {[], [GRID_PLATE], [GRID_PLATE, PLENUM], [PLENUM] (top block), "
          "[FUEL] (middle block)}")


@harness("C14", bounds=BOUNDS + "; K=1 over the full action set (ordered swaps, one assembly swapped with itself, all 3- and 4-cascades, cascades with None entries, discharge, remove, "
                                "purge = removeAssembly(discharge=False)), or over the reduced / wide set for the instances that say so "
                                "(top / middle / bottom+top stationary blocks, an assembly stored in the pool from the start); "
                                "quick: one shared symbol for all grid-plate heights (no fork on the top-elevation "
                                "comparison), thorough: independent heights",
         stubs=STUBS, qtimeout_ms=20000, max_paths=3000,
         instances={"quick": [dict(track=t, stat=s, shared=True) for t in (True, False) for s in ("none", "gridplate")] +
                             # stationary blocks at the top / in the middle / at both ends of the assemblies, and an
                             # assembly stored in the pool from the start (with and without tracking): reduced actions
                             # (fresh=False: the fresh assembly is not discharged in; with stationary blocks that
                             # history lies inside the recorded block-name findings - those instances are thorough)
                             [dict(track=False, stat="plenum", shared=True, level="reduced", nstored=1, fresh=False),
                              dict(track=True, stat="two", shared=True, level="reduced", nstored=1, fresh=False),
                              dict(track=True, stat="fuel", shared=True, level="reduced", nstored=1, fresh=False),
                              dict(track=False, stat="none", shared=True, level="reduced", nstored=1)] +
                             # several stationary blocks at arbitrary axial levels of taller assemblies (levels given
                             # per instance; the flag setting is derived from the block types at those levels)
                             [dict(track=t, kind=k, stat=flags_of_levels(k, lv), shared=True, level="reduced",
                                   nstored=1, fresh=False)
                              for t, k, lv in ((True, "ctrl5", (0, 1, 4)), (False, "5", (1, 3)),
                                               (False, "5", (0, 2, 3)), (True, "4", (1, 2)))],
                    "thorough": [dict(track=t, stat=s, shared=False) for t in (True, False)
                                 for s in ("none", "gridplate", "two")] +
                                # every subset of two or more axial levels of 4- and 5-block assemblies
                                # (tracking on / off alternating)
                                [dict(track=sum(lv) % 2 == 0, kind=k, stat=flags_of_levels(k, lv), shared=True,
                                      level="reduced", nstored=1, fresh=False)
                                 for k in ("4", "5") for n in range(2, len(KINDS[k]) + 1)
                                 for lv in itertools.combinations(range(len(KINDS[k])), n)] +
                                [dict(track=t, kind="ctrl5", stat=st, shared=sh, level="wide", nstored=1)
                                 for t in (True, False) for st, sh in ((("GRID_PLATE", "DUCT"), True),
                                                                       (("DUCT",), True), (("DUCT", "PLENUM"), False))] +
                                [dict(track=t, stat=s, shared=sh, level="wide", nstored=1) for t in (True, False)
                                 for s, sh in (("none", False), ("plenum", True), ("fuel", True), ("two", True))] +
                                [dict(track=t, stat=s, shared=False, level="reduced", nstored=1) for t in (True, False)
                                 for s in ("plenum", "fuel")]})
def every_single_operation_keeps_the_books(ctx, track, stat, shared, level="full", nstored=0, fresh=True, kind="3"):
    w = World(ctx, track, stat, sharedStatHeight=shared, nstored=nstored, kind=kind)
    acts = [a for a in w.actions(level) if fresh or not (a[0] == "discharge" and w.where[a[1]] == QUEUE)]
    act = ctx.choice("act0", acts)
    w.apply(act)
    w.check("after %s" % (act,), canary=ctx.canary)


@harness("C14", bounds=BOUNDS + "; K steps over a reduced action set (K=2 quick, K=3 thorough; thorough also K=2 "
                                "over ordered swaps + all 3-cascades + discharge / remove / purge / add; reduced set: one purge, with tracking on only); shared grid-plate height; state checked at the end of every history "
                                "(prefix-closed, so after every step)",
         stubs=STUBS, qtimeout_ms=20000, max_paths=4000,
         instances={"quick": [dict(track=t, stat=s, K=2, level="reduced") for t in (True, False)
                              for s in ("none", "gridplate")],
                    "thorough": [dict(track=t, stat=s, K=3, level="reduced") for t in (True, False)
                                 for s in ("none", "gridplate")] +
                                [dict(track=True, stat="two", K=2, level="reduced")] +
                                [dict(track=t, stat=s, K=2, level="wide") for t in (True, False)
                                 for s in ("none", "gridplate")]})
def sequences_of_operations_keep_the_books(ctx, track, stat, K, level):
    w = World(ctx, track, stat, sharedStatHeight=True)
    done = []
    for step in range(K):
        acts = w.actions(level)
        if not acts:
            break
        act = ctx.choice("act%d" % step, acts)
        w.apply(act)
        done.append(act)
    # every proper prefix of this history is itself a (shorter) history of the same action set, so checking the final
    # state of every history of length <= K checks the state after every step
    w.check("after %s" % (done,), canary=ctx.canary)


# (stationaryBlockFlags key of STAT, block types of the odd assemblies): the regular assemblies are TYPES
ODD_LAYOUTS = {
    "shifted": ("gridplate", ("fuel", "grid plate", "plenum")),      # [0] against [1]
    "prefix": ("two", ("grid plate", "fuel", "fuel")),               # [0, 2] against [0]: fewer, common prefix equal
    "nostationary": ("gridplate", ("fuel", "fuel", "plenum")),       # [0] against []
    "superset": ("gridplate", ("grid plate", "grid plate", "plenum")),  # [0] against [0, 1]: more
    "suffix": ("two", ("fuel", "fuel", "plenum")),                   # [0, 2] against [2]
}


@harness("C14", bounds="as above; the stationary blocks of one assembly in the core and of the fresh one sit at "
                       "OTHER axial indices than those of the rest (instance: shifted to another index; fewer of "
                       "them, the list of indices a prefix / a suffix of the regular one; none at all; more): every "
                       "swap / discharge between the two layouts must be refused (ValueError), leaving everything "
                       "where it was; heights and densities symbolic", stubs=STUBS, qtimeout_ms=20000,
         instances={"quick": [dict(track=True), dict(track=False), dict(track=True, layout="prefix"),
                              dict(track=False, layout="nostationary")],
                    "thorough": [dict(track=t, layout=lay) for t in (True, False)
                                 for lay in ("prefix", "nostationary", "superset", "suffix")]})
def mismatched_stationary_blocks_are_refused_consistently(ctx, track, layout="shifted"):
    stat, odd = ODD_LAYOUTS[layout]
    w = World(ctx, track, stat, types=[TYPES, odd, TYPES, TYPES, odd], sharedStatHeight=False)
    acts = [("swap", 0, 1), ("swap", 1, 2), ("cascade", 0, 2, 1), ("discharge", 4, 0), ("swap", 0, 2)]
    act = ctx.choice("act", acts)
    involvesOdd = (act[0] == "discharge") or 1 in act[1:]
    try:
        A = w.asms
        if act[0] == "swap":
            w.fh.swapAssemblies(A[act[1]], A[act[2]])
        elif act[0] == "cascade":
            w.fh.swapCascade([A[x] for x in act[1:]])
        else:
            w.fh.dischargeSwap(A[act[1]], A[act[2]])
        refused = False
    except ValueError:
        refused = True
    if ctx.canary:
        involvesOdd = involvesOdd and not (act == ("swap", 1, 2))
    ctx.check("refused iff the stationary layouts differ", refused == involvesOdd)
    if not refused:
        getattr(w, "m_" + act[0])(*((list(act[1:]),) if act[0] == "cascade" else act[1:]))
    elif act[0] == "cascade":
        # [0, 2, 1]: the first swap (0 <-> 2) is legal and happens, the second (0 <-> 1) is refused
        w.m_swap(0, 2)
    w.check("after %s (refused=%s)" % (act, refused))


@harness("C14", bounds="third-core mini reactor: centre + 3 assemblies, 2 blocks each; symbolic heights, densities, "
                       "block power and a list-valued integrated parameter; every swap of two assemblies (forked)",
         stubs=STUBS, qtimeout_ms=20000)
def swaps_in_a_third_core_rescale_only_what_is_cut(ctx):
    """Moving onto / off the centre cell of a third core changes how much of the assembly is modelled (1/3): the
    contents (densities, heights) must not change, integrated quantities follow the modelled fraction."""
    cells = [(0, 0), (1, 0), (2, -1), (1, 1)]
    r, core, _ = U.mk_reactor("third periodic")
    o = Op()
    o.r, o.cs = r, Settings()
    fh = FuelHandler(o)
    A, P = [], {}
    for ai, c in enumerate(cells):
        hs = [ctx.real("h_%d_%d" % (ai, k), 1.0, 400.0) for k in range(2)]
        a = U.mk_assembly(("fuel", "fuel"), heights=hs)
        core.add(a, core.spatialGrid[c + (0,)])
        U.inject_densities(ctx, a, "%d" % ai, nucs=NUCS)
        A.append(a)
    for ai, a in enumerate(A):
        for k, b in enumerate(a):
            b.p.power = ctx.real("pow_%d_%d" % (ai, k), 0.0, 1e9)
            b.p.adjMgFlux = [ctx.real("adj_%d_%d_g%d" % (ai, k, g), 0.0, 1e9) for g in range(2)]
            P[id(b)] = dict(sf=b.getSymmetryFactor(), power=b.p.power, adj=list(b.p.adjMgFlux), h=b.getHeight(),
                            N={n: b.getNumberDensity(n) for n in NUCS}, m={n: b.getMass(n) for n in NUCS})
    x, y = ctx.choice("pair", [(p, q) for p in range(4) for q in range(4) if p != q])
    fh.swapAssemblies(A[x], A[y])
    where = {ai: cells[ai] for ai in range(4)}
    where[x], where[y] = where[y], where[x]
    ctx.check("location table lists exactly the assemblies present",
              len(core.childrenByLocator) == 4 and all(core.childrenByLocator.get(a.spatialLocator) is a for a in A))
    for ai, a in enumerate(A):
        ctx.check("assembly %d sits where the swap put it" % ai,
                  tuple(int(v) for v in a.spatialLocator.indices[:2]) == where[ai])
        for k, b in enumerate(a):
            old = P[id(b)]
            sf = b.getSymmetryFactor()
            ctx.check("block of assembly %d: cut in three exactly at the centre" % ai,
                      sf == (3.0 if where[ai] == (0, 0) else 1.0))
            ctx.check_close("height unchanged", b.getHeight(), old["h"], scale=old["h"])
            for n in NUCS:
                ctx.check_close("N(%s) unchanged" % n, b.getNumberDensity(n), old["N"][n], scale=old["N"][n] + 1e-30)
                ctx.check_close("mass(%s) follows the modelled fraction" % n, b.getMass(n) * sf, old["m"][n] * old["sf"],
                                scale=old["m"][n] * old["sf"] + 1e-30)
            want = old["power"] * old["sf"]
            if ctx.canary and ai == 0:
                want = want * ITE(old["h"] > 399, 1.01, 1.0)
            ctx.check_close("power follows the modelled fraction", b.p.power * sf, want, scale=want + 1e-30)
            for g in range(2):
                ctx.check_close("list-valued integrated parameter follows the modelled fraction",
                                b.p.adjMgFlux[g] * sf, old["adj"][g] * old["sf"], scale=old["adj"][g] * old["sf"] + 1e-30)


ADD_VIA = ("explicit", "own", "own detached", "detached", "other grid")


@harness("C14", bounds="full-core mini reactor as above; adding the fresh assembly to an occupied cell (every cell, "
                       "forked) must be refused and change nothing, however the location is named (forked): passed "
                       "explicitly as a locator of the core grid, carried by the assembly itself (core.add(a)), as a "
                       "detached copy (what an assembly removed earlier carries), or as a locator of another grid",
         stubs=STUBS, qtimeout_ms=20000)
def add_to_an_occupied_location_is_refused_cleanly(ctx):
    from armi.reactor import grids
    w = World(ctx, True, "none")
    c = ctx.choice("cell", CELLS)
    vias = [v for v in ADD_VIA if v in ("explicit", "own") or not KNOWN_DEFECT_add_foreign_locator_bypasses_occupancy]
    via = ctx.choice("via", vias)
    if len(vias) < len(ADD_VIA):
        ctx.note("KNOWN_DEFECT_add_foreign_locator_bypasses_occupancy: locators that do not belong to the core grid "
                 "are not tried")
    fresh, loc = w.asms[4], w.core.spatialGrid[c + (0,)]
    try:
        if via == "explicit":
            w.core.add(fresh, loc)
        elif via == "own":
            fresh.spatialLocator = loc
            w.core.add(fresh)
        elif via == "own detached":
            fresh.spatialLocator = loc.detachedCopy()
            w.core.add(fresh)
        elif via == "detached":
            w.core.add(fresh, loc.detachedCopy())
        else:
            other = grids.HexGrid.fromPitch(16.2, numRings=3, symmetry="full")
            w.core.add(fresh, other[c + (0,)])
        refused, how = False, None
    except (ValueError, KeyError) as e:
        refused, how = True, type(e)
    ctx.check("a second assembly is never accepted at an occupied location (location named: %s)" % via, refused)
    if KNOWN_DEFECT_refused_add_not_atomic:
        ctx.note("KNOWN_DEFECT_refused_add_not_atomic: Core.add raises KeyError (not the documented ValueError) and "
                 "leaves the refused assembly in the core's child list; state obligations skipped")
        if ctx.canary:
            ctx.check("canary", NOT(AND(w.h[0][0] > 399, refused)))
        return
    ctx.check("... with the documented ValueError", how is ValueError)
    w.check("after the refused add (%s)" % via, canary=ctx.canary)


@harness("C14", bounds="full-core mini reactor: 3 of 4 cells occupied + 1 fresh assembly + 1 assembly stored in the "
                       "pool from the start; the fresh assembly carries the NUMBER (hence the name, and its blocks "
                       "the block names) of another assembly (forked): one in the core / one discharged to the pool "
                       "by removeAssembly just before / the one stored in the pool from the start; it is added to the "
                       "free cell (location passed explicitly or carried by the assembly: forked); trackAssems per "
                       "instance; heights and densities symbolic", stubs=STUBS, qtimeout_ms=20000,
         instances={"quick": [dict(track=True), dict(track=False)]})
def adding_a_namesake_of_a_live_assembly_is_refused(ctx, track):
    """Names are the keys of two lookup tables that must find EVERY assembly and block of core and pool: an assembly
    whose name is taken by a live one - in the core or in the pool - cannot be accepted (Core.add: RuntimeError);
    the name of an assembly that was deleted (tracking off) is free again."""
    w = World(ctx, track, "none", cells=CELLS[:3], nfresh=1, nstored=1)
    fresh, free = w.asms[3], CELLS[3]
    who = ctx.choice("namesake", ["in core", "discharged", "stored"])
    own = ctx.choice("locationCarriedByTheAssembly", [False, True])
    target = {"in core": 1, "discharged": 0, "stored": 4}[who]
    if who == "discharged":
        w.core.removeAssembly(w.asms[0])
        w.m_remove(0)
    fresh.renumber(w.asms[target].getNum())
    ctx.check("set-up: the fresh assembly and its blocks carry the names of assembly %d" % target,
              fresh.getName() == w.asms[target].getName() and
              [b.getName() for b in fresh] == [b.getName() for b in w.asms[target]])
    nameTaken = w.where[target] != GONE
    loc = w.core.spatialGrid[free + (0,)]
    try:
        if own:
            fresh.spatialLocator = loc
            w.core.add(fresh)
        else:
            w.core.add(fresh, loc)
        refused = False
    except RuntimeError:
        refused = True
    if ctx.canary:
        nameTaken = nameTaken and not (who == "stored" and own)
    ctx.check("namesake of the assembly %s: refused iff that assembly is still in the core or in the pool" % who,
              refused == nameTaken)
    if not refused:
        w.m_add(3, free)
    w.check("after the %s add of a namesake of the assembly %s" % ("refused" if refused else "accepted", who))


@harness("C14", bounds="full-core mini reactor as above (4 cells occupied, 1 fresh assembly, 1 assembly stored in the "
                       "pool); Core.removeAssembly of an assembly that is NOT in the core (forked: the fresh one "
                       "as made / the fresh one carrying the locator of an occupied cell, every cell / the stored "
                       "one), discharge=True and False (forked), must be refused and change nothing",
         stubs=STUBS, qtimeout_ms=20000, instances={"quick": [dict(track=True)], "thorough": [dict(track=False)]})
def removing_an_assembly_that_is_not_in_the_core_is_refused_cleanly(ctx, track):
    w = World(ctx, track, "none", nstored=1)
    cases = [("fresh", None), ("stored", None)]
    if not KNOWN_DEFECT_remove_of_non_member_corrupts_location_table:
        cases += [("fresh at", c) for c in CELLS]
    else:
        ctx.note("KNOWN_DEFECT_remove_of_non_member_corrupts_location_table: a non-member that carries the locator "
                 "of an occupied cell is not tried")
    who, cell = ctx.choice("who", cases)
    discharge = ctx.choice("discharge", [True, False])
    x = w.asms[5] if who == "stored" else w.asms[4]
    if cell is not None:
        x.spatialLocator = w.core.spatialGrid[cell + (0,)]
    try:
        w.core.removeAssembly(x, discharge=discharge)
        refused = False
    except (ValueError, KeyError):
        refused = True
    ok = refused
    if ctx.canary:
        ok = AND(refused, NOT(AND(w.h[0][0] > 399, who == "stored")))
    ctx.check("removing an assembly that is not in the core (%s) is refused" % who, ok)
    w.check("after the refused removal of a non-member (%s, %s)" % (who, cell))


@harness("C14", bounds="full-core mini reactor as above, trackAssems on; the spent fuel pool is registered with the "
                       "reactor's ex-core collection by Reactor.add / by item assignment / by attribute assignment "
                       "(forked; the documented dual access); then one removeAssembly (every assembly, forked): the "
                       "assembly must arrive in that pool", stubs=STUBS, qtimeout_ms=20000)
def the_pool_is_found_however_it_was_registered(ctx):
    w = World(ctx, True, "none")
    vias = ["Reactor.add", "item"] + ([] if KNOWN_DEFECT_pool_assigned_by_attribute_not_in_collection else ["attribute"])
    if len(vias) < 3:
        ctx.note("KNOWN_DEFECT_pool_assigned_by_attribute_not_in_collection: registration by attribute is not tried")
    via = ctx.choice("registeredBy", vias)
    if via != "Reactor.add":
        del w.r.excore["sfp"]
        if via == "item":
            w.r.excore["sfp"] = w.sfp
        else:
            w.r.excore.sfp = w.sfp
    ctx.check("the pool is found both ways (registered by %s)" % via,
              w.r.excore.get("sfp") is w.sfp and w.r.excore.sfp is w.sfp)
    x = ctx.choice("who", [0, 1, 2, 3])
    w.core.removeAssembly(w.asms[x])
    w.m_remove(x)
    w.check("after removeAssembly(%d), pool registered by %s" % (x, via), canary=ctx.canary)


@harness("C14", bounds="full-core mini reactor, 3 of 4 cells occupied; Assembly.moveTo to the empty cell for every "
                       "assembly (forked)", stubs=STUBS, qtimeout_ms=20000)
def move_to_an_empty_location_updates_the_location_table(ctx):
    w = World(ctx, True, "none", cells=CELLS[:3], nfresh=0)
    x = ctx.choice("who", [0, 1, 2])
    w.asms[x].moveTo(w.core.spatialGrid[CELLS[3] + (0,)])
    w.where[x] = CELLS[3]
    if KNOWN_DEFECT_moveTo_leaves_stale_locator_entry:
        ctx.note("KNOWN_DEFECT_moveTo_leaves_stale_locator_entry: the vacated cell still maps to the moved assembly; "
                 "location-table obligations skipped")
        a = w.asms[x]
        ctx.check("the moved assembly is found at its new cell", w.core.childrenByLocator.get(a.spatialLocator) is a and
                  tuple(int(v) for v in a.spatialLocator.indices[:2]) == CELLS[3])
        hw = w.block0[id(a[0])]["h"]
        if ctx.canary:
            hw = hw * ITE(hw > 399, 1.01, 1.0)
        ctx.check_close("contents untouched", a[0].getHeight(), hw, scale=hw)
        return
    w.check("after moveTo", canary=ctx.canary)
