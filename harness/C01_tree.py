"""C01: the reactor model tree stays a well-formed tree; traversals equal a naive walk; copies are re-linked.

Method: ONE INDUCTIVE STEP FROM EVERY VALID STATE instead of edit histories.  The pre-state is any forest over N nodes,
given by a symbolic parent vector  p[i] in {-1, 0..i-1}  (node ids in pre-order: parents have smaller ids, siblings
are ordered by id -- every ordered rooted forest shape on N nodes has such a numbering, so the enumeration is complete
up to relabelling).  The solver enumerates every model of these constraints (each symbolic integer is concretised by
forking); the forest is built from REAL ``armi.reactor.composites.Composite`` objects (typed variant: HexAssembly >
HexBlock > Component) and ONE operation with symbolically chosen operands is applied.  Afterwards a naive walk written
here (trusted, trivial) checks the representation invariant and compares every traversal query with it.

Because every valid state x every operation x every operand is covered and the post-state is again a valid state over
at most N+1 nodes, the invariant holds after edit histories of any length that stay within N nodes.

Copies are also PRE-STATES: "original forest + a copy / unpickled copy of any subtree" followed by one operation or
query on the copy (copy_then_edit_*, core_copy_then_edit), so bookkeeping that a copy fails to rebuild shows up even
if the fresh copy looks right; both trees are checked afterwards.  Every level that can own a grid is seen owning one
in some state (generic nodes, cores, assemblies, and blocks with a pin grid: copy_gridded_typed, copy_core_and_reactor,
core_*), because each type-specific copy hook has to re-link "grid -> owner" and "location -> parent's grid" itself.

Order of the all-descendants queries: the property asks for "exactly the objects a naive walk of the child lists would,
each once, in child order"; the getChildren documentation fixes which walk (children first, "[child1, child2, child3,
grandchild1, ...]", then the query "recursively" on each child).  check_deep therefore demands the exact sequence of
that recursive walk (walk_deep), and traversal_deep_order enumerates every tree on 6 (7, 8) nodes, the smallest size
on which walking level by level and walking subtree by subtree give different sequences.

Documented preconditions only: ``add``/``insert``/``setChildren`` take parentless objects that do not contain the
target (the API does not re-parent), ``remove`` takes an actual child (a ``remove`` of a non-child has to be refused
without effect: edit_step_remove, see KNOWN_DEFECT_refused_remove_half_applied).  Raw list methods ``append``/``extend``
are out of scope, and so are the by-location / by-name tables of a Core after the bare inherited ``Core.remove`` /
``removeAll`` / ``setChildren`` (armi's own callers repair the tables by hand; ``Core.removeAssembly`` is the public way).

Objects TAKEN OUT: one common obligation (check_taken_out: no parent, no cell of the location left in a grid, same
indices, former parent's tree and tables without it) after every public call that takes children out, at every level
whose children are located in a grid of the parent: generic nodes (edit_step_remove, edit_step_set_children), blocks
with a pin grid and assemblies (take_out_located_children: remove, removeAll, setChildren, replaceBlockWithBlock,
adjustResolution), cores and the spent fuel pool (core_edit_step: removeAssembly in all its variants, pool.remove).  Apart from ``generationNum`` (an unbounded symbolic Int), insert indices and sort keys, the solver's role
here is exhaustive enumeration of states / operands / predicate masks; the evidence reports it as such.
"""
import copy
import itertools
import os
import pickle

from symx.core import AND, OR, NOT, IMPLIES, IFF, ITE, MAX, MIN
from symx.engine import harness

from armi.reactor import assemblies, blocks, components, composites, grids
from armi.reactor.flags import Flags
from armi.reactor.grids.locations import IndexLocation
from armi.reactor.spentFuelPool import SpentFuelPool

from harness import _build

STUBS = []

NQ, NT = 4, 5     # nodes in the generic forests: quick / thorough


# ---------------------------------------------------------------------------
# the naive model of a forest and the naive walks


class Forest:
    """objs[i] real objects; par[i] index of the parent or None; kids[i] ordered child indices (the MODEL)."""

    def __init__(self, objs):
        self.objs = list(objs)
        self.par = [None] * len(objs)
        self.kids = [[] for _ in objs]

    def new(self, obj):
        self.objs.append(obj)
        self.par.append(None)
        self.kids.append([])
        return len(self.objs) - 1

    def idx(self, obj):
        for i, o in enumerate(self.objs):
            if o is obj:
                return i
        return None

    def attach(self, t, o, pos=None):
        self.par[o] = t
        if pos is None:
            self.kids[t].append(o)
        else:
            self.kids[t].insert(pos, o)

    def detach(self, o):
        self.kids[self.par[o]].remove(o)
        self.par[o] = None

    def root(self, i):
        while self.par[i] is not None:
            i = self.par[i]
        return i

    def contains(self, top, i):
        """is node i in the subtree of top (inclusive)?"""
        while i is not None:
            if i == top:
                return True
            i = self.par[i]
        return False

    def subtree(self, top):
        out = [top]
        for k in self.kids[top]:
            out += self.subtree(k)
        return out

    def depth_below(self, top, i):
        d = 0
        while i != top:
            i = self.par[i]
            d += 1
        return d


def same_objs(xs, ys):
    xs, ys = list(xs), list(ys)
    return len(xs) == len(ys) and all(a is b for a, b in zip(xs, ys))


def walk_pre(o):
    """naive pre-order walk of the child lists below o (o excluded)"""
    out = []
    for c in o:
        out.append(c)
        out += walk_pre(c)
    return out


def walk_deep(o):
    """The naive ALL-DESCENDANTS walk of the child lists, as documented for getChildren(deep=True): the children come
    first ("[child1, child2, child3, grandchild1, ...]"), then the query is repeated "recursively" on every child, in
    child order -- so everything below one child stays together, in front of everything below the next child."""
    out = list(o)
    for c in o:
        out += walk_deep(c)
    return out


def walk_gen(o, g):
    """naive list of the generation-g descendants (g >= 1) in child order"""
    if g == 1:
        return list(o)
    out = []
    for c in o:
        out += walk_gen(c, g - 1)
    return out


def depth_map(o, d=1, out=None):
    out = [] if out is None else out
    for c in o:
        out.append((c, d))
        depth_map(c, d + 1, out)
    return out


def check_forest(ctx, F, tag):
    """Representation invariant + agreement of the public accessors with the model F."""
    objs = F.objs
    okParent = okList = okLen = okIn = okIndex = okGet = True
    for i, o in enumerate(objs):
        want = [objs[k] for k in F.kids[i]]
        okParent &= o.parent is (objs[F.par[i]] if F.par[i] is not None else None)
        okList &= same_objs(list(o), want)
        okLen &= len(o) == len(want)
        okGet &= same_objs(o.getChildren(), want) and same_objs(o.iterChildren(), want)
        for j, q in enumerate(objs):
            okIn &= (q in o) == (j in F.kids[i])
        for pos, k in enumerate(F.kids[i]):
            okIndex &= pos < len(o) and o[pos] is objs[k] and o.index(objs[k]) == pos
    ctx.check(tag + ": every object's parent is the one the model says", okParent)
    ctx.check(tag + ": child lists are the model's, in order", okList)
    ctx.check(tag + ": len() agrees", okLen)
    ctx.check(tag + ": `in` agrees (identity membership)", okIn)
    ctx.check(tag + ": index()/[] agree", okIndex)
    ctx.check(tag + ": getChildren()/iterChildren() are the child list", okGet)
    # model-independent: each object listed at most once in the whole forest, by its parent only; no cycles
    count = {id(o): 0 for o in objs}
    backOk = True
    for o in objs:
        for c in o:
            count[id(c)] = count.get(id(c), 0) + 1
            backOk &= c.parent is o
    ctx.check(tag + ": every listed child points back at the lister", backOk)
    ctx.check(tag + ": listed exactly once iff it has a parent",
              all(count[id(o)] == (0 if o.parent is None else 1) for o in objs))
    acyclic = True
    for o in objs:
        n, x = 0, o
        while x is not None and n <= len(objs) + 1:
            x, n = x.parent, n + 1
        acyclic &= x is None
    ctx.check(tag + ": parent chains end (no cycle)", acyclic)


def check_deep(ctx, o, tag):
    """getChildren(deep=True) against the naive walk: same objects, each once, parents before their descendants and
    siblings in child order; for trees of depth <= 2 exactly the documented [children..., grandchildren...]; for any
    depth exactly the naive recursive walk of the child lists (walk_deep), which is also stated as a relation between
    query results: the result for a node is its child list followed by the results for its children, in child order."""
    got = o.getChildren(deep=True)
    ctx.check(tag + ": deep = the naive recursive walk (children, then the same walk below child 1, child 2, ...)",
              same_objs(got, walk_deep(o)))
    ctx.check(tag + ": deep(node) = children(node) + deep(child 1) + deep(child 2) + ... (results of the same query)",
              same_objs(got, list(o) + [x for c in o for x in c.getChildren(deep=True)]))
    naive = walk_pre(o)
    ids = [id(x) for x in got]
    ctx.check(tag + ": deep = the naive walk's objects, each once",
              len(ids) == len(set(ids)) == len(naive) and set(ids) == {id(x) for x in naive})
    pos = {id(x): k for k, x in enumerate(got)}
    order = True
    for lister in [o] + naive:        # (the LISTER of an object, not its parent pointer: check_forest compares the two)
        sibs = list(lister)
        for k, x in enumerate(sibs):
            if lister is not o:
                order &= pos.get(id(lister), len(got)) < pos.get(id(x), -1)
            if k > 0:
                order &= pos.get(id(sibs[k - 1]), len(got)) < pos.get(id(x), -1)
    ctx.check(tag + ": deep is in child order (parents first, siblings in list order)", order)
    if all(len(gc) == 0 for c in o for gc in c):
        ctx.check(tag + ": deep = children then grandchildren (documented example)",
                  same_objs(got, walk_gen(o, 1) + walk_gen(o, 2)))
    ctx.check(tag + ": iterChildren(deep) = getChildren(deep)", same_objs(o.iterChildren(deep=True), got))


# ---------------------------------------------------------------------------
# building every forest


def declare_forest(ctx, N):
    return [None] + [ctx.int("p%d" % i, -1, i - 1) for i in range(1, N)]


def build_forest(P, N, locKeys=None):
    """P: parent vector (symbolic, concretised here by forking).  Every node owns a grid; a child's locator lives in
    its parent's grid (indices (0, J, K) = locKeys[i], default (0, 0, i))."""
    objs = [composites.Composite("n%d" % i) for i in range(N)]
    F = Forest(objs)
    for o in objs:
        g = grids.CartesianGrid.fromRectangle(1.0, 1.0)
        g.armiObject = o
        o.spatialGrid = g
    for i in range(1, N):
        p = int(P[i])
        if p >= 0:
            objs[p].add(objs[i])
            F.attach(p, i)
            j, k = locKeys[i] if locKeys else (0, i)
            objs[i].spatialLocator = IndexLocation(0, j, k, objs[p].spatialGrid)
    return F


def fresh_node(F):
    o = composites.Composite("fresh")
    g = grids.CartesianGrid.fromRectangle(1.0, 1.0)
    g.armiObject = o
    o.spatialGrid = g
    return F.new(o)


def addable(F, t, o):
    """documented precondition of add/insert: a parentless object that does not contain the target"""
    return F.par[o] is None and not F.contains(o, t)


# ---------------------------------------------------------------------------
# (4) one edit step from every state: generic composites


def _canary_state(ctx, P, extra):
    """a rare corner of the input space for the deliberately wrong oracle"""
    conds = [P[i] == i - 1 for i in range(1, len(P))]      # the chain 0 > 1 > 2 > ...
    return AND(*(conds + list(extra)))


@harness("C01", bounds="every forest on N=4 (thorough 5) generic Composites (parent vector symbolic, enumerated by "
                       "forking) x target node x operand: add / insert of every parentless object (other roots with "
                       "their subtrees, a fresh node; an existing child must be refused), insert index symbolic in "
                       "[-(len+2), len+2]", stubs=STUBS, max_paths=20000,
         instances={"quick": [dict(op="add", N=NQ), dict(op="insert", N=NQ)],
                    "thorough": [dict(op="add", N=NT), dict(op="insert", N=NT)]})
def edit_step_add_insert(ctx, op, N):
    P = declare_forest(ctx, N)
    tS = ctx.int("t", 0, N - 1)
    oS = ctx.int("o", 0, N)
    kS = ctx.int("k", -(N + 1), N + 1) if op == "insert" else None
    F = build_forest(P, N)
    fresh_node(F)
    t, o = int(tS), int(oS)
    objs = F.objs
    n = len(F.kids[t])
    before = [list(k) for k in F.kids]
    if o in F.kids[t]:
        # already a child: documented RuntimeError, nothing changes
        refused = False
        try:
            if op == "add":
                objs[t].add(objs[o])
            else:
                objs[t].insert(int(kS), objs[o])
        except RuntimeError:
            refused = True
        ctx.check("adding an existing child is refused", refused)
    else:
        ctx.assume(addable(F, t, o))
        if op == "insert":
            ctx.assume(AND(kS >= -(n + 2), kS <= n + 2))   # up to two positions beyond either end of the list
        if op == "add":
            objs[t].add(objs[o])
            F.attach(t, o)
            wantPos = n
        else:
            k = int(kS)
            objs[t].insert(k, objs[o])
            # list-insert semantics stated independently: clamp into [0, n]
            wantPos = ITE(kS >= 0, MIN(kS, n), MAX(0, n + kS))
            F.attach(t, o, k if 0 <= k <= n else (n if k > n else max(0, n + k)))
        if ctx.canary:
            wantPos = wantPos + ITE(_canary_state(ctx, P, [tS == 0, oS == N]), 1, 0)
        ctx.check_eq("new child sits at the requested position", objs[t].index(objs[o]), wantPos)
        ctx.check("the other children keep their relative order",
                  [c for c in F.kids[t] if c != o] == before[t])
    check_forest(ctx, F, op)
    check_deep(ctx, objs[F.root(t)], op)


# Candidate defect (reported by an independent engineer, confirmed here; kept out of the green check by the flag):
# Composite.remove(x) on a composite that does NOT list x clears x.parent and detaches x's location BEFORE
# list.remove raises ValueError, so the refused call leaves x listed by its real parent with parent None and a location
# outside that parent's grid ("a parent lists each child ... and is that child's parent" no longer holds).
# Repro: p, q, x = Composite("p"), Composite("q"), Composite("x"); p.add(x); q.remove(x) -> ValueError; x in p is True
# but x.parent is None.  While the flag is set only removals from the actual parent are driven;
# VERIF_SHOW_KNOWN_DEFECTS=1 shows the violations.
_HIDE = os.environ.get("VERIF_SHOW_KNOWN_DEFECTS", "") == ""
KNOWN_DEFECT_refused_remove_half_applied = False  # repaired in /repo (fix: 9d5b529)


@harness("C01", bounds="every forest on N=4 (thorough 5) generic Composites (every node owns a grid, every child is "
                       "located in its parent's grid) x (remove: every node, from its parent -- or from any OTHER node, "
                       "itself included, which must be refused without effect / removeAll: every target node)",
         stubs=STUBS, max_paths=20000,
         instances={"quick": [dict(op="remove", N=NQ), dict(op="removeAll", N=NQ)],
                    "thorough": [dict(op="remove", N=NT), dict(op="removeAll", N=NT)]})
def edit_step_remove(ctx, op, N):
    P = declare_forest(ctx, N)
    tS = ctx.int("node", 0, N - 1)     # remove: the child to take out; removeAll: the target
    fS = ctx.int("from", -1, N - 1)    # remove: -1 = out of its parent (the documented use), else out of that node
    if op != "remove" or (KNOWN_DEFECT_refused_remove_half_applied and _HIDE):
        ctx.assume(fS == -1)
    F = build_forest(P, N)
    objs = F.objs
    refusedCase = False
    if op == "remove":
        c, f = int(tS), int(fS)
        if f == -1:
            ctx.assume(F.par[c] is not None)      # documented use: an actual child of the object it is removed from
            t = F.par[c]
            gone = [c]
        else:
            ctx.assume(f != F.par[c])             # (its parent: that is the case -1)
            t, gone, refusedCase = f, [], True
    else:
        t = int(tS)
        gone = list(F.kids[t])
    locBefore = snapshot_locations(objs, gone)
    subBefore = {g: F.subtree(g) for g in gone}
    if refusedCase:
        refused = False
        try:
            objs[t].remove(objs[c])
        except (ValueError, LookupError, RuntimeError):
            refused = True
        ctx.check("removing an object from a node that does not list it is refused", refused)
        # ... and leaves everything as it was: the model is unchanged, check_forest / check_grids below say the rest
    elif op == "remove":
        objs[t].remove(objs[gone[0]])
    else:
        objs[t].removeAll()
    for g in gone:
        F.detach(g)
    check_taken_out(ctx, F, gone, t, locBefore, op, bad=_canary_state(ctx, P, [tS == 1]))
    ctx.check("a removed object keeps its own subtree", all(F.subtree(g) == subBefore[g] for g in gone))
    check_forest(ctx, F, op)
    check_grids(ctx, F, op)
    for r in set([F.root(t)] + gone):
        check_deep(ctx, objs[r], op)


def _sublists(cands, maxlen):
    out = []
    for r in range(0, min(maxlen, len(cands)) + 1):
        out += [list(p) for p in itertools.permutations(cands, r)]
    return out


@harness("C01", bounds="every forest on N=4 (thorough 5) generic Composites x target node x replacement list: every "
                       "ordered selection of up to 3 (thorough 4) objects out of {current children, other parentless "
                       "roots not containing the target, a fresh node}", stubs=STUBS, max_paths=40000,
         instances={"quick": [dict(N=NQ, maxlen=3)], "thorough": [dict(N=NT, maxlen=4)]})
def edit_step_set_children(ctx, N, maxlen):
    P = declare_forest(ctx, N)
    tS = ctx.int("t", 0, N - 1)
    F = build_forest(P, N)
    f = fresh_node(F)
    t = int(tS)
    objs = F.objs
    old = list(F.kids[t])
    cands = old + [r for r in range(N) if F.par[r] is None and not F.contains(r, t)] + [f]
    options = _sublists(cands, maxlen)
    items = ctx.choice("items", options)
    objs[t].setChildren([objs[i] for i in items])
    for c in old:
        F.detach(c)
    for i in items:
        F.attach(t, i)
    dropped = [c for c in old if c not in items]
    okDropped = all(objs[c].parent is None and objs[c].spatialLocator.grid is None for c in dropped)
    if ctx.canary:
        okDropped = AND(okDropped, NOT(_canary_state(ctx, P, [tS == 0])))
    ctx.check("children that were not re-added are parentless and detached", okDropped)
    ctx.check("the children are exactly the given items in the given order",
              same_objs(list(objs[t]), [objs[i] for i in items]))
    check_forest(ctx, F, "setChildren")
    check_grids(ctx, F, "setChildren")
    for r in set([F.root(t)] + dropped):
        check_deep(ctx, objs[r], "setChildren")


@harness("C01", bounds="every forest on N=4 (thorough 5) generic Composites x target node; every node carries a grid "
                       "location (0, J, K) with J, K unbounded symbolic Ints: sort() orders each child list of the "
                       "subtree by (K, J) (the comparisons of the real __lt__ fork on the symbols)", stubs=STUBS,
         max_paths=40000, instances={"quick": [dict(N=NQ)], "thorough": [dict(N=NT)]})
def edit_step_sort(ctx, N):
    P = declare_forest(ctx, N)
    tS = ctx.int("t", 0, N - 1)
    keys = [None] + [(ctx.int("J%d" % i), ctx.int("K%d" % i)) for i in range(1, N)]
    F = build_forest(P, N, locKeys=keys)
    t = int(tS)
    objs = F.objs
    inside = F.subtree(t)
    before = [list(k) for k in F.kids]
    objs[t].sort()
    okPerm = okOut = True
    for u in range(N):
        now = [F.idx(c) for c in objs[u]]
        if u in inside:
            okPerm &= sorted(now) == sorted(before[u])
            F.kids[u] = now
        else:
            okOut &= now == before[u]
    ctx.check("sort permutes each child list of the subtree (nothing lost, nothing duplicated)", okPerm)
    ctx.check("child lists outside the sorted subtree are untouched", okOut)
    for u in inside:
        for a, b in zip(F.kids[u], F.kids[u][1:]):
            (ja, ka), (jb, kb) = keys[a], keys[b]
            le = OR(ka < kb, AND(ka == kb, ja <= jb))
            if ctx.canary:
                le = AND(le, NOT(AND(ka == 17, kb == 17, ja == jb)))
            ctx.check("sorted by (K, J, I) ascending", le)
            ctx.check("equal keys keep their previous order (stable)",
                      IMPLIES(AND(ka == kb, ja == jb), before[u].index(a) < before[u].index(b)))
    check_forest(ctx, F, "sort")
    check_deep(ctx, objs[F.root(t)], "sort")


# ---------------------------------------------------------------------------
# (5) traversal queries on every state


@harness("C01", bounds="every forest on N=4 (thorough 5) generic Composites x query root; generationNum an UNBOUNDED "
                       "symbolic Int g (also combined with deep=True)", stubs=STUBS, max_paths=20000,
         instances={"quick": [dict(N=NQ)], "thorough": [dict(N=NT)]})
def traversal_generation(ctx, N):
    P = declare_forest(ctx, N)
    rS = ctx.int("r", 0, N - 1)
    g = ctx.int("g")
    F = build_forest(P, N)
    r = F.objs[int(rS)]
    got = r.getChildren(generationNum=g)
    got2 = list(r.iterChildren(generationNum=g))
    dm = depth_map(r)
    ids = [id(x) for x in got]
    ctx.check("each object at most once", len(ids) == len(set(ids)))
    ctx.check("only descendants are returned", set(ids) <= {id(x) for x, _d in dm})
    member = []
    for k, (x, d) in enumerate(dm):
        want = d == g            # symbolic in g: generation g, nothing for g <= 0 or beyond the depth
        if ctx.canary and k == 0:
            want = OR(want, g == -7)
        member.append(IFF(id(x) in ids, want))
    ctx.check("an object is returned iff it is in generation g (empty for g <= 0 and beyond the depth)",
              AND(*member) if member else True)
    ctx.check("in the order of the naive walk", same_objs(got, [x for x, _d in dm if id(x) in ids]))
    ctx.check("iterChildren(generationNum=g) yields the same", same_objs(got2, got))
    # deep=True together with a generation: refused iff g > 1 (documented RuntimeError), else all descendants
    raised = False
    try:
        both = r.getChildren(deep=True, generationNum=g)
    except RuntimeError:
        raised = True
    ctx.check("deep with a generation number > 1 is refused, and only then", IFF(raised, g > 1))
    if not raised:
        ctx.check("deep (g <= 1) = all descendants", {id(x) for x in both} == {id(x) for x, _d in dm} and
                  len(both) == len(dm))
    check_deep(ctx, r, "deep")


@harness("C01", bounds="every forest on N=4 (thorough 5) generic Composites x query root; predicate = symbolic subset "
                       "mask over the node ids (one Bool per node); direct, generation 2 and deep queries", stubs=STUBS,
         max_paths=20000, instances={"quick": [dict(N=NQ)], "thorough": [dict(N=NT)]})
def traversal_predicate(ctx, N):
    P = declare_forest(ctx, N)
    rS = ctx.int("r", 0, N - 1)
    mask = [ctx.bool("m%d" % i) for i in range(N)]
    F = build_forest(P, N)
    r = F.objs[int(rS)]
    pred = lambda o: mask[F.idx(o)]   # noqa: E731
    for label, kw, naive in (("direct", dict(), walk_gen(r, 1)),
                             ("generation 2", dict(generationNum=2), walk_gen(r, 2)),
                             ("deep", dict(deep=True), r.getChildren(deep=True))):
        got = r.getChildren(predicate=pred, **kw)
        ids = [id(x) for x in got]
        ctx.check(label + ": each object at most once, all from the unfiltered result",
                  len(ids) == len(set(ids)) and set(ids) <= {id(x) for x in naive})
        want = []
        for k, x in enumerate(naive):
            w = mask[F.idx(x)]
            if ctx.canary and label == "deep" and k == 0:
                w = AND(w, NOT(AND(*mask)))
            want.append(IFF(id(x) in ids, w))
        ctx.check(label + ": an object is returned iff the predicate holds for it", AND(*want) if want else True)
        ctx.check(label + ": in the order of the unfiltered result", same_objs(got, [x for x in naive if id(x) in ids]))
        ctx.check(label + ": iterChildren gives the same", same_objs(r.iterChildren(predicate=pred, **kw), got))
    ctx.check("filter(pred, obj) = getChildren(predicate=pred) (documented identity)",
              same_objs(filter(pred, r), r.getChildren(predicate=pred)))


def model_deep(F, i):
    """walk_deep on the MODEL (indices)"""
    out = list(F.kids[i])
    for k in F.kids[i]:
        out += model_deep(F, k)
    return out


def model_gen(F, i, g):
    if g == 1:
        return list(F.kids[i])
    return [x for k in F.kids[i] for x in model_gen(F, k, g - 1)]


# three fixed predicates over the node ids that accept objects of several levels (no forking)
ID_PREDICATES = (("even id", lambda i: i % 2 == 0), ("odd id", lambda i: i % 2 == 1), ("id not a multiple of 3", lambda i: i % 3 != 0))


@harness("C01", bounds="every single-rooted TREE on N=6, 7 (thorough 7, 8) generic Composites (parent vector symbolic, "
                       "enumerated by forking): trees with >= 3 levels below the query root AND real branching, which "
                       "the N<=5 forests of the other harnesses cannot hold; on each tree, at EVERY node: all-descendants "
                       "queries (getChildren / iterChildren, deep=True, also with generationNum=1 and with three fixed "
                       "id predicates) and every generation 1..N against the naive walks of the model", stubs=STUBS,
         max_paths=20000, instances={"quick": [dict(N=6), dict(N=7)], "thorough": [dict(N=7), dict(N=8)]})
def traversal_deep_order(ctx, N):
    P = [None] + [ctx.int("p%d" % i, 0, i - 1) for i in range(1, N)]
    F = build_forest(P, N)
    objs = F.objs
    # rare corner for the canary: root > (1 > 2 > 3, 4 > 5): the smallest tree on which "level by level" and
    # "subtree by subtree" differ
    rare = AND(P[1] == 0, P[2] == 1, P[3] == 2, P[4] == 0, P[5] == 4, *[P[i] == 0 for i in range(6, N)])
    okDeep = okIter = okG1 = okGen = okPred = okOnce = True
    for i, o in enumerate(objs):
        want = [objs[k] for k in model_deep(F, i)]
        got = o.getChildren(deep=True)
        okDeep &= same_objs(got, want)
        okOnce &= len({id(x) for x in got}) == len(got) == len(F.subtree(i)) - 1
        okIter &= same_objs(o.iterChildren(deep=True), want)
        okG1 &= same_objs(o.getChildren(deep=True, generationNum=1), want)
        for _label, pr in ID_PREDICATES:
            f = lambda x: pr(F.idx(x))   # noqa: E731
            wantp = [x for x in want if f(x)]
            okPred &= same_objs(o.getChildren(deep=True, predicate=f), wantp) and \
                same_objs(o.iterChildren(deep=True, predicate=f), wantp)
        for g in range(1, N + 1):
            wg = [objs[k] for k in model_gen(F, i, g)]
            okGen &= same_objs(o.getChildren(generationNum=g), wg) and same_objs(o.iterChildren(generationNum=g), wg)
    if ctx.canary:
        okDeep = AND(okDeep, NOT(rare))
    ctx.check("at every node: all descendants = the naive recursive walk of the child lists (children, then everything "
              "below child 1, then everything below child 2, ...)", okDeep)
    ctx.check("at every node: every descendant exactly once", okOnce)
    ctx.check("at every node: iterChildren(deep=True) yields the same", okIter)
    ctx.check("at every node: deep=True with generationNum=1 is the same query", okG1)
    ctx.check("at every node: a predicate filters the all-descendants result without re-ordering it", okPred)
    ctx.check("at every node: generation g = the naive generation walk, g = 1..N (empty beyond the depth)", okGen)
    check_forest(ctx, F, "tree")


FLAGSETS = [(), ("FUEL",), ("CLAD",), ("FUEL", "DEPLETABLE"), ("DEPLETABLE",), ("CLAD", "DEPLETABLE")]
# type specifications: single flags, a COMBINED flag (all of its bits are required), lists of candidates (any candidate
# may match; a combined candidate inside a list still requires all of ITS bits: an object carrying only part of it, or
# parts of two different candidates, does not match), a one-element list, None
SPECS = [("FUEL",), ("CLAD",), ("FUEL", "DEPLETABLE"), [("FUEL",), ("CLAD",)], None,
         [("FUEL", "DEPLETABLE"), ("CLAD",)], [("FUEL", "DEPLETABLE"), ("CLAD", "DEPLETABLE")], [("FUEL", "DEPLETABLE")]]


def mkflags(names):
    f = Flags(0)
    for n in names:
        f = f | getattr(Flags, n)
    return f


def mkspec(spec):
    if spec is None:
        return None
    if isinstance(spec, list):
        return [mkflags(s) for s in spec]
    return mkflags(spec)


def flags_match(have, spec, exact):
    """independent statement of the documented hasFlags rule on sets of flag names"""
    if spec is None:
        return not exact
    if isinstance(spec, list):
        return any(flags_match(have, s, exact) for s in spec)
    if not have:
        return False
    return set(have) == set(spec) if exact else set(spec) <= set(have)


@harness("C01", bounds="every forest on N=4 (thorough 5) generic Composites x query root x flag set of every node "
                       "of the query root's tree (symbolic choice of 6 sets over FUEL/CLAD/DEPLETABLE for N=3, of the first "
                       "3 / 4 of them for larger N); every type specification of 8 (single and combined flags, lists of "
                       "single flags, lists holding a combined candidate, a one-element list, None) x exact/non-exact "
                       "is queried on each path: children, all descendants, per-child answers, ancestors", stubs=STUBS,
         max_paths=60000, instances={"quick": [dict(N=3, nflag=6), dict(N=NQ, nflag=3)],
                                     "thorough": [dict(N=3, nflag=6), dict(N=NQ, nflag=4), dict(N=NT, nflag=3)]})
def traversal_flags(ctx, N, nflag):
    P = declare_forest(ctx, N)
    rS = ctx.int("r", 0, N - 1)
    fS = [ctx.int("flags%d" % i, 0, nflag - 1) for i in range(N)]
    F = build_forest(P, N)
    ri = int(rS)
    r = F.objs[ri]
    have = {}
    for i, o in enumerate(F.objs):
        if F.contains(ri, i) or F.contains(i, ri):      # descendants and ancestors of the query root (and itself)
            have[id(o)] = FLAGSETS[int(fS[i])]
            o.p.flags = mkflags(have[id(o)])
        else:
            have[id(o)] = ()
    deep = walk_deep(r)
    for si, spec in enumerate(SPECS):
        for ex in (False, True):
            tag = "spec %d %s" % (si, "exact" if ex else "non-exact")
            got = r.getChildrenWithFlags(mkspec(spec), exactMatch=ex)
            want = [c for c in r if flags_match(have[id(c)], spec, ex)]
            ok = same_objs(got, want)
            if ctx.canary and si == 3 and ex:
                ok = AND(ok, NOT(AND(fS[0] == 1, rS == 0, _canary_state(ctx, P, []))))
            ctx.check(tag + ": getChildrenWithFlags = the children whose flags match, in child order", ok)
            ctx.check(tag + ": iterChildrenWithFlags yields the same",
                      same_objs(r.iterChildrenWithFlags(mkspec(spec), ex), got))
            ctx.check(tag + ": all descendants filtered by hasFlags = the naive walk's objects whose flags match",
                      same_objs(r.getChildren(deep=True, predicate=lambda o: o.hasFlags(mkspec(spec), exact=ex)),
                                [c for c in deep if flags_match(have[id(c)], spec, ex)]))
            if not ex:
                ctx.check(tag + ": doChildrenHaveFlags = one answer per child / per descendant, in walk order",
                          list(r.doChildrenHaveFlags(mkspec(spec))) == [flags_match(have[id(c)], spec, ex) for c in r]
                          and list(r.doChildrenHaveFlags(mkspec(spec), deep=True)) ==
                          [flags_match(have[id(c)], spec, ex) for c in deep])
                ctx.check(tag + ": containsAtLeastOneChildWithFlags / containsOnlyChildrenWithFlags = any / all of them",
                          r.containsAtLeastOneChildWithFlags(mkspec(spec)) == any(flags_match(have[id(c)], spec, ex) for c in r)
                          and r.containsOnlyChildrenWithFlags(mkspec(spec)) == all(flags_match(have[id(c)], spec, ex) for c in r))
            # ancestors with flags, starting from every node below the query root
            okA = True
            for x in [r] + walk_pre(r):
                chain, y = [], x
                while y is not None:
                    chain.append(y)
                    y = y.parent
                wantA = next((y for y in chain if flags_match(have[id(y)], spec, ex)), None)
                okA &= x.getAncestorWithFlags(mkspec(spec), exactMatch=ex) is wantA
            ctx.check(tag + ": getAncestorWithFlags = nearest matching object on the parent chain (self included)", okA)


@harness("C01", bounds="every forest on N=4 (thorough 5) generic Composites x start node; predicate = symbolic subset "
                       "mask over node ids", stubs=STUBS, max_paths=20000,
         instances={"quick": [dict(N=NQ)], "thorough": [dict(N=NT)]})
def ancestors(ctx, N):
    P = declare_forest(ctx, N)
    xS = ctx.int("x", 0, N - 1)
    mask = [ctx.bool("m%d" % i) for i in range(N)]
    F = build_forest(P, N)
    x = int(xS)
    fn = lambda o: mask[F.idx(o)]   # noqa: E731
    chain, y = [], x
    while y is not None:
        chain.append(y)
        y = F.par[y]
    got = F.objs[x].getAncestor(fn)
    gd = F.objs[x].getAncestorAndDistance(fn)
    # oracle: the first node of the parent chain (self first) for which the predicate holds, else None
    conds = []
    for d, y in enumerate(chain):
        first = AND(mask[y], *[NOT(mask[z]) for z in chain[:d]])
        if ctx.canary and d == 0:
            first = AND(first, NOT(AND(xS == 2, *mask)))
        conds.append(IFF(got is F.objs[y], first))
    conds.append(IFF(got is None, AND(*[NOT(mask[z]) for z in chain])))
    ctx.check("getAncestor = first object on the parent chain satisfying the predicate (None if there is none)",
              AND(*conds))
    if got is None:
        ctx.check("getAncestorAndDistance is None as well", gd is None)
    else:
        ctx.check("getAncestorAndDistance = (that object, number of levels above)",
                  gd is not None and gd[0] is got and gd[1] == chain.index(F.idx(got)))


# ---------------------------------------------------------------------------
# (6) deepcopy / pickle of any subtree


def shape(o):
    return (type(o).__name__, o.name, [shape(c) for c in o])


def check_copy(ctx, orig, cp, tag):
    """cp is an equal-shaped tree, shares no node with orig, is internally re-linked and detached."""
    ctx.check(tag + ": equal shape (types and names in the same order)", shape(cp) == shape(orig))
    a, b = [orig] + walk_pre(orig), [cp] + walk_pre(cp)
    ctx.check(tag + ": no node shared with the original",
              not ({id(x) for x in a} & {id(x) for x in b}) and len({id(x) for x in b}) == len(b))
    ctx.check(tag + ": no parameter collection / grid shared",
              not ({id(x.p) for x in a} & {id(x.p) for x in b}) and
              not ({id(x.spatialGrid) for x in a if x.spatialGrid is not None} &
                   {id(x.spatialGrid) for x in b if x.spatialGrid is not None}))
    ctx.check(tag + ": the copy is detached from the original's parent", cp.parent is None)
    ctx.check(tag + ": children point at the NEW parent", all(c.parent is x for x in b for c in x))
    ctx.check(tag + ": grids point at the NEW owner",
              all(x.spatialGrid.armiObject is x for x in b if x.spatialGrid is not None))
    ctx.check(tag + ": children's locations live in the NEW parent's grid",
              all(c.spatialLocator.grid is x.spatialGrid for x, y in zip(b, a) for c, d in zip(x, y)
                  if d.spatialLocator.grid is not None))


def copy_of(orig, how):
    return copy.deepcopy(orig) if how == "deepcopy" else pickle.loads(pickle.dumps(orig))


def graft_copy(ctx, F, r, cp, tag):
    """Extend the model F by the nodes of cp, a copy of the subtree of node r.  The model of the copy is the model of
    that subtree, as a parentless root (nothing is read from the copy except its walk, whose shape is checked against
    the original's).  Returns {index of an original: index of its copy}, or None if the shape is already wrong."""
    ok = shape(cp) == shape(F.objs[r])
    ctx.check(tag + ": the copy has the shape of the original subtree", ok)
    sub, nodes = F.subtree(r), [cp] + walk_pre(cp)
    if not ok or len(sub) != len(nodes):
        return None
    m = {}
    for s, x in zip(sub, nodes):
        m[s] = F.new(x)
    for s in sub[1:]:
        F.attach(m[F.par[s]], m[s])
    for s, i in m.items():
        if hasattr(F, "flags"):
            F.flags[id(F.objs[i])] = F.flags[id(F.objs[s])]
            F.types[id(F.objs[i])] = F.types[id(F.objs[s])]
    return m


@harness("C01", bounds="every forest on N=4 (thorough 5) generic Composites with grids x subtree root; copy.deepcopy "
                       "and pickle round trip; child locations carry an unbounded symbolic Int index", stubs=STUBS,
         max_paths=20000, instances={"quick": [dict(N=NQ, how="deepcopy"), dict(N=NQ, how="pickle")],
                                     "thorough": [dict(N=NT, how="deepcopy"), dict(N=NT, how="pickle")]})
def copy_subtree_generic(ctx, N, how):
    P = declare_forest(ctx, N)
    rS = ctx.int("r", 0, N - 1)
    keys = [None] + [(0, ctx.int("K%d" % i)) for i in range(1, N)]
    F = build_forest(P, N, locKeys=keys)
    r = int(rS)
    orig = F.objs[r]
    cp = copy_of(orig, how)
    check_copy(ctx, orig, cp, how)
    for x, y in zip(walk_pre(cp), walk_pre(orig)):
        w = y.spatialLocator.k
        if ctx.canary:
            w = w + ITE(AND(w == 99, rS == 0), 1, 0)
        ctx.check_eq("location index carried over", x.spatialLocator.k, w)
    # the original is untouched, and the copy answers every membership / index / len / children query like an original
    # of that shape would (no answer may come from the original's objects)
    graft_copy(ctx, F, r, cp, how)
    check_forest(ctx, F, "original and copy after " + how)
    check_grids(ctx, F, "original and copy after " + how)
    ctx.check("original locations still live in the original grids",
              all(F.objs[i].spatialLocator.grid is F.objs[F.par[i]].spatialGrid for i in range(N) if F.par[i] is not None))
    check_deep(ctx, cp, "copy")


# ---------------------------------------------------------------------------
# (7) histories that continue on a copy: copy / unpickle any subtree, then one edit step ON THE COPY
#
# A copy must not only look right, it must BEHAVE like an original of that shape: whatever bookkeeping the mutators
# and the membership test rely on has to be rebuilt by the copy / unpickle step.  The pre-state of the step is
# "original forest + a copy of the subtree below r" (both in the model); the operation is applied to a node of the
# copy; the obligations are the ones of the plain edit steps, over ALL objects (so the original is checked untouched).


def _one_of(xS, values):
    return OR(*[xS == v for v in values]) if values else False


COPY_EDIT_Q = [dict(op="add", N=NQ), dict(op="insert", N=3), dict(op="remove", N=NQ), dict(op="removeAll", N=NQ),
               dict(op="adopt", N=NQ), dict(op="setChildren", N=3)]
COPY_EDIT_T = [dict(op="add", N=NT), dict(op="insert", N=NQ), dict(op="remove", N=NT), dict(op="removeAll", N=NT),
               dict(op="adopt", N=NT), dict(op="setChildren", N=NQ)]


@harness("C01", bounds="every forest on N generic Composites (N=4 for add/remove/removeAll/adopt, 3 for insert/"
                       "setChildren; thorough 5 / 4) x copied subtree root r x deepcopy / pickle round trip, then ONE "
                       "operation on a symbolically chosen node t of the COPY: add / insert (operands: every original "
                       "root with its subtree, a fresh node -- accepted; every existing child of t -- must be refused; "
                       "insert index symbolic in [-(len+1), len+1]) / remove of any non-root node of the copy from its "
                       "parent / removeAll / adopt (a child is removed from its ORIGINAL parent and added to t) / "
                       "setChildren (ordered selections of <= 3 of children, original roots, fresh)",
         stubs=STUBS, max_paths=40000,
         instances={"quick": [dict(d, how="deepcopy+pickle") for d in COPY_EDIT_Q],
                    "thorough": [dict(d, how="deepcopy+pickle") for d in COPY_EDIT_T]})
def copy_then_edit_generic(ctx, op, N, how):
    P = declare_forest(ctx, N)
    rS = ctx.int("r", 0, N - 1)            # root of the copied subtree
    tS = ctx.int("t", 0, N - 1)            # target: position in the copy's pre-order walk
    oS = ctx.int("o", 0, 2 * N)            # operand: index of an original (< N), of a node of the copy, or the fresh node
    kS = ctx.int("k", -(N + 1), N + 1) if op == "insert" else None
    memo = {}
    for h in how.split("+"):               # the same state and operands (one path), once per way of copying, each on a
        _copy_then_edit_generic(ctx, P, rS, tS, oS, kS, memo, op, N, h)      # forest of its own


def _copy_then_edit_generic(ctx, P, rS, tS, oS, kS, memo, op, N, how):
    F = build_forest(P, N)
    r = int(rS)
    cp = copy_of(F.objs[r], how)
    m = graft_copy(ctx, F, r, cp, how)
    if m is None:
        return
    nc = len(m)
    f = fresh_node(F)                      # index N + nc
    objs = F.objs
    ctx.assume(tS < (1 if op == "remove" else nc))      # remove: the operand determines the target
    t = N + int(tS)
    kids = list(F.kids[t])
    n = len(kids)
    before = [list(k) for k in F.kids]
    gone = []
    rare = _canary_state(ctx, P, [rS == 0, tS == 0])
    if op in ("add", "insert"):
        ctx.assume(_one_of(oS, kids + [i for i in range(N) if F.par[i] is None] + [f]))
        o = int(oS)
        if op == "insert":
            ctx.assume(AND(kS >= -(n + 1), kS <= n + 1))
        if o in kids:
            refused = False
            try:
                if op == "add":
                    objs[t].add(objs[o])
                else:
                    objs[t].insert(int(kS), objs[o])
            except RuntimeError:
                refused = True
            ctx.check("on the copy: adding an existing child is refused", refused)
        else:
            if op == "add":
                objs[t].add(objs[o])
                F.attach(t, o)
                wantPos = n
            else:
                k = int(kS)
                objs[t].insert(k, objs[o])
                wantPos = ITE(kS >= 0, MIN(kS, n), MAX(0, n + kS))
                F.attach(t, o, k if 0 <= k <= n else (n if k > n else max(0, n + k)))
            if ctx.canary:
                wantPos = wantPos + ITE(AND(rare, oS == f), 1, 0)
            ctx.check_eq("on the copy: new child sits at the requested position", objs[t].index(objs[o]), wantPos)
            ctx.check("on the copy: the other children keep their relative order",
                      [c for c in F.kids[t] if c != o] == before[t])
    elif op == "adopt":
        # a child of an ORIGINAL parent is taken out (documented remove) and given to a node of the copy: accepted
        ctx.assume(_one_of(oS, [i for i in range(N) if F.par[i] is not None]))
        o = int(oS)
        objs[F.par[o]].remove(objs[o])
        F.detach(o)
        objs[t].add(objs[o])
        F.attach(t, o)
        ok = objs[t][n] is objs[o] and objs[o].parent is objs[t]
        if ctx.canary:
            ok = AND(ok, NOT(AND(rare, oS == N - 1)))
        ctx.check("on the copy: an object taken out of the original is accepted and is the last child", ok)
    else:
        if op == "remove":
            ctx.assume(_one_of(oS, [i for i in range(N + 1, N + nc)]))     # any node of the copy but its root
            c = int(oS)
            t = F.par[c]
            gone = [c]
            bad = AND(_canary_state(ctx, P, [rS == 0]), oS == N + 1)
        elif op == "removeAll":
            gone = list(kids)
            bad = rare
        else:
            cands = kids + [i for i in range(N) if F.par[i] is None] + [f]
            if "items" not in memo:        # node numbering is the same for every way of copying
                memo["items"] = ctx.choice("items", _sublists(cands, 3))
            items = memo["items"]
            gone = [c for c in kids if c not in items]
            bad = rare
        locBefore = {g: (objs[g].spatialLocator.i, objs[g].spatialLocator.j, objs[g].spatialLocator.k) for g in gone}
        subBefore = {g: F.subtree(g) for g in gone}
        if op == "remove":
            objs[t].remove(objs[c])
            F.detach(c)
        elif op == "removeAll":
            objs[t].removeAll()
            for g in gone:
                F.detach(g)
        else:
            objs[t].setChildren([objs[i] for i in items])
            for c in kids:
                F.detach(c)
            for i in items:
                F.attach(t, i)
            ctx.check("on the copy: the children are exactly the given items in the given order",
                      same_objs(list(objs[t]), [objs[i] for i in items]))
        detached = all(objs[g].parent is None for g in gone)
        if ctx.canary:
            detached = AND(detached, NOT(bad))
        ctx.check("on the copy: objects taken out have no parent", detached)
        ctx.check("on the copy: objects taken out have a detached location (no grid) with the same indices",
                  all(objs[g].spatialLocator.grid is None and
                      (objs[g].spatialLocator.i, objs[g].spatialLocator.j, objs[g].spatialLocator.k) == locBefore[g]
                      for g in gone))
        ctx.check("on the copy: an object taken out keeps its own subtree",
                  all(F.subtree(g) == subBefore[g] for g in gone))
    check_forest(ctx, F, how + " then " + op)
    check_grids(ctx, F, how + " then " + op)
    for x in set([F.root(t), F.root(r)] + gone):
        check_deep(ctx, objs[x], how + " then " + op)


# ---------------------------------------------------------------------------
# typed trees: HexAssembly > HexBlock > Component


COMPS = ("fuel", "clad", "duct")
BTYPES = ("fuel", "shield")
TYPEFLAGS = {"fuel": ("FUEL",), "shield": ("SHIELD",), "clad": ("CLAD",), "duct": ("DUCT",), "bond": ("BOND",),
             "plenum": ("PLENUM",), "liner": ("LINER",)}


def mk_comp(name):
    if name == "fuel":
        return components.Circle("fuel", "UZr", Tinput=25.0, Thot=600, od=0.76, id=0.0, mult=127.0)
    if name == "clad":
        return components.Circle("clad", "HT9", Tinput=25.0, Thot=450, od=0.80, id=0.77, mult=127.0)
    if name == "duct":
        return components.Hexagon("duct", "HT9", Tinput=25.0, Thot=400, op=16, ip=15.3, mult=1.0)
    if name == "bond":
        return components.Circle("bond", "Sodium", Tinput=25.0, Thot=450, od=0.77, id=0.76, mult=127.0)
    return components.Hexagon("liner", "HT9", Tinput=25.0, Thot=400, op=15.3, ip=15.2, mult=1.0)


def mk_typed_block(typ, present, height=10.0):
    b = blocks.HexBlock(typ, height=height)
    for n in present:
        b.add(mk_comp(n))
    b.setType(typ)
    return b


def declare_typed(ctx):
    return dict(nb=ctx.int("nblocks", 1, 2), t0=ctx.int("type0", 0, 1),
                m0=[ctx.bool("b0 has %s" % c) for c in COMPS],
                m1=[ctx.bool("b1 has %s" % c) for c in ("fuel", "duct")])


def build_typed(D):
    """assembly 'fuel' with 1..2 blocks; block 0: type fuel/shield, any subset of (fuel, clad, duct);
    block 1 (if present): type shield, any subset of (fuel, duct).  Returns the Forest model (index 0 = assembly)."""
    a = assemblies.HexAssembly("fuel")
    a.spatialGrid = grids.AxialGrid.fromNCells(2)
    a.spatialGrid.armiObject = a
    F = Forest([a])
    F.flags = {id(a): TYPEFLAGS["fuel"]}
    F.types = {id(a): "fuel"}
    nb = int(D["nb"])
    specs = [(BTYPES[int(D["t0"])], [c for c, m in zip(COMPS, D["m0"]) if m])]
    if nb == 2:
        specs.append(("shield", [c for c, m in zip(("fuel", "duct"), D["m1"]) if m]))
    for typ, present in specs:
        b = mk_typed_block(typ, present)
        a.add(b)
        bi = F.new(b)
        F.attach(0, bi)
        note_typed(F, b, typ)
        for c in b:
            F.attach(bi, F.new(c))
            note_typed(F, c, c.name)
    return F


def note_typed(F, o, typ):
    F.flags[id(o)] = TYPEFLAGS[typ]
    F.types[id(o)] = typ


def fresh_block(F, typ="plenum", present=("clad",)):
    b = mk_typed_block(typ, present)
    bi = F.new(b)
    note_typed(F, b, typ)
    for c in b:
        F.attach(bi, F.new(c))
        note_typed(F, c, c.name)
    return bi


def fresh_comp(F, name):
    c = mk_comp(name)
    ci = F.new(c)
    note_typed(F, c, name)
    return ci


OPERAND_MAX = {"Block.add": 4, "Block.remove": 2, "Block.removeAll": 0, "Block.setChildren": 40, "Assembly.add": 2,
               "Assembly.insert": 2, "Assembly.remove": 0, "Assembly.removeAll": 0, "Assembly.setChildren": 15, "sort": 2}


def check_typed_extras(ctx, F, tag, a=None):
    a = F.objs[0] if a is None else a
    ctx.check(tag + ": the assembly's grid points at the assembly", a.spatialGrid.armiObject is a)
    ctx.check(tag + ": every block's location lives in the assembly's grid",
              all(b.spatialLocator.grid is a.spatialGrid for b in a))
    ctx.check(tag + ": every component's material points back at it",
              all(c.material.parent is c for b in a for c in b))


@harness("C01", bounds="typed tree: HexAssembly with 1..2 HexBlocks (block 0: type fuel/shield and any subset of "
                       "fuel/clad/duct components; block 1: any subset of fuel/duct), all symbolic; one operation of "
                       "the instance's kind with symbolic operands: Block.add (fresh component; existing child "
                       "refused) / Block.remove / Block.removeAll / Block.setChildren (every ordered selection of <=3 "
                       "of children + fresh) / Assembly.add / Assembly.insert (index symbolic) / Assembly.remove / "
                       "Assembly.removeAll / Assembly.setChildren / sort", stubs=STUBS, max_paths=40000,
         instances={"quick": [dict(op=o) for o in ("Block.add", "Block.remove", "Block.removeAll", "Block.setChildren",
                                                    "Assembly.add", "Assembly.insert", "Assembly.remove",
                                                    "Assembly.removeAll", "Assembly.setChildren", "sort")]})
def typed_edit_step(ctx, op):
    D = declare_typed(ctx)
    biS = ctx.int("block", 0, 1)
    xS = ctx.int("operand", 0, OPERAND_MAX[op])
    F = build_typed(D)
    objs = F.objs
    a = objs[0]
    nb = len(F.kids[0])
    if op.endswith("setChildren"):
        # large operand range: prune symbolically first (there are always >= 2 options, so this is never infeasible)
        nopt = {0: 1, 1: 2, 2: 5, 3: 16, 4: 41}
        if op == "Block.setChildren":
            ctx.assume(biS < nb)
            ctx.assume(xS < nopt[len(F.kids[F.kids[0][int(biS)]]) + 1])
        else:
            ctx.assume(biS == 0)
            ctx.assume(xS < nopt[nb + 1])
    bsel, x = int(biS), int(xS)      # operands concretised by forking; invalid combinations are dropped below
    gone = []
    rare = AND(D["nb"] == 2, D["t0"] == 1, D["m0"][0], NOT(D["m0"][1]), D["m0"][2], D["m1"][0], D["m1"][1])
    bad = False
    if op.startswith("Block."):
        ctx.assume(bsel < nb)
        bi = F.kids[0][bsel]
        b = objs[bi]
        kids = list(F.kids[bi])
        if op == "Block.add":
            ctx.assume(x <= 1 + len(kids))
            if x < 2:
                ci = fresh_comp(F, ("bond", "liner")[x])
                b.add(objs[ci])
                F.attach(bi, ci)
                ctx.check("the new component is last", b[len(b) - 1] is objs[ci])
                bad = AND(rare, biS == 1, xS == 1)
            else:
                refused = False
                try:
                    b.add(objs[kids[x - 2]])
                except RuntimeError:
                    refused = True
                ctx.check("adding an existing child is refused", refused)
        elif op == "Block.remove":
            ctx.assume(x < len(kids))
            gone = [kids[x]]
            b.remove(objs[gone[0]])
            bad = AND(rare, biS == 0, xS == 1)
        elif op == "Block.removeAll":
            ctx.assume(x == 0)
            gone = kids
            b.removeAll()
            bad = AND(rare, biS == 1)
        else:
            f = fresh_comp(F, "bond")
            options = _sublists(kids + [f], 3)
            ctx.assume(x < len(options))
            items = options[x]
            b.setChildren([objs[i] for i in items])
            gone = [k for k in kids if k not in items]
            for k in kids:
                F.detach(k)
            for i in items:
                F.attach(bi, i)
            ctx.check("children are the given items in order", same_objs(list(b), [objs[i] for i in items]))
            bad = AND(rare, biS == 0, xS == 7)
        if op in ("Block.remove", "Block.removeAll"):
            for g in gone:
                F.detach(g)
    elif op == "Assembly.add":
        ctx.assume(bsel == 0 and x <= nb)
        if x == 0:
            ni = fresh_block(F)
            a.add(objs[ni])
            F.attach(0, ni)
            ctx.check("the new block is on top", a[len(a) - 1] is objs[ni])
            ctx.check("block locations are (0, 0, index) after add",
                      all(bb.spatialLocator.k == k for k, bb in enumerate(a)))
            bad = rare
        else:
            refused = False
            try:
                a.add(objs[F.kids[0][x - 1]])
            except RuntimeError:
                refused = True
            ctx.check("adding an existing block is refused", refused)
    elif op == "Assembly.insert":
        ctx.assume(bsel == 0 and x <= nb)
        ni = fresh_block(F)
        a.insert(xS, objs[ni])
        F.attach(0, ni, x)
        ctx.check_eq("the new block sits at the requested index", a.index(objs[ni]), xS)
        bad = AND(rare, xS == 1)
    elif op == "Assembly.remove":
        ctx.assume(bsel < nb and x == 0)
        gone = [F.kids[0][bsel]]
        a.remove(objs[gone[0]])
        F.detach(gone[0])
        bad = AND(rare, biS == 1)
    elif op == "Assembly.removeAll":
        ctx.assume(bsel == 0 and x == 0)
        gone = list(F.kids[0])
        a.removeAll()
        for g in gone:
            F.detach(g)
        bad = rare
    elif op == "Assembly.setChildren":
        ni = fresh_block(F)
        options = _sublists(list(F.kids[0]) + [ni], 3)
        ctx.assume(bsel == 0 and x < len(options))
        items = options[x]
        old = list(F.kids[0])
        a.setChildren([objs[i] for i in items])
        gone = [k for k in old if k not in items]
        for k in old:
            F.detach(k)
        for i in items:
            F.attach(0, i)
        ctx.check("blocks are the given items in order", same_objs(list(a), [objs[i] for i in items]))
        bad = AND(rare, xS == 9)
    else:  # sort: on the assembly after an insert (so that two blocks may share a location), recursive
        ctx.assume(bsel == 0 and x <= nb)
        ni = fresh_block(F)
        a.insert(xS, objs[ni])
        F.attach(0, ni, x)
        before = {i: list(F.kids[i]) for i in [0] + F.kids[0]}
        a.sort()
        now = [F.idx(bb) for bb in a]
        ctx.check("sort permutes the blocks", sorted(now) == sorted(before[0]))
        ctx.check("blocks are in ascending axial index, ties in previous order",
                  all((a[i].spatialLocator.k, before[0].index(now[i])) <= (a[i + 1].spatialLocator.k, before[0].index(now[i + 1]))
                      for i in range(len(now) - 1)))
        F.kids[0] = now
        for bi in now:
            nowc = [F.idx(c) for c in objs[bi]]
            ctx.check("sort permutes the components of each block", sorted(nowc) == sorted(before.get(bi, F.kids[bi])))
            F.kids[bi] = nowc
        bad = AND(rare, xS == 2)
    okGone = all(objs[g].parent is None and objs[g].spatialLocator.grid is None for g in gone)
    if ctx.canary:
        okGone = AND(okGone, NOT(bad))
    ctx.check("objects taken out have no parent and a detached location", okGone)
    check_forest(ctx, F, op)
    check_typed_extras(ctx, F, op)
    for r in [0] + gone:
        check_deep(ctx, objs[r], op)


@harness("C01", bounds="typed tree as in typed_edit_step (every state); queries: children by flags / by type name, "
                       "leaf components (all / by flags / exact), deep and generation queries with an unbounded "
                       "symbolic generationNum, ancestors by flags / predicate / distance", stubs=STUBS, max_paths=20000)
def typed_traversal(ctx):
    D = declare_typed(ctx)
    g = ctx.int("g")
    F = build_typed(D)
    objs = F.objs
    a = objs[0]
    fl, ty = F.flags, F.types
    ctx.check("flags are the ones derived from the type names", all(o.p.flags == mkflags(fl[id(o)]) for o in objs))
    allComps = [c for b in a for c in b]
    rare = AND(D["nb"] == 2, D["t0"] == 0, D["m0"][0], D["m0"][1], NOT(D["m0"][2]), D["m1"][0], NOT(D["m1"][1]))
    # (lists holding a COMBINED candidate: an object with only part of that candidate's flags is not a match)
    for spec in (("FUEL",), ("SHIELD",), [("FUEL",), ("SHIELD",)], ("CLAD",), None,
                 [("FUEL", "DEPLETABLE"), ("SHIELD",)], [("SHIELD", "FUEL"), ("CLAD", "DUCT")]):
        for ex in (False, True):
            tag = "spec %r exact=%s" % (spec, ex)
            for o in [a] + list(a):
                ctx.check(tag + ": getChildrenWithFlags", same_objs(o.getChildrenWithFlags(mkspec(spec), ex),
                                                                   [c for c in o if flags_match(fl[id(c)], spec, ex)]))
            want = [c for c in allComps if flags_match(fl[id(c)], spec, ex)]
            ok = same_objs(a.getComponents(mkspec(spec), ex), want)
            if ctx.canary and spec == ("CLAD",) and ex:
                ok = AND(ok, NOT(rare))
            ctx.check(tag + ": getComponents = matching leaf components in walk order", ok)
            ctx.check(tag + ": iterComponents the same", same_objs(a.iterComponents(mkspec(spec), ex), want))
            for b in a:
                ctx.check(tag + ": block.getComponents", same_objs(b.getComponents(mkspec(spec), ex),
                                                                  [c for c in b if flags_match(fl[id(c)], spec, ex)]))
            for x in allComps:
                chain = [x, x.parent, a]
                ctx.check(tag + ": getAncestorWithFlags",
                          x.getAncestorWithFlags(mkspec(spec), exactMatch=ex) is
                          next((y for y in chain if flags_match(fl[id(y)], spec, ex)), None))
    for typ in ("fuel", "shield", "clad", "duct"):
        for o in [a] + list(a):
            want = [c for c in o if ty[id(c)] == typ]
            ctx.check("getChildrenOfType / iterChildrenOfType(%s)" % typ,
                      same_objs(o.getChildrenOfType(typ), want) and same_objs(o.iterChildrenOfType(typ), want))
    ctx.check("getComponents() = all leaf components in walk order", same_objs(a.getComponents(), allComps))
    ctx.check("deep + isinstance predicate = the components (documented example)",
              same_objs(a.getChildren(deep=True, predicate=lambda o: isinstance(o, components.Component)), allComps))
    ctx.check("a component's components are itself", all(same_objs(c.getComponents(), [c]) for c in allComps))
    for x in allComps:
        ctx.check("getAncestor(is a block) = the parent", x.getAncestor(lambda o: isinstance(o, blocks.Block)) is x.parent)
        gd = x.getAncestorAndDistance(lambda o: isinstance(o, assemblies.Assembly))
        ctx.check("getAncestorAndDistance(is an assembly) = (assembly, 2)", gd is not None and gd[0] is a and gd[1] == 2)
        ctx.check("no ancestor satisfies an unsatisfiable predicate", x.getAncestor(lambda o: False) is None)
    # generation query with symbolic g on the typed tree
    got = a.getChildren(generationNum=g)
    ids = [id(x) for x in got]
    dm = depth_map(a)
    ctx.check("generation g: an object is returned iff it is in generation g",
              AND(*[IFF(id(x) in ids, d == g) for x, d in dm]))
    ctx.check("generation g: walk order, each once",
              same_objs(got, [x for x, _d in dm if id(x) in ids]) and len(ids) == len(set(ids)))
    check_deep(ctx, a, "typed deep")
    check_forest(ctx, F, "typed state")


@harness("C01", bounds="typed tree as in typed_edit_step (every state; clad inner diameter linked to fuel.od when both "
                       "are present) x subtree root (assembly / a block / a component, symbolic) x copy.deepcopy or "
                       "pickle round trip", stubs=STUBS, max_paths=20000,
         instances={"quick": [dict(how="deepcopy"), dict(how="pickle")]})
def copy_subtree_typed(ctx, how):
    D = declare_typed(ctx)
    rS = ctx.int("subtree", 0, 8)
    F = build_typed(D)
    objs = F.objs
    a = objs[0]
    linked = []
    for b in a:
        byName = {c.name: c for c in b}
        if "fuel" in byName and "clad" in byName:
            byName["clad"].setDimension("id", "fuel.od")
            byName["clad"].resolveLinkedDims(byName)
            linked.append(F.idx(byName["clad"]))
    r = int(rS)
    ctx.assume(r < len(objs))
    orig = objs[r]
    cp = copy_of(orig, how)
    ok = shape(cp) == shape(orig)
    if ctx.canary:
        ok = AND(ok, NOT(AND(D["nb"] == 2, D["t0"] == 1, D["m0"][0], D["m0"][1], D["m0"][2], rS == 2)))
    ctx.check("equal shape", ok)
    check_copy(ctx, orig, cp, how)
    oc = [x for x in [orig] + walk_pre(orig) if isinstance(x, components.Component)]
    cc = [x for x in [cp] + walk_pre(cp) if isinstance(x, components.Component)]
    ctx.check("materials are copied and point at the new components",
              all(x.material.parent is x and x.material is not y.material for x, y in zip(cc, oc)))
    for x, y in zip(cc, oc):
        if F.idx(y) in linked and r != F.idx(y):
            ctx.check("a dimension link inside the copied subtree points into the copy",
                      x.p.id.getLinkedComponent() is [z for z in x.parent if z.name == "fuel"][0])
    graft_copy(ctx, F, r, cp, how)      # queries (`in`, index, len, children) on the copy as on an original
    check_forest(ctx, F, "original and copy after " + how)
    check_grids(ctx, F, "original and copy after " + how)
    check_typed_extras(ctx, F, "original after " + how)
    if not isinstance(cp, components.Component):
        ctx.check("the copy's leaf components are those of the naive walk",
                  same_objs(cp.getComponents(), [x for x in walk_pre(cp) if isinstance(x, components.Component)]))
    check_deep(ctx, cp, "copy")
    if isinstance(cp, assemblies.Assembly):
        ctx.check("copied blocks live in the copied assembly's grid",
                  all(b.spatialLocator.grid is cp.spatialGrid for b in cp))


COPY_TYPED_OPS = ("Block.add", "Block.remove", "Block.removeAll", "Assembly.add", "Assembly.insert", "Assembly.remove")


@harness("C01", bounds="typed tree as in typed_edit_step (every state) x copied subtree (the assembly, or one of its "
                       "blocks on its own; symbolic) x deepcopy / pickle round trip, then ONE operation on the COPY "
                       "with symbolic operands: Block.add (fresh component accepted; every existing child refused) / "
                       "Block.remove / Block.removeAll / Assembly.add (fresh block accepted; every existing block "
                       "refused) / Assembly.insert (fresh block at a symbolic index; every existing block refused) / "
                       "Assembly.remove", stubs=STUBS, max_paths=40000,
         instances={"quick": [dict(op=o, how="deepcopy+pickle") for o in COPY_TYPED_OPS]})
def copy_then_edit_typed(ctx, op, how):
    D = declare_typed(ctx)
    rS = ctx.int("copied", 0, 2)        # 0: the assembly; 1, 2: that block alone
    biS = ctx.int("block", 0, 1)        # which block of the copy is the target (Assembly.insert: 1 = re-insert an existing block)
    xS = ctx.int("operand", 0, 4)
    for h in how.split("+"):            # the same state and operands (one path), once per way of copying, each on a
        _copy_then_edit_typed(ctx, D, rS, biS, xS, op, h)      # tree of its own


def _copy_then_edit_typed(ctx, D, rS, biS, xS, op, how):
    F = build_typed(D)
    objs = F.objs
    nb = len(F.kids[0])
    ctx.assume(rS <= (nb if op.startswith("Block.") else 0))      # assembly operations need the copied assembly
    r = F.kids[0][int(rS) - 1] if int(rS) else 0
    cp = copy_of(objs[r], how)
    m = graft_copy(ctx, F, r, cp, how)
    if m is None:
        return
    top = m[r]
    a2 = objs[top] if r == 0 else None      # the copied assembly, if any
    blocks2 = list(F.kids[top]) if r == 0 else [top]
    rare = AND(D["nb"] == 2, D["t0"] == 1, D["m0"][0], NOT(D["m0"][1]), D["m0"][2], D["m1"][0], D["m1"][1], rS == 0)
    gone = []
    if op.startswith("Block."):
        ctx.assume(biS < len(blocks2))
        bi = blocks2[int(biS)]
        b = objs[bi]
        kids = list(F.kids[bi])
        if op == "Block.add":
            ctx.assume(xS <= len(kids))
            x = int(xS)
            if x == 0:
                ci = fresh_comp(F, "bond")
                b.add(objs[ci])
                F.attach(bi, ci)
                ctx.check("on the copy: the new component is last", b[len(b) - 1] is objs[ci])
            else:
                refused = False
                try:
                    b.add(objs[kids[x - 1]])
                except RuntimeError:
                    refused = True
                ctx.check("on the copy: adding an existing child is refused", refused)
            bad = AND(rare, biS == 1, xS == 1)
        elif op == "Block.remove":
            ctx.assume(xS < len(kids))
            gone = [kids[int(xS)]]
            b.remove(objs[gone[0]])
            bad = AND(rare, biS == 0, xS == 1)
        else:
            ctx.assume(xS == 0)
            gone = kids
            b.removeAll()
            bad = AND(rare, biS == 1)
        for g in gone:
            F.detach(g)
    elif op == "Assembly.add":
        ctx.assume(AND(biS == 0, xS <= nb))
        x = int(xS)
        if x == 0:
            ni = fresh_block(F)
            a2.add(objs[ni])
            F.attach(top, ni)
            ctx.check("on the copy: the new block is on top", a2[len(a2) - 1] is objs[ni])
            ctx.check("on the copy: block locations are (0, 0, index) after add",
                      all(bb.spatialLocator.k == k for k, bb in enumerate(a2)))
        else:
            refused = False
            try:
                a2.add(objs[blocks2[x - 1]])
            except RuntimeError:
                refused = True
            ctx.check("on the copy: adding an existing block is refused", refused)
        bad = AND(rare, xS == 0)
    elif op == "Assembly.insert":
        ctx.assume(xS <= nb - biS)          # fresh block: any index 0..nb; existing block number xS < nb
        if int(biS) == 0:
            ni = fresh_block(F)
            a2.insert(xS, objs[ni])
            F.attach(top, ni, int(xS))
            ctx.check_eq("on the copy: the new block sits at the requested index", a2.index(objs[ni]), xS)
        else:
            refused = False
            try:
                a2.insert(0, objs[blocks2[int(xS)]])
            except RuntimeError:
                refused = True
            ctx.check("on the copy: inserting an existing block is refused", refused)
        bad = AND(rare, biS == 0, xS == 1)
    else:
        ctx.assume(AND(biS < nb, xS == 0))
        gone = [blocks2[int(biS)]]
        a2.remove(objs[gone[0]])
        F.detach(gone[0])
        bad = AND(rare, biS == 1)
    okGone = all(objs[g].parent is None and objs[g].spatialLocator.grid is None for g in gone)
    if ctx.canary:
        okGone = AND(okGone, NOT(bad))
    ctx.check("on the copy: objects taken out have no parent and a detached location", okGone)
    tag = how + " then " + op
    check_forest(ctx, F, tag)                  # all objects: the original tree, the edited copy, fresh objects
    check_grids(ctx, F, tag)
    check_typed_extras(ctx, F, tag + " (original)")
    if a2 is not None:
        check_typed_extras(ctx, F, tag + " (copy)", a2)
        ctx.check(tag + ": the copy's leaf components are those of the naive walk",
                  same_objs(a2.getComponents(), [c for bb in a2 for c in bb]))
    else:
        ctx.check(tag + ": every component's material points back at it",
                  all(c.material.parent is c for c in objs[top]))
    for x in [0, top] + gone:
        check_deep(ctx, objs[x], tag)


# ---------------------------------------------------------------------------
# typed trees whose BLOCKS carry a grid of their own (pin grid), copied and then edited
#
# Every level that can own a grid must be seen owning one: the type-specific copy hooks (Block.__deepcopy__, ...) and
# the generic unpickle step each have to re-link "grid -> owner" and "child location -> parent's grid" themselves.


def give_pin_grid(b, singleByIndex=False):
    """The layout Block.autoCreateSpatialGrids produces (not called here: it needs a wire component for the pitch):
    a hex grid owned by the block, ONE multi-cell location shared by the components of multiplicity > 1, a coordinate
    location at the centre for those of multiplicity 1 (singleByIndex: the grid's own cell (0, 0, 0) instead, the way a
    blueprint pin lattice places a single component)."""
    g = grids.HexGrid.fromPitch(1.0, numRings=0, armiObject=b)
    b.spatialGrid = g
    multi = grids.MultiIndexLocation(grid=g)
    for i, j in ((0, 0), (1, 0), (0, 1)):
        multi.append(g[i, j, 0])
    for c in b:
        if c.getDimension("mult") > 1:
            c.spatialLocator = multi
        else:
            c.spatialLocator = g[0, 0, 0] if singleByIndex else grids.CoordinateLocation(0.0, 0.0, 0.0, g)


def loc_cells(loc):
    """the location itself and, for a multi-cell location, its cells"""
    return [loc] + (list(loc) if isinstance(loc, grids.MultiIndexLocation) else [])


# Incidental finding (candidate defect, kept out of the green check by the flag): MultiIndexLocation.detachedCopy is
# shallow.  After block.remove(component) of a component located by a multi-cell location the component's location has
# grid None, but every CELL of it still lives in the block's grid -- and is the very cell object the remaining
# components of the block use.  "An object taken out of the model has ... a detached location" holds only on the surface.
# Repro: gridded HexBlock, fuel and clad sharing one MultiIndexLocation of grid cells (what autoCreateSpatialGrids
# builds); b.remove(fuel); [c.grid for c in fuel.spatialLocator] is [b.spatialGrid]*n and list(fuel.spatialLocator)[k] is
# list(clad.spatialLocator)[k].  VERIF_SHOW_KNOWN_DEFECTS=1 shows the violations.
KNOWN_DEFECT_multi_location_detach = False  # repaired in /repo (fix: 5bc921b)


def check_grids(ctx, F, tag):
    """every grid of every object (original, copy, fresh) points at its owner; a child located in a grid is located in
    its parent's grid (all cells of a multi-cell location); a parentless object is not located in anybody's grid"""
    objs = F.objs
    ctx.check(tag + ": every grid points at its owner",
              all(o.spatialGrid.armiObject is o for o in objs if o.spatialGrid is not None))
    ctx.check(tag + ": a child's location that lives in a grid lives in the PARENT's grid (every cell of a multi-cell "
                    "location)",
              all(l.grid is None or l.grid is objs[F.par[i]].spatialGrid
                  for i, o in enumerate(objs) if F.par[i] is not None for l in loc_cells(o.spatialLocator)))
    ctx.check(tag + ": a parentless object is not located in anybody's grid",
              all(o.spatialLocator.grid is None for i, o in enumerate(objs) if F.par[i] is None))
    if not KNOWN_DEFECT_multi_location_detach:
        ctx.check(tag + ": no cell of a parentless object's multi-cell location lives in a grid",
                  all(l.grid is None for i, o in enumerate(objs) if F.par[i] is None
                      for l in loc_cells(o.spatialLocator)))


def snapshot_locations(objs, idxs):
    """kind and indices of the location (and of every cell of a multi-cell location) of the given objects"""
    return {g: [(type(l).__name__, l.i, l.j, l.k) for l in loc_cells(objs[g].spatialLocator)] for g in idxs}


def check_taken_out(ctx, F, gone, formerParent, locBefore, tag, bad=False):
    """THE statement about objects taken out of the model, whatever public call took them out (remove, removeAll,
    setChildren without them, a replacement of the parent's content, a re-meshing of the parent, a discharge ...):
    no parent; a detached location -- neither the location nor any cell of a multi-cell location lives in a grid any
    more -- of the same kind and with the same indices; and the former parent neither lists nor finds them.
    `F` is the model AFTER the operation; `bad` is the canary's rare corner."""
    objs = F.objs
    ok = all(objs[g].parent is None and all(l.grid is None for l in loc_cells(objs[g].spatialLocator)) for g in gone)
    if ctx.canary:
        ok = AND(ok, NOT(bad))
    ctx.check(tag + ": objects taken out have no parent and a detached location (no cell of it lives in a grid)", ok)
    ctx.check(tag + ": the detached location is of the same kind and keeps its indices",
              snapshot_locations(objs, gone) == {g: locBefore[g] for g in gone})
    t = objs[formerParent]
    below = [t] + walk_pre(objs[F.root(formerParent)])
    ctx.check(tag + ": the former parent (and its whole tree) no longer lists or finds the objects taken out",
              all(objs[g] not in t and not any(x is objs[g] for x in below) and
                  not any(v is objs[g] for v in t.childrenByLocator.values()) for g in gone))


@harness("C01", bounds="typed tree HexAssembly (axial grid) > 1..2 HexBlocks (fuel+clad+duct / fuel+duct), each block "
                       "with or without a PIN GRID of its own (symbolic Bools; components located in it by one shared "
                       "multi-cell location / a coordinate location) x what is copied (the assembly; a block in place; a "
                       "block after it was taken out of the assembly; symbolic) x deepcopy / pickle round trip, then "
                       "ONE step on the copy (symbolic): nothing / remove a component of a copied block / add a fresh "
                       "component to it / put the copied block into the original assembly (top)", stubs=STUBS,
         max_paths=20000, instances={"quick": [dict(how="deepcopy+pickle")]})
def copy_gridded_typed(ctx, how):
    nbS = ctx.int("nblocks", 1, 2)
    pins = [ctx.bool("block0 has a pin grid"), ctx.bool("block1 has a pin grid")]
    wS = ctx.int("copied", 0, 4)       # 0: the assembly; 1, 2: that block, in place; 3, 4: that block, taken out first
    eS = ctx.int("step", 0, 3)         # 0: none; 1: remove a component; 2: add a component; 3: copied block -> assembly
    kS = ctx.int("component", 0, 2)    # which component of the block is removed (step 1)
    for h in how.split("+"):
        _copy_gridded_typed(ctx, nbS, pins, wS, eS, kS, h)


def _copy_gridded_typed(ctx, nbS, pins, wS, eS, kS, how):
    nb, w, e = int(nbS), int(wS), int(eS)
    ctx.assume(w <= 2 * 2 and (w == 0 or (w - 1) % 2 < nb))
    ctx.assume(e < 3 or w > 0)
    D = dict(nb=nb, t0=0, m0=[True, True, True], m1=[True, True])
    F = build_typed(D)
    objs = F.objs
    a = objs[0]
    gridded = []
    for k, bi in enumerate(F.kids[0]):
        if pins[k]:                     # forks
            give_pin_grid(objs[bi])
            gridded.append(bi)
    if w == 0:
        r = 0
    else:
        r = F.kids[0][(w - 1) % 2]
        if w >= 3:
            a.remove(objs[r])
            F.detach(r)
    orig = objs[r]
    cp = copy_of(orig, how)
    check_copy(ctx, orig, cp, how)
    m = graft_copy(ctx, F, r, cp, how)
    if m is None:
        return
    top = m[r]
    blocks2 = list(F.kids[top]) if r == 0 else [top]
    rare = AND(nbS == 2, pins[0], NOT(pins[1]), wS == 0)
    okKind = True
    for s, i in m.items():
        for x, y in zip(loc_cells(objs[s].spatialLocator), loc_cells(objs[i].spatialLocator)):
            okKind &= type(x) is type(y) and (x.i, x.j, x.k) == (y.i, y.j, y.k)
        okKind &= len(loc_cells(objs[s].spatialLocator)) == len(loc_cells(objs[i].spatialLocator))
        okKind &= (objs[s].spatialGrid is None) == (objs[i].spatialGrid is None)
    if ctx.canary:
        okKind = AND(okKind, NOT(AND(rare, eS == 0)))
    ctx.check(how + ": the copy has a grid where the original has one, and locations of the same kind and indices", okKind)
    ctx.check(how + ": components of one copied block that shared a multi-cell location share ONE copied location",
              all((objs[m[s]].spatialLocator is objs[m[t]].spatialLocator) ==
                  (objs[s].spatialLocator is objs[t].spatialLocator)
                  for s in m for t in m if F.par[s] is not None and F.par[s] == F.par[t]))
    check_grids(ctx, F, how + " (fresh copy)")
    gone = []
    bi = blocks2[0]
    if e == 1:
        kids = list(F.kids[bi])
        ctx.assume(kS < len(kids))
        gone = [kids[int(kS)]]
        objs[bi].remove(objs[gone[0]])
        F.detach(gone[0])
    elif e == 2:
        ctx.assume(kS == 0)
        ci = fresh_comp(F, "bond")
        objs[bi].add(objs[ci])
        F.attach(bi, ci)
    elif e == 3:
        ctx.assume(kS == 0)
        a.add(objs[top])
        F.attach(0, top)
        ctx.check(how + ": the copied block sits on top of the assembly, located in the assembly's grid",
                  a[len(a) - 1] is objs[top] and objs[top].spatialLocator.grid is a.spatialGrid)
    else:
        ctx.assume(kS == 0)
    ctx.check(how + ": objects taken out have no parent and a detached location",
              all(objs[g].parent is None and objs[g].spatialLocator.grid is None for g in gone))
    tag = how + " then step %d" % e
    check_forest(ctx, F, tag)
    check_grids(ctx, F, tag)
    check_typed_extras(ctx, F, tag + " (original)")
    ctx.check(tag + ": every component's material points back at it",
              all(c.material.parent is c for x in blocks2 for c in objs[x]))
    for x in [0, r, top] + gone:
        check_deep(ctx, objs[x], tag)


# ---------------------------------------------------------------------------
# (8) every public way of TAKING CHILDREN OUT of a parent that locates its children in a grid of its own
#
# "An object taken out of the model has no parent and a detached location" speaks about the object, not about the call
# that took it out.  The blocks of the typed edit steps above carry no pin grid, so there a component's location is
# "detached" before and after; here every block may own a pin grid (symbolic), its components sit in it (one shared
# multi-cell location; a coordinate in the grid or a cell of it for the single ones), and EVERY call of the public
# API through which components leave a block, or blocks an assembly, is one step: remove, removeAll, setChildren,
# Block.replaceBlockWithBlock (the block's content is replaced by copies of another block's), Assembly.adjustResolution
# (blocks are replaced by shorter copies of themselves).  check_taken_out is the one common obligation.

# Candidate defect (found while writing this; kept out of the green check by the flag): Block.replaceBlockWithBlock
# deep-copies the replacement block and hands the COPY's components to self with setChildren, without touching their
# locations.  If the replacement block has a pin grid, the new components of self are located in the grid of the hidden
# temporary block (which also still lists them as its children): child.spatialLocator.grid.armiObject is not
# child.parent, self.spatialGrid does not locate self's own children, and global coordinates of the pins are computed
# relative to a parentless throw-away block.  Repro: b, rep = two HexBlocks with components; rep.spatialGrid =
# HexGrid.fromPitch(1.0, armiObject=rep); rep's components located at rep.spatialGrid[0, 0, 0];
# b.replaceBlockWithBlock(rep) -> b[0].spatialLocator.grid.armiObject is neither b nor rep, and b[0] in that object.
# While the flag is set the replacement block carries no pin grid; VERIF_SHOW_KNOWN_DEFECTS=1 shows the violations.
KNOWN_DEFECT_replace_block_keeps_foreign_grid = False  # recorded in known_findings.jsonl

TAKE_OUT_OPS = ("Block.remove", "Block.removeAll", "Block.setChildren", "Block.replaceBlockWithBlock",
                "Assembly.remove", "Assembly.removeAll", "Assembly.setChildren", "Assembly.adjustResolution")


def _nsub(n, maxlen):
    return len(_sublists(list(range(n)), maxlen))


def block_shape(b):
    """what a copy of a block must share with it once both have been (re)named by their assemblies"""
    return (type(b).__name__, b.getType(), [(type(c).__name__, c.name) for c in b])


def adopt_new_subtree(F, top, parent=None, pos=None):
    """register an object the operation created (and everything below it) in the model, as `parent`'s child"""
    ti = F.new(top)
    note_typed(F, top, "fuel")
    if parent is not None:
        F.attach(parent, ti, pos)
    for c in top:
        adopt_new_subtree(F, c, ti)
    return ti


@harness("C01", bounds="typed tree HexAssembly (axial grid) > 1..2 HexBlocks (fuel+clad+duct / fuel+duct), each block "
                       "with or without a PIN GRID of its own (symbolic Bools; components located in it by one shared "
                       "multi-cell location; the single component at a coordinate of the grid or on a cell of it, "
                       "symbolic) x ONE call that takes children out, operands symbolic: Block.remove (any component) / "
                       "Block.removeAll / Block.setChildren (every ordered selection of <= 2 (thorough 3) of children + "
                       "a fresh component) / Block.replaceBlockWithBlock (replacement: one of two other blocks, with or "
                       "without a pin grid) / Assembly.remove (any block) / Assembly.removeAll / Assembly.setChildren "
                       "(selections of blocks + a fresh block with or without pin grid) / Assembly.adjustResolution "
                       "(every subset of the blocks is split in two by the reference mesh)", stubs=STUBS,
         max_paths=40000,
         instances={"quick": [dict(op=o, maxlen=2) for o in TAKE_OUT_OPS],
                    "thorough": [dict(op=o, maxlen=3) for o in ("Block.setChildren", "Assembly.setChildren")]})
def take_out_located_children(ctx, op, maxlen):
    nbS = ctx.int("nblocks", 1, 2)
    pins = [ctx.bool("block0 has a pin grid"), ctx.bool("block1 has a pin grid")]
    cellS = ctx.bool("single components sit on a cell of the pin grid (else at a coordinate of it)")
    inS = ctx.bool("the incoming block (replacement / fresh block) has a pin grid")
    bS = ctx.int("block", 0, 1)
    xS = ctx.int("operand", 0, max(3, _nsub(4, maxlen) - 1))
    nb = int(nbS)
    F = build_typed(dict(nb=nb, t0=0, m0=[True, True, True], m1=[True, True]))
    objs = F.objs
    a = objs[0]
    for k, bi in enumerate(F.kids[0]):
        if pins[k]:                     # forks
            give_pin_grid(objs[bi], singleByIndex=bool(cellS))
    incomingGrid = op in ("Block.replaceBlockWithBlock", "Assembly.setChildren")
    if not incomingGrid:
        ctx.assume(NOT(inS))
    elif op == "Block.replaceBlockWithBlock" and KNOWN_DEFECT_replace_block_keeps_foreign_grid and _HIDE:
        ctx.assume(NOT(inS))
    rare = AND(nbS == 2, pins[0], NOT(pins[1]))
    if op.startswith("Block."):
        ctx.assume(bS < nb)
        t = F.kids[0][int(bS)]
        b = objs[t]
        kids = list(F.kids[t])
        locBefore = snapshot_locations(objs, kids)
        if op == "Block.remove":
            ctx.assume(xS < len(kids))
            gone = [kids[int(xS)]]
            b.remove(objs[gone[0]])
            F.detach(gone[0])
            bad = AND(rare, bS == 0, xS == 2)
        elif op == "Block.removeAll":
            ctx.assume(xS == 0)
            gone = kids
            b.removeAll()
            for g in gone:
                F.detach(g)
            bad = AND(rare, bS == 0)
        elif op == "Block.setChildren":
            f = fresh_comp(F, "bond")
            options = _sublists(kids + [f], maxlen)
            ctx.assume(xS < len(options))
            items = options[int(xS)]
            b.setChildren([objs[i] for i in items])
            gone = [k for k in kids if k not in items]
            for k in kids:
                F.detach(k)
            for i in items:
                F.attach(t, i)
            ctx.check(op + ": the children are the given items in the given order",
                      same_objs(list(b), [objs[i] for i in items]))
            bad = AND(rare, bS == 0, xS == 5)
        else:
            ctx.assume(xS <= 1)
            ri = fresh_block(F, *(("shield", ("fuel", "duct")), ("plenum", ("clad",)))[int(xS)])
            rep = objs[ri]
            if inS:                     # forks
                give_pin_grid(rep, singleByIndex=bool(cellS))
            known = list(objs)
            b.replaceBlockWithBlock(rep)
            gone = kids
            for k in kids:
                F.detach(k)
            ctx.check(op + ": the block's content is a COPY of the replacement's (same component types and names in "
                           "order; no object of the replacement, no former child, each new)",
                      [(type(c).__name__, c.name) for c in b] == [(type(c).__name__, c.name) for c in rep] and
                      not any(c is o for c in b for o in known) and len({id(c) for c in b}) == len(b))
            for c in list(b):
                if not any(c is o for o in known):
                    adopt_new_subtree(F, c, t)
                    note_typed(F, c, c.name)
            bad = AND(rare, bS == 0, xS == 1)
    else:
        t = 0
        kids = list(F.kids[0])
        locBefore = snapshot_locations(objs, kids)
        if op == "Assembly.remove":
            ctx.assume(AND(bS < nb, xS == 0))
            gone = [kids[int(bS)]]
            a.remove(objs[gone[0]])
            F.detach(gone[0])
            bad = AND(rare, bS == 0)
        elif op == "Assembly.removeAll":
            ctx.assume(AND(bS == 0, xS == 0))
            gone = kids
            a.removeAll()
            for g in gone:
                F.detach(g)
            bad = rare
        elif op == "Assembly.setChildren":
            ctx.assume(bS == 0)
            ni = fresh_block(F)
            if inS:                     # forks
                give_pin_grid(objs[ni], singleByIndex=bool(cellS))
            options = _sublists(kids + [ni], maxlen)
            ctx.assume(xS < len(options))
            items = options[int(xS)]
            a.setChildren([objs[i] for i in items])
            gone = [k for k in kids if k not in items]
            for k in kids:
                F.detach(k)
            for i in items:
                F.attach(0, i)
            ctx.check(op + ": the blocks are the given items in the given order",
                      same_objs(list(a), [objs[i] for i in items]))
            bad = AND(rare, xS == 3)
        else:
            # reference mesh: block k keeps its height (10) or is matched by two reference blocks of 5 + 5
            ctx.assume(AND(bS == 0, xS < 2 ** nb))
            split = [bool(int(xS) >> k & 1) for k in range(nb)]
            ref = assemblies.HexAssembly("fuel")
            ref.spatialGrid = grids.AxialGrid.fromNCells(2 * nb)
            ref.spatialGrid.armiObject = ref
            for k in range(nb):
                for h in ((5.0, 5.0) if split[k] else (10.0,)):
                    ref.add(mk_typed_block("fuel", ("fuel", "clad", "duct"), height=h))
            shapes = [block_shape(objs[k]) for k in kids]
            known = list(objs)
            a.adjustResolution(ref)
            gone = [k for k, sp in zip(kids, split) if sp]
            for k in kids:
                F.detach(k)
            now, pos, okNew = list(a), 0, len(a) == nb + sum(split)
            for k, sp, sh in zip(kids, split, shapes):
                if not okNew:
                    break
                if not sp:
                    okNew &= now[pos] is objs[k]
                    F.attach(0, k)
                    pos += 1
                else:
                    for x in now[pos:pos + 2]:
                        okNew &= not any(x is o or any(c is o for c in x) for o in known) and block_shape(x) == sh and \
                            x.getHeight() == 5.0 and (x.spatialGrid is not None) == (objs[k].spatialGrid is not None)
                        if okNew:
                            adopt_new_subtree(F, x, 0)
                    pos += 2
            ctx.check(op + ": a block matched by the reference mesh stays; a block split by it is replaced, in place, by "
                           "two new blocks of the same make-up (own components, own pin grid if it had one)", okNew)
            bad = AND(rare, xS == 1)
    check_taken_out(ctx, F, gone, t, locBefore, op, bad)
    check_forest(ctx, F, op)
    check_grids(ctx, F, op)
    check_typed_extras(ctx, F, op)
    for r in [0] + gone:
        check_deep(ctx, objs[r], op)


# Candidate defect (reported by an independent engineer, confirmed here; kept out of the green check by the flag):
# ExcoreCollection is a dict subclass whose __getstate__ / __deepcopy__ handle only the instance __dict__, so
# copy.deepcopy(reactor).excore is EMPTY although the copied reactor has its SpentFuelPool child (pickle keeps the
# entries).  Consequence: on a deep-copied reactor, Core.removeAssembly with assembly tracking finds "no spent fuel
# pool" and drops the discharged assembly.  Repro: r = Reactor(...); r.add(SpentFuelPool("sfp"));
# dict(copy.deepcopy(r).excore) == {} while dict(pickle.loads(pickle.dumps(r)).excore) has 'sfp'.
# While the flag is set the lookup is not examined after deepcopy; VERIF_SHOW_KNOWN_DEFECTS=1 shows the violations.
KNOWN_DEFECT_excore_table_lost_by_deepcopy = False  # repaired in /repo (fix: c937d9d)


def add_pool(r):
    """a spent fuel pool (ex-core structure with a grid of its own) as a second child of the reactor"""
    sfp = SpentFuelPool("sfp")
    g = grids.CartesianGrid.fromRectangle(50.0, 50.0, numRings=2)
    g.armiObject = sfp
    sfp.spatialGrid = g
    r.add(sfp)
    return sfp


def shape_rc(o):
    """shape with the names of Reactor / Core objects left out (their __deepcopy__ appends '-copy' on purpose)"""
    nm = None if type(o).__name__ in ("Reactor", "Core") else o.name
    return (type(o).__name__, nm, [shape_rc(c) for c in o])


@harness("C01", bounds="mini reactor (Reactor > Core with a hex grid > 1..2 assemblies (symbolic) > 1 block > 4 "
                       "components, the blocks with or without a pin grid of their own (symbolic Bool)); deepcopy / pickle "
                       "of the reactor, the core, an assembly inside the core, a block",
         stubs=STUBS, instances={"quick": [dict(how="deepcopy"), dict(how="pickle")]})
def copy_core_and_reactor(ctx, how):
    nS = ctx.int("nassemblies", 1, 2)
    wS = ctx.int("what", 0, 3)
    pS = ctx.bool("blocks have a pin grid")
    sS = ctx.bool("the reactor has a spent fuel pool")
    cells = [(0, 0), (1, 0)][:int(nS)]
    r, core, assems = _build.mk_core(cells, nblocks=1)
    sfp = add_pool(r) if sS else None
    if pS:
        for x in assems:
            for y in x:
                give_pin_grid(y)
    what = ["reactor", "core", "assembly", "block"][int(wS)]
    orig = {"reactor": r, "core": core, "assembly": assems[-1], "block": assems[-1][0]}[what]
    cp = copy.deepcopy(orig) if how == "deepcopy" else pickle.loads(pickle.dumps(orig))
    ok = shape_rc(cp) == shape_rc(orig)
    if ctx.canary:
        ok = AND(ok, NOT(AND(nS == 2, wS == 2)))
    ctx.check("equal shape (types, order, names of assemblies / blocks / components)", ok)
    a, b = [orig] + walk_pre(orig), [cp] + walk_pre(cp)
    ctx.check("no node shared", not ({id(x) for x in a} & {id(x) for x in b}))
    ctx.check("copy is detached", cp.parent is None)
    ctx.check("children point at the NEW parent", all(c.parent is x for x in b for c in x))
    ctx.check("grids point at the NEW owner", all(x.spatialGrid.armiObject is x for x in b if x.spatialGrid is not None))
    ctx.check("located children live in the NEW parent's grid (every cell of a multi-cell location)",
              all(l.grid is x.spatialGrid for x in b if x.spatialGrid is not None for c in x
                  for l in loc_cells(c.spatialLocator)))
    ctx.check("the copy has a grid wherever the original has one",
              [x.spatialGrid is None for x in a] == [x.spatialGrid is None for x in b])
    if what in ("assembly", "block"):
        ctx.check("the copy's own location is detached from the original's grid", cp.spatialLocator.grid is None)
    c2 = cp.core if what == "reactor" else (cp if what == "core" else None)
    if what == "reactor":
        # the reactor's by-name table of its ex-core children is a lookup like reactor.core: it has to answer with the
        # copy's own children
        pools = [x for x in cp if isinstance(x, SpentFuelPool)]
        ctx.check("the copied reactor has a spent fuel pool child iff the original has one", len(pools) == (1 if sS else 0))
        if not (KNOWN_DEFECT_excore_table_lost_by_deepcopy and _HIDE and how == "deepcopy"):
            ctx.check("reactor.excore of the copy finds exactly the copy's own ex-core children (the pool under 'sfp')",
                      len(cp.excore) == len(pools) and all(cp.excore.get("sfp") is x for x in pools))
        ctx.check("reactor.excore of the original still finds the original's pool",
                  len(r.excore) == (1 if sS else 0) and (sfp is None or r.excore.get("sfp") is sfp))
    if c2 is not None:
        ctx.check("reactor.core is the copied core", what != "reactor" or (c2 is cp[0] and c2.parent is cp))
        ctx.check("the core's location table maps to the NEW assemblies",
                  len(c2.childrenByLocator) == len(c2) and
                  all(c2.childrenByLocator[x.spatialLocator] is x for x in c2))
        ctx.check("the core's name tables map to the NEW assemblies and blocks",
                  all(c2.assembliesByName[x.getName()] is x for x in c2) and
                  all(c2.blocksByName[y.getName()] is y for x in c2 for y in x))
    # original untouched
    ctx.check("original still wired", core.parent is r and r.core is core and all(x.parent is core for x in core) and
              all(x.spatialLocator.grid is core.spatialGrid for x in core) and core.spatialGrid.armiObject is core)


# ---------------------------------------------------------------------------
# cores of assemblies

# Incidental finding (tree stays well formed, but a refused operation is half done): Core.add(a, loc) with `loc`
# already occupied raises KeyError (the error message looks up a.spatialLocator instead of loc) instead of the intended
# ValueError, AFTER Composite.add has attached `a` to the core: a.parent is core, a in core, not in childrenByLocator.
# Repro: core with an assembly at (1,0); core.add(mk_assembly(1), core.spatialGrid[1, 0, 0]).
# While the flag is set the occupied-cell operand is skipped; VERIF_SHOW_KNOWN_DEFECTS=1 shows the violations.
KNOWN_DEFECT_core_add_occupied = False  # repaired in /repo (fix: commit d52af37)
CELLS = [(1, 0), (1, 1), (2, 0), (0, 1)]


def forest_from(root):
    F = Forest([root])

    def rec(i):
        for c in F.objs[i]:
            k = F.new(c)
            F.attach(i, k)
            rec(k)

    rec(0)
    return F


# Candidate defect (reported by an independent engineer, confirmed here; kept out of the green check by the flag): the
# repair d52af37 moved only the occupied-cell refusal in front of Composite.add.  Core.add still raises
#  - LookupError for a cell outside the represented symmetry domain AFTER Composite.add attached the assembly
#    (afterwards: a.parent is core, a in core, not in core.childrenByLocator, a's location detached), and
#  - RuntimeError "already contains an assembly with the same name" after attaching, moving and registering it in
#    childrenByLocator (afterwards the core has two children of that name; assembliesByName knows the old one).
# Repro: r, core = mini reactor with a third-core HexGrid; a = HexAssembly(...);
#        core.add(a, core.spatialGrid[-1, 0, 0]) -> LookupError, but a in core and a.parent is core.
#        a2.renumber(existing.p.assemNum); core.add(a2, core.spatialGrid[1, 1, 0]) -> RuntimeError, but a2 in core.
# While the flag is set these operands are skipped; VERIF_SHOW_KNOWN_DEFECTS=1 shows the violations.
KNOWN_DEFECT_core_add_refused_after_attach = False  # repaired in /repo (fix: 7fd460f)
OUTSIDE = [(-1, 0), (0, -1)]      # cells of the hex grid that lie outside the third-core domain (120 degree sector)

CORE_BOUNDS = ("mini reactor: Reactor > Core (third-core hex grid) > 1..2 assemblies (symbolic) > block (with or without "
               "a pin grid, symbolic Bool) > components, with or without a spent fuel pool next to the core (symbolic "
               "Bool); one operation: Core.add of a fresh assembly at one of 4 cells of the domain or 2 cells outside it, "
               "optionally carrying the name of an assembly of the core (symbolic; an occupied cell, a cell outside the "
               "domain and a duplicate name must be refused without effect) / Core.removeAssembly of any assembly, "
               "discharge flag and assembly tracking symbolic (tracked discharge with a pool: the assembly moves into "
               "the pool, which may hand it out again (symbolic Bool); otherwise it leaves the model)")


@harness("C01", bounds=CORE_BOUNDS, stubs=STUBS,
         instances={"quick": [dict(op="add"), dict(op="removeAssembly")]})
def core_edit_step(ctx, op):
    _core_step(ctx, op, None)


@harness("C01", bounds="as core_edit_step, but the reactor is first copied as a whole (deepcopy / pickle round trip of "
                       "the Reactor) and the operation is applied to the COPIED core; the original reactor must stay "
                       "wired. " + CORE_BOUNDS, stubs=STUBS,
         instances={"quick": [dict(op=o, how=h) for o in ("add", "removeAssembly") for h in ("deepcopy", "pickle")]})
def core_copy_then_edit(ctx, op, how):
    _core_step(ctx, op, how)


def _core_step(ctx, op, how):
    nS = ctx.int("nassemblies", 1, 2)
    xS = ctx.int("operand", 0, 5)
    pS = ctx.bool("blocks have a pin grid")
    sS = ctx.bool("the reactor has a spent fuel pool")
    sameS = ctx.bool("add: the new assembly carries the name of an assembly of the core")
    disS = ctx.bool("removeAssembly: discharge")
    trS = ctx.bool("removeAssembly: assemblies are tracked")
    relS = ctx.bool("removeAssembly: the pool hands an assembly it received out again (pool.remove)")
    ctx.assume(IMPLIES(relS, AND(sS, disS, trS)))
    if op == "add":
        ctx.assume(NOT(OR(disS, trS)))
        if KNOWN_DEFECT_core_add_refused_after_attach and _HIDE:
            ctx.assume(AND(xS < len(CELLS), NOT(sameS)))
    else:
        ctx.assume(NOT(sameS))
        if KNOWN_DEFECT_excore_table_lost_by_deepcopy and _HIDE and how == "deepcopy":
            ctx.assume(NOT(AND(sS, disS, trS)))     # the copied reactor does not find its pool
    r, core, assems = _build.mk_core([(0, 0), (1, 0)][:int(nS)], nblocks=1)
    if sS:
        add_pool(r)
    if pS:
        for x in assems:
            for y in x:
                give_pin_grid(y)
    if how is not None:
        r0, core0 = r, core
        F0 = forest_from(r0)
        r = copy_of(r0, how)
        ctx.check(how + ": the copied reactor has the shape of the original", shape_rc(r) == shape_rc(r0))
        core = r.core
        ctx.check(how + ": reactor.core of the copy is the copy's first child, not the original core",
                  core is not core0 and len(r) == (2 if sS else 1) and core is r[0])
        assems = list(core)
    pool = next((x for x in r if isinstance(x, SpentFuelPool)), None)
    F = forest_from(r)
    ci = F.idx(core)
    gone = []
    if op == "add":
        cell = (CELLS + OUTSIDE)[int(xS)]
        new = _build.mk_assembly(1)
        same = bool(sameS)
        if same:
            new.renumber(int(assems[0].p.assemNum))
        ni = len(F.objs)
        sub = forest_from(new)
        occupied = cell == (1, 0) and int(nS) == 2
        if KNOWN_DEFECT_core_add_occupied:
            ctx.assume(not occupied)
        try:
            core.add(new, core.spatialGrid[cell[0], cell[1], 0])
            refused = False
        except (ValueError, LookupError, RuntimeError):
            refused = True
        ctx.check("adding at an occupied cell, at a cell outside the represented domain or under the name of an "
                  "assembly of the core is refused, and only then", refused == (occupied or cell in OUTSIDE or same))
        for k, o in enumerate(sub.objs):
            F.new(o)
        for k, o in enumerate(sub.objs):
            if sub.par[k] is not None:
                F.attach(ni + sub.par[k], ni + k)
        if not refused:
            F.attach(ci, ni)
            ok = new.spatialLocator.grid is core.spatialGrid and \
                (new.spatialLocator.i, new.spatialLocator.j) == cell
            if ctx.canary:
                ok = AND(ok, NOT(AND(nS == 1, xS == 2)))
            ctx.check("the new assembly sits at the requested cell of the core's grid", ok)
            ctx.check("the core finds the new assembly by its name", core.assembliesByName.get(new.getName()) is new)
        else:
            ctx.check("a refused add leaves the assembly out of the core", new.parent is None and new not in core)
            ctx.check("a refused add leaves the assembly out of the core's tables, which still find the old ones",
                      not any(v is new for v in core.childrenByLocator.values()) and
                      not any(v is new for v in core.assembliesByName.values()) and
                      all(core.assembliesByName.get(x.getName()) is x for x in assems))
    else:
        ctx.assume(int(xS) < int(nS))
        a = assems[int(xS)]
        gi = F.idx(a)
        locBefore = snapshot_locations(F.objs, [gi])
        core._trackAssems = bool(trS)
        core.removeAssembly(a, discharge=bool(disS))
        F.detach(gi)
        rare = AND(nS == 2, xS == 0)
        if bool(disS) and bool(trS) and pool is not None:
            # documented: a tracked, discharged assembly is put into the spent fuel pool
            F.attach(F.idx(pool), gi)
            ok = a.parent is pool and a.spatialLocator.grid is pool.spatialGrid
            if ctx.canary:
                ok = AND(ok, NOT(rare))
            ctx.check("a tracked discharged assembly is the pool's child, located in the pool's grid", ok)
            ctx.check("the core no longer lists or locates it",
                      a not in core and not any(v is a for v in core.childrenByLocator.values()))
            if relS:                    # forks; the way a fuel handler pulls an assembly out of the pool
                locBefore = snapshot_locations(F.objs, [gi])
                pool.remove(a)
                F.detach(gi)
                gone = [gi]
                check_taken_out(ctx, F, gone, F.idx(pool), locBefore, "pool.remove")
        else:
            gone = [gi]
            check_taken_out(ctx, F, gone, ci, locBefore, op, rare)
            if not (bool(disS) and bool(trS)):
                ctx.check("the core's name tables no longer know an assembly that left the model, nor its blocks",
                          not any(v is a for v in core.assembliesByName.values()) and
                          not any(v is y for v in core.blocksByName.values() for y in a))
        ctx.check("the removed assembly keeps its blocks", same_objs(walk_pre(a), [F.objs[k] for k in F.subtree(gi)[1:]]))
    check_forest(ctx, F, op)
    check_deep(ctx, r, op)
    ctx.check("every grid (core, pool, assemblies, pin grids) points at its owner and locates that owner's children",
              all(x.spatialGrid.armiObject is x and all(l.grid is x.spatialGrid for c in x
                                                        for l in loc_cells(c.spatialLocator))
                  for x in F.objs if x.spatialGrid is not None))
    ctx.check("an object without a parent is located in nobody's grid (no cell of a multi-cell location either)",
              all(l.grid is None for i, x in enumerate(F.objs) if F.par[i] is None and x.spatialLocator is not None
                  for l in loc_cells(x.spatialLocator)))
    ctx.check("the core's location table lists exactly its children",
              len(core.childrenByLocator) == len(core) and
              all(core.childrenByLocator.get(x.spatialLocator) is x for x in core))
    ctx.check("the core's grid points at the core and locations of its children live in it",
              core.spatialGrid.armiObject is core and all(x.spatialLocator.grid is core.spatialGrid for x in core))
    ctx.check("reactor.core is the core", r.core is core and core.parent is r)
    if how is not None:
        check_forest(ctx, F0, "original after the edit of the copy")
        ctx.check("no object is shared between the original and the edited copy",
                  not ({id(x) for x in F0.objs} & {id(x) for x in F.objs}))
        ctx.check("the original core's location table still lists exactly its children",
                  len(core0.childrenByLocator) == len(core0) and
                  all(core0.childrenByLocator.get(x.spatialLocator) is x for x in core0) and
                  all(x.spatialLocator.grid is core0.spatialGrid for x in core0) and r0.core is core0)
