"""C20 (label clause): every admissible XS type label converts to its numeric identifier and back, no collisions."""
import string

from symx.core import AND, OR, NOT, IMPLIES, IFF, ITE, Sym
from symx.engine import harness
from symx import shims, symstr

import armi.physics.neutronics.crossSectionGroupManager as xsgm

shims.patch(xsgm, int=symstr.int_shim, str=symstr.str_shim, ord=symstr.ord_shim, chr=symstr.chr_shim)

STUBS = ["crossSectionGroupManager.int/str/ord/chr -> fixed-length symbolic string model (digits tied to the value by "
         "one linear constraint; forks on digit count)", "runLog unchanged (error text carries marker tokens only)"]

ALPHABET = "".join(xsgm._ALLOWABLE_XS_TYPE_LIST)
assert not symstr.selfcheck_format_model(["02d", ""])


@harness("C20", bounds="label of length 1 or 2 over the allowable alphabet read from _ALLOWABLE_XS_TYPE_LIST "
                       "(upper and lower case letters), every character symbolic", stubs=STUBS,
         instances={"quick": [dict(n=1), dict(n=2)]})
def label_number_roundtrip(ctx, n):
    label = symstr.symstring(ctx, "ch", ALPHABET, n)
    num = xsgm.getXSTypeNumberFromLabel(label)
    back = xsgm.getXSTypeLabelFromNumber(num)
    ok = symstr.same_text(back, label)
    if ctx.canary:
        ok = AND(ok, NOT(symstr.same_text(label, "Q" * n)))
    ctx.check("label -> number -> label is the identity", ok)


@harness("C20", bounds="two labels, lengths 1..2 each, all characters symbolic over the allowable alphabet", stubs=STUBS,
         instances={"quick": [dict(n1=a, n2=b) for a in (1, 2) for b in (1, 2)]})
def labels_do_not_collide(ctx, n1, n2):
    a = symstr.symstring(ctx, "a", ALPHABET, n1)
    b = symstr.symstring(ctx, "b", ALPHABET, n2)
    na = xsgm.getXSTypeNumberFromLabel(a)
    nb = xsgm.getXSTypeNumberFromLabel(b)
    same = symstr.same_text(a, b) if n1 == n2 else False
    if ctx.canary:
        same = OR(same, AND(symstr.same_text(a, "B" * n1), symstr.same_text(b, "C" * n2)))
    ctx.check("equal numbers only for equal labels", IFF(na == nb, same))
