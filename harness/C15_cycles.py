"""C15 (cycle arithmetic): cycle-history expansion and (cycle,node) <-> cumulative node / step numbering.

The real ``armi.utils`` functions only index ``cs[...]``; the harness hands them a plain dict holding the cycle
settings (numbers symbolic, list structure concrete) and compares what they return with the history the settings
describe, written down directly from the settings' documentation / the property text.

Documented preconditions used (see the report):
* simple input with ``burnSteps == 0`` only with ``nCycles == 1`` (settingsValidation refuses "multi-cycle standard
  cases with 0 burnSteps per cycle");
* detailed input of the form ``burn steps`` + ``cycle length`` has ``burn steps >= 1`` (0 divides by zero in
  ``_getStepAndCycleLengths``; zero-step cycles are expressed as ``step days: []`` instead);
* detailed input has availability factor > 0 (the cycle length is derived as sum(steps)/availability).
"""
from symx.core import AND, OR, NOT, IMPLIES, ITE, Sym
from symx.engine import harness
from symx import shims

import armi.utils as U

from harness._util_C15 import pick
import armi.utils.mathematics as mathmod

shims.patch(mathmod, float=shims.float_shim)

STUBS = ["utils.mathematics.float -> identity on proxies (expandRepeatedFloats/getStepsFromValues call float())",
         "cs is a plain dict holding exactly the cycle settings the functions index; list-valued settings hold "
         "numbers instead of their string renderings (repeat markers like '2R' stay strings)"]

SIMPLE_DEFAULTS = dict(nCycles=1, burnSteps=4, cycleLength=365.242199, cycleLengths=[], availabilityFactor=1.0,
                       availabilityFactors=[], powerFractions=[], cycles=[])


def mk_cs(**kw):
    cs = dict(SIMPLE_DEFAULTS)
    cs.update(kw)
    return cs


def _expand(ctx, kind, name, n, lo, hi, scalar_key, list_key, cs, default):
    """Fill cs for one simple-input quantity; return the per-cycle values the setting text describes."""
    if kind == "default":
        return [default] * n
    if kind == "scalar":
        x = ctx.real(name, lo, hi)
        cs[scalar_key] = x
        return [x] * n
    if kind == "list":
        xs = [ctx.real("%s%d" % (name, i), lo, hi) for i in range(n)]
        cs[list_key] = list(xs)
        return xs
    if kind == "repeat":  # [x0, '<n-1>R'] : x0 followed by n-1 repeats of it
        x = ctx.real(name, lo, hi)
        cs[list_key] = [x] if n == 1 else [x, "%dr" % (n - 1)]
        return [x] * n
    if kind == "mixed":   # [x0, x1, '<n-2>R'] (n >= 2)
        x0 = ctx.real(name + "0", lo, hi)
        x1 = ctx.real(name + "1", lo, hi)
        if n == 1:
            cs[list_key] = [x0]
            return [x0]
        cs[list_key] = [x0, x1] if n == 2 else [x0, x1, "%dR" % (n - 2)]
        return [x0] + [x1] * (n - 1)
    raise KeyError(kind)


SIMPLE_VARIANTS = [dict(lengths="scalar", avail="scalar", pf="default"),
                   dict(lengths="list", avail="list", pf="list"),
                   dict(lengths="repeat", avail="mixed", pf="repeat"),
                   dict(lengths="mixed", avail="default", pf="mixed")]


@harness("C15", bounds="simple cycle input: nCycles 1..3, burnSteps 0..3 (0 only with one cycle), cycle length(s) in "
                       "[1,1e4] d, availability and power fraction(s) in [0,1], all symbolic; scalar / list / "
                       "repeat-marker forms enumerated", stubs=STUBS,
         instances={"quick": SIMPLE_VARIANTS,
                    "thorough": [dict(lengths=a, avail=b, pf=c, maxN=4, maxB=5)
                                 for a in ("scalar", "list", "repeat", "mixed")
                                 for b in ("default", "scalar", "list", "mixed")
                                 for c in ("default", "list", "repeat")]})
def simple_history_expansion(ctx, lengths, avail, pf, maxN=3, maxB=3):
    n = int(ctx.int("nCycles", 1, maxN))
    b = pick(ctx.int("burnSteps", 0, maxB), 0, maxB)   # the code sizes lists with it: concretised here
    ctx.assume(b >= 1 or n == 1)
    cs = mk_cs(nCycles=n, burnSteps=b)
    L = _expand(ctx, lengths, "L", n, 1.0, 1e4, "cycleLength", "cycleLengths", cs, SIMPLE_DEFAULTS["cycleLength"])
    A = _expand(ctx, avail, "a", n, 0.0, 1.0, "availabilityFactor", "availabilityFactors", cs, 1.0)
    P = _expand(ctx, pf, "p", n, 0.0, 1.0, None, "powerFractions", cs, 1.0)

    gotL = U.getCycleLengths(cs)
    gotA = U.getAvailabilityFactors(cs)
    gotB = U.getBurnSteps(cs)
    gotS = U.getStepLengths(cs)
    gotP = U.getPowerFractions(cs)
    ctx.check("one cycle length per cycle", len(gotL) == n)
    ctx.check("one availability factor per cycle", len(gotA) == n)
    ctx.check("one burn-step count per cycle", len(gotB) == n)
    ctx.check("one step list per cycle", len(gotS) == n)
    ctx.check("one power-fraction list per cycle", len(gotP) == n)
    ctx.check("cycle names: none given", U.getCycleNames(cs) == [None] * n)
    ctx.check_eq("max burn steps", U.getMaxBurnSteps(cs), b)
    ctx.check_eq("hasBurnup iff there is a step", U.hasBurnup(cs), b > 0)
    nodes = U.getNodesPerCycle(cs)
    for i in range(min(n, len(gotS), len(gotB), len(gotL), len(gotA), len(gotP))):
        ctx.check_close("cycle %d length" % i, gotL[i], L[i], scale=L[i])
        ctx.check_close("cycle %d availability" % i, gotA[i], A[i], scale=1.0)
        ctx.check_eq("cycle %d burn steps" % i, gotB[i], b)
        ctx.check_eq("cycle %d nodes = steps + 1" % i, nodes[i], b + 1)
        ctx.check_eq("cycle %d: one step length per step" % i, len(gotS[i]), b)
        ctx.check_eq("cycle %d: one power fraction per step" % i, len(gotP[i]), b)
        tot = sum(gotS[i])
        want = A[i] * L[i]
        if ctx.canary:
            want = want * ITE(AND(b == 2, n == 3), 1.01, 1.0) if i == 1 else want
        if len(gotS[i]) > 0:
            ctx.check_close("cycle %d: step lengths sum to availability x cycle length" % i, tot, want,
                            scale=L[i])
        for k, s in enumerate(gotS[i]):
            ctx.check_close("cycle %d step %d: equal share" % (i, k), s * b, A[i] * L[i], scale=L[i])
        for k, p in enumerate(gotP[i]):
            ctx.check_close("cycle %d step %d: power fraction of the cycle" % (i, k), p, P[i], scale=1.0)


# ---------------------------------------------------------------------------------------------------------------
# detailed input

def _detailed_cycle(ctx, i, form, maxM):
    """Build one entry of cs['cycles'] in the given form; returns (entry, expected dict)."""
    entry = {}
    exp = dict(name=None, avail=1, pf=None, steps=None, length=None, last=None)
    flags = form[1:]
    form = form[0]
    if "a" in flags:
        a = ctx.real("a%d" % i, 0.01, 1.0)
        entry["availability factor"] = a
        exp["avail"] = a
    if "n" in flags:
        entry["name"] = "cyc%d" % i
        exp["name"] = "cyc%d" % i
    if form == "B":
        m = pick(ctx.int("m%d" % i, 1, maxM), 1, maxM)
        L = ctx.real("L%d" % i, 1.0, 1e4)
        entry["burn steps"] = m
        entry["cycle length"] = L
        exp["m"] = m
        exp["length"] = L
        mc = None
    else:
        mc = int(ctx.int("m%d" % i, 0, maxM))
        exp["m"] = mc
        # (all maxM values are declared on every path so that the input vector has a fixed shape; the first m count)
        if form == "S":
            d = [ctx.real("d%d_%d" % (i, k), 1e-2, 1e3) for k in range(maxM)][:mc]
            entry["step days"] = list(d)
            exp["steps"] = d
        elif form == "R":   # step days with a repeat marker: [d0, '<m-1>R']
            d0 = ctx.real("d%d_0" % i, 1e-2, 1e3)
            if mc == 0:
                entry["step days"] = []
                exp["steps"] = []
            else:
                entry["step days"] = [d0] if mc == 1 else [d0, "%dR" % (mc - 1)]
                exp["steps"] = [d0] * mc
        elif form == "C":
            # increasing cumulative days, built from positive increments (first value may be any day >= 0)
            inc = [ctx.real("c%d_%d" % (i, k), 0.0 if k == 0 else 1e-2, 1e3) for k in range(maxM)]
            c, prev = [], 0.0
            for x in inc[:mc]:
                prev = prev + x
                c.append(prev)
            entry["cumulative days"] = list(c)
            exp["steps"] = [c[k] - (c[k - 1] if k else 0.0) for k in range(mc)]
            exp["last"] = c[-1] if c else None
        else:
            raise KeyError(form)
    if "p" in flags:
        if mc is None:
            mc = exp["m"]
        pf = [ctx.real("p%d_%d" % (i, k), 0.0, 1.0) for k in range(maxM)][:mc]
        entry["power fractions"] = list(pf)
        exp["pf"] = pf
    return entry, exp


DETAILED_QUICK = [("Sa", "C", "Bap"), ("B", "Bn"), ("Rap", "Sp", "Can"), ("Cp",), ("Bp", "R", "S")]
DETAILED_THOROUGH = DETAILED_QUICK + [("S", "S", "S", "S"), ("Ba", "Ca", "Sa", "Ra"), ("Cap", "Bap"), ("Rp", "Cp", "Bp")]


@harness("C15", bounds="detailed `cycles` input, 1..3 cycles; per cycle one of: step days (0..3 symbolic lengths in "
                       "[0.01,1e3]), step days with repeat marker, cumulative days (0..3 increasing values, "
                       "increments in [0.01,1e3]), burn steps (1..3) + cycle length [1,1e4]; availability in [0.01,1] and power "
                       "fractions in [0,1] present or absent as enumerated", stubs=STUBS,
         instances={"quick": [dict(forms=f) for f in DETAILED_QUICK],
                    "thorough": [dict(forms=f, maxM=5) for f in DETAILED_THOROUGH]})
def detailed_history_expansion(ctx, forms, maxM=3):
    n = len(forms)
    entries, exps = [], []
    for i, form in enumerate(forms):
        e, x = _detailed_cycle(ctx, i, form, maxM)
        entries.append(e)
        exps.append(x)
    cs = mk_cs(nCycles=n, cycles=entries, burnSteps=None, cycleLength=None, availabilityFactor=None)
    gotL = U.getCycleLengths(cs)
    gotA = U.getAvailabilityFactors(cs)
    gotB = U.getBurnSteps(cs)
    gotS = U.getStepLengths(cs)
    gotP = U.getPowerFractions(cs)
    names = U.getCycleNames(cs)
    nodes = U.getNodesPerCycle(cs)
    for what, lst in (("cycle lengths", gotL), ("availability factors", gotA), ("burn steps", gotB),
                      ("step lists", gotS), ("power-fraction lists", gotP), ("names", names), ("nodes", nodes)):
        ctx.check("%s: one entry per cycle" % what, len(lst) == n)
    tot_steps = 0
    for i, x in enumerate(exps):
        m = x["m"]
        ctx.check_eq("cycle %d burn steps" % i, gotB[i], m)
        ctx.check_eq("cycle %d nodes = steps + 1" % i, nodes[i], m + 1)
        ctx.check_eq("cycle %d: one step length per step" % i, len(gotS[i]), m)
        ctx.check_eq("cycle %d: one power fraction per step" % i, len(gotP[i]), m)
        ctx.check("cycle %d name" % i, names[i] == x["name"])
        ctx.check_close("cycle %d availability" % i, gotA[i], x["avail"], scale=1.0)
        tot = sum(gotS[i])
        scale = tot + gotL[i] + 1e-30
        want = gotA[i] * gotL[i]
        if ctx.canary and i == n - 1:
            want = want * ITE(x["m"] == 2, 1.01, 1.0)
        ctx.check_close("cycle %d: step lengths sum to availability x cycle length" % i, tot, want, scale=scale)
        if x["length"] is not None:
            ctx.check_close("cycle %d: cycle length as given" % i, gotL[i], x["length"], scale=x["length"])
            for k, s in enumerate(gotS[i]):
                ctx.check_close("cycle %d step %d: equal share of the at-power time" % (i, k), s * m,
                                x["avail"] * x["length"], scale=x["length"])
        if x["steps"] is not None:
            for k, s in enumerate(gotS[i]):
                ctx.check_close("cycle %d step %d: length as given" % (i, k), s, x["steps"][k],
                                scale=abs(x["steps"][k]) + 1.0)
        if x["last"] is not None:
            ctx.check_close("cycle %d: steps sum to the last cumulative day" % i, tot, x["last"], scale=x["last"] + 1.0)
        for k, p in enumerate(gotP[i]):
            ctx.check_close("cycle %d step %d: power fraction" % (i, k), p, 1.0 if x["pf"] is None else x["pf"][k],
                            scale=1.0)
        tot_steps = tot_steps + m
    ctx.check_eq("max burn steps", U.getMaxBurnSteps(cs), _max([x["m"] for x in exps]))
    ctx.check_eq("hasBurnup iff there is a step", U.hasBurnup(cs), tot_steps > 0)


def _max(xs):
    r = xs[0]
    for x in xs[1:]:
        r = ITE(x > r, x, r)
    return r


# ---------------------------------------------------------------------------------------------------------------
# numbering maps

def _layout(ctx, kind, n, maxM):
    """Concrete-structure cycle layout with symbolic (then concretised) burn steps; returns (cs, [m_i])."""
    if kind == "simple":
        nn = int(ctx.int("nCycles", 1, n))
        b = int(ctx.int("burnSteps", 0, maxM))
        ctx.assume(b >= 1 or nn == 1)
        return mk_cs(nCycles=nn, burnSteps=b, cycleLength=100.0), [b] * nn
    ms = [int(ctx.int("m%d" % i, 0, maxM)) for i in range(n)]
    if kind == "steps":
        cycles = [{"step days": [1.0 + k for k in range(m)]} for m in ms]
    elif kind == "mixed":
        cycles = []
        for i, m in enumerate(ms):
            if m >= 1 and i % 2 == 0:
                cycles.append({"burn steps": m, "cycle length": 30.0 * m})
            else:
                cycles.append({"cumulative days": [3.0 * (k + 1) for k in range(m)]})
    else:
        raise KeyError(kind)
    return mk_cs(nCycles=n, cycles=cycles, burnSteps=None), ms


def _nth(lst, idx, comp):
    """comp-th component of lst[idx] for a possibly symbolic idx (no fork)."""
    r = lst[-1][comp]
    for i in reversed(range(len(lst) - 1)):
        r = ITE(idx == i, lst[i][comp], r)
    return r


def _index_of(lst, c, k):
    """position of (c,k) in lst (possibly symbolic c,k), -1 if absent (no fork)."""
    r = -1
    for i in reversed(range(len(lst))):
        r = ITE(AND(c == lst[i][0], k == lst[i][1]), i, r)
    return r


LAYOUTS_QUICK = [dict(kind="simple", n=3, maxM=3), dict(kind="steps", n=1, maxM=3), dict(kind="steps", n=2, maxM=3),
                 dict(kind="steps", n=3, maxM=2), dict(kind="mixed", n=3, maxM=2)]
LAYOUTS_THOROUGH = [dict(kind="simple", n=5, maxM=6), dict(kind="steps", n=2, maxM=6), dict(kind="steps", n=3, maxM=4),
                    dict(kind="steps", n=4, maxM=3), dict(kind="mixed", n=4, maxM=3)]
NUM_BOUNDS = ("cycle layouts: simple input (nCycles 1..3, burnSteps 0..3) and detailed input (1..3 cycles with 0..3 "
              "steps each, step-days / cumulative-days / burn-steps forms); ")


@harness("C15", bounds=NUM_BOUNDS + "every cumulative node number N of the layout (symbolic)", stubs=STUBS,
         instances={"quick": LAYOUTS_QUICK, "thorough": LAYOUTS_THOROUGH})
def cumulative_node_numbers_enumerate_run_order(ctx, kind, n, maxM):
    cs, ms = _layout(ctx, kind, n, maxM)
    order = [(i, j) for i in range(len(ms)) for j in range(ms[i] + 1)]   # the order a run visits the nodes
    N = ctx.int("N", 0, n * (maxM + 1) - 1)
    ctx.assume(N <= len(order) - 1)
    c, k = U.getCycleNodeFromCumulativeNode(N, cs)
    wc, wk = _nth(order, N, 0), _nth(order, N, 1)
    if ctx.canary:
        wk = wk + ITE(AND(N == len(order) - 2, len(order) >= 4), 1, 0)
    ctx.check("node number N is the N-th node visited", AND(c == wc, k == wk))
    ctx.check_eq("numbering the N-th node gives N back", U.getCumulativeNodeNum(c, k, cs), N)
    if bool(N >= 1):
        pc_, pk_ = U.getPreviousTimeNode(c, k, cs)
        ctx.check("previous time node is the (N-1)-th node visited",
                  AND(pc_ == _nth(order, N - 1, 0), pk_ == _nth(order, N - 1, 1)))
        c0, k0 = U.getCycleNodeFromCumulativeNode(N - 1, cs)
        ctx.check("previous time node agrees with node number N-1", AND(pc_ == c0, pk_ == k0))
    else:
        ctx.check("the first node is (0,0)", AND(c == 0, k == 0))
        try:
            U.getPreviousTimeNode(c, k, cs)
            refused = False
        except ValueError:
            refused = True
        ctx.check("there is no node before the first one", refused)
    try:
        U.getCycleNodeFromCumulativeNode(-1 - N, cs)
        refused = False
    except ValueError:
        refused = True
    ctx.check("negative node numbers are refused", refused)


@harness("C15", bounds=NUM_BOUNDS + "every valid (cycle, node) pair (symbolic)", stubs=STUBS,
         instances={"quick": LAYOUTS_QUICK, "thorough": LAYOUTS_THOROUGH})
def cycle_node_to_cumulative_and_back(ctx, kind, n, maxM):
    cs, ms = _layout(ctx, kind, n, maxM)
    order = [(i, j) for i in range(len(ms)) for j in range(ms[i] + 1)]
    c = ctx.int("c", 0, n - 1)
    k = ctx.int("k", 0, maxM)
    ctx.assume(_index_of(order, c, k) >= 0)
    N = U.getCumulativeNodeNum(c, k, cs)
    want = _index_of(order, c, k)
    if ctx.canary:
        want = want + ITE(AND(c == len(ms) - 1, k == 1), 1, 0)
    ctx.check_eq("cumulative number = position in run order", N, want)
    c2, k2 = U.getCycleNodeFromCumulativeNode(N, cs)
    ctx.check("(cycle,node) -> cumulative -> (cycle,node) is the identity", AND(c2 == c, k2 == k))
    # strictly increasing along the run: successor of (c,k) gets N+1
    if bool(_index_of(order, c, k) < len(order) - 1):
        sc, sk = _nth(order, want + 1, 0), _nth(order, want + 1, 1)
        sc, sk = int(sc), int(sk)
        ctx.check_eq("the next node visited gets the next number", U.getCumulativeNodeNum(sc, sk, cs), N + 1)
        pc_, pk_ = U.getPreviousTimeNode(sc, sk, cs)
        ctx.check("previous(next(c,k)) == (c,k)", AND(pc_ == c, pk_ == k))


@harness("C15", bounds=NUM_BOUNDS + "every cumulative step number s >= 1 of the layout (symbolic)", stubs=STUBS,
         instances={"quick": LAYOUTS_QUICK, "thorough": LAYOUTS_THOROUGH})
def cumulative_step_numbers_enumerate_steps(ctx, kind, n, maxM):
    cs, ms = _layout(ctx, kind, n, maxM)
    steps = [(i, j) for i in range(len(ms)) for j in range(ms[i])]   # (cycle, node at the start of the step)
    s = ctx.int("s", 1, n * maxM)
    ctx.assume(s <= len(steps))
    c, k = U.getCycleNodeFromCumulativeStep(s, cs)
    wc, wk = _nth(steps, s - 1, 0), _nth(steps, s - 1, 1)
    if ctx.canary:
        wc = wc + ITE(AND(s == len(steps), len(steps) >= 3), 1, 0)
    ctx.check("step s starts at the s-th stepping node of the run", AND(c == wc, k == wk))
    # a cycle with m steps has m+1 nodes: s-1 steps and c complete cycles lie before the node that starts step s
    ctx.check_eq("cumulative node of the start of step s = (s-1) + cycle", U.getCumulativeNodeNum(c, k, cs), s - 1 + c)
    c2, k2 = U.getCycleNodeFromCumulativeNode(s - 1 + c, cs)
    ctx.check("node and step numbering agree", AND(c2 == c, k2 == k))
    try:
        U.getCycleNodeFromCumulativeStep(1 - s, cs)
        refused = False
    except ValueError:
        refused = True
    ctx.check("step numbers below 1 are refused", refused)
