"""C09: whole-file round trips of the remaining CCCC formats (RZFLUX, FIXSRC, LABELS, DIF3D, NHFLUX/NAFLUX and the
VARIANT flavours, DLAYXS, COMPXS, PMATRX, ISOTXS/GAMISO).  Same pattern as C09_formats.py: the header integers
(dimension counts, block counts, optional-record flags, scatter band widths and in-group positions, sub-blocking
factors) are symbolic inputs and every feasible combination inside the bounds is enumerated by the solver; the file is
written by the REAL Stream class into memory and read back by the same class.  Array contents are concrete, pairwise
different numbers (struct.pack is a C boundary).

Obligations, all taken from the property text:
  * the writer accepts a well-formed container and the reader accepts what the writer produced (no BufferError: every
    record is framed consistently), and consumes the whole file;
  * every record the header announces reads back equal (float32 fields to 1e-6 relative, doubles exactly) and the
    header integers read back;
  * writing what was read reproduces the file byte for byte;
  * every binary file is a sequence of records framed by two equal byte counts (independent walk over the bytes).
Because reader and writer of a record are one and the same rw-routine, a round trip cannot see the ORDER in which a
record lists its numbers; where the module documentation (or the CCCC-IV text it quotes) states that order, the bytes
of one record are compared with it as well (ISOTXS/GAMISO scatter sub-blocks and record offsets LOCA, NHFLUX flux and
current records, COMPXS scatter segments, RZFLUX flux blocks), and the number and length of the records is compared
with what the header integers announce (NHFLUX, LABELS, DIF3D, RZFLUX).
The scipy.sparse constructors the ISOTXS and COMPXS readers call are wrapped by a validity check of the index arrays:
scipy does not check them, and a reader that computes a column index outside the matrix would otherwise corrupt the
heap and kill the worker process (which the check script reports as an aborted path, not as a violation).

Candidate genuine defects met on the unchanged tree are guarded by module-level flags KNOWN_DEFECT_* (search for them:
fixsrc_reader_never_allocates, gamiso_label_becomes_isotxs, isotxs_subblocked_scatter_unreadable,
pmatrx_activation_xs_records, pmatrx_order3_production_unreadable, dlayxs_ascii_unreadable, compxs_file_wide_chi,
compxs_delayed_families, compxs_d2Multiplier_not_stored); each has its explanation next to it.
"""
import io
import re
import struct

import numpy as np
from scipy import sparse
from scipy.sparse import csc_matrix

from symx.engine import harness

from armi.nucDirectory import nuclideBases
from armi.nuclearDataIO import xsLibraries, xsNuclides
from armi.nuclearDataIO.cccc import cccc, compxs, dif3d, dlayxs, fixsrc, gamiso, isotxs, labels, nhflux, pmatrx, rzflux

from symx import shims

STUBS = ["file on disk -> io.BytesIO / io.StringIO handed to the real Stream object (open() is not called)",
         "header integers are symbolic and are concretised by forking where they reach struct.pack / range(); array "
         "contents are concrete, pairwise different numbers",
         "isotxs.sparse / compxs._CompxsScatterMatrix -> the same scipy constructors behind a check of the (data, "
         "indices, indptr) triple: scipy does not validate it and a column/row index outside the matrix corrupts the "
         "heap of the worker process (C boundary); the check turns it into a ValueError of the reader"]


def _checked_triple(arg, shape, minor):
    """raise ValueError unless (data, indices, indptr) describes a matrix of this shape"""
    if isinstance(arg, tuple) and len(arg) == 3 and shape is not None:
        data, indices, indptr = (np.asarray(x) for x in arg)
        n = shape[minor]
        if len(indices) and (indices.min() < 0 or indices.max() >= n):
            raise ValueError("sparse matrix index outside the matrix: indices %s for %d groups" % (indices.tolist(), n))
        if len(indptr) != shape[1 - minor] + 1 or len(data) != len(indices) or (len(indptr) and indptr[-1] != len(data)) \
                or np.any(np.diff(indptr) < 0):
            raise ValueError("sparse matrix index pointers %s do not fit %d values and shape %s"
                             % (indptr.tolist(), len(data), shape))


class _CheckedSparse:
    """scipy.sparse with a csr_matrix constructor that validates its input"""

    def __getattr__(self, name):
        return getattr(sparse, name)

    @staticmethod
    def csr_matrix(arg, shape=None, **kw):
        _checked_triple(arg, shape, 1)
        return sparse.csr_matrix(arg, shape=shape, **kw)


_RealCompxsScatterMatrix = compxs._CompxsScatterMatrix


class _CheckedCompxsScatterMatrix(_RealCompxsScatterMatrix):
    def makeSparse(self, *args, **kw):
        _checked_triple((self.data, self.indices, self.indptr), self.shape, 0)
        return _RealCompxsScatterMatrix.makeSparse(self, *args, **kw)


shims.patch(isotxs, sparse=_CheckedSparse())
shims.patch(compxs, _CompxsScatterMatrix=_CheckedCompxsScatterMatrix)

# ---------------------------------------------------------------------------------------------------------------------
# Candidate genuine defects found by the harnesses below.  While a flag is True the failing inputs are kept out of the
# way (see the comment at each use) so that the check is green; with the flag False the obligation is live and fails on
# the unchanged tree.

# fixsrc.readBinary() hands the reader a (0,0,0,0) array and FIXSRC.readWrite never re-allocates it after the 1D record
# has been read: reading ANY non-empty FIXSRC file raises IndexError.  With the flag True the harness pre-allocates the
# array with the shape the writer used (what a caller has to do by hand today) so that framing, record order and the
# data are still checked.
KNOWN_DEFECT_fixsrc_reader_never_allocates = False  # repaired in /repo (fix: da32f0b)


# ---------------------------------------------------------------------------------------------------------------------
# helpers


def _mem(mode, raw=None):
    binary = "b" in mode
    if raw is not None:
        return io.BytesIO(raw) if binary else io.StringIO(raw)
    return io.BytesIO() if binary else io.StringIO()


def _mode(write, binary):
    return ("w" if write else "r") + ("b" if binary else "")


def _run_container(streamCls, data, mode, raw=None):
    """what StreamWithDataContainer._readWrite does, minus open()"""
    s = streamCls(data, "<memory>", mode)
    s._stream = _mem(mode, raw)
    s.readWrite()
    return s._stream


def _short(err):
    """exception type and the last line of its text, without memory addresses (for the notes of the evidence)"""
    lines = [ln for ln in str(err).strip().splitlines() if ln.strip()] or [""]
    return "%s: %s" % (type(err).__name__, re.sub(r"0x[0-9a-f]+", "0x..", lines[-1].strip())[:200])


class Cycle:
    """write -> read -> write again.  `write(data, binary)` returns the file contents, `read(raw, binary)` returns
    (container, number of characters consumed)."""

    def __init__(self, ctx, write, read, data, binary):
        self.raw = self.back = self.raw2 = None
        self.binary = binary
        self.left = -1
        self.werr = self.rerr = self.w2err = None
        self._write, self._read = write, read
        try:
            self.raw = write(data, binary)
        except Exception as e:  # noqa: BLE001 (every exception is a refusal of a well-formed container)
            self.werr = e
            return
        try:
            self.back, used = read(self.raw, binary)
            self.left = len(self.raw) - used
        except Exception as e:  # noqa: BLE001
            self.rerr = e
            return
        try:
            self.raw2 = write(self.back, binary)
        except Exception as e:  # noqa: BLE001
            self.w2err = e

    def framing_obligations(self, ctx):
        """the obligations every format shares; False when there is nothing to compare any further"""
        ctx.check("writer accepts the well-formed container", self.werr is None)
        if self.werr is not None:
            ctx.note("writer raised " + _short(self.werr))
            return False
        if self.binary:
            ctx.check("the binary file is a sequence of records, each framed by two equal byte counts equal to its "
                      "payload length", records_of(self.raw) is not None)
        ctx.check("reader accepts what the writer produced", self.rerr is None)
        if self.rerr is not None:
            ctx.note("reader raised " + _short(self.rerr))
            return False
        ctx.check("reader consumes the whole file", self.left == 0)
        ctx.check("writing what was read reproduces the file byte for byte",
                  self.w2err is None and self.raw2 == self.raw)
        if self.w2err is None and self.raw2 != self.raw:
            # (only reached inside a recorded finding) whatever the first pass normalised, a second pass is stable
            try:
                back2, used2 = self._read(self.raw2, self.binary)
                ok = used2 == len(self.raw2) and self._write(back2, self.binary) == self.raw2
            except Exception:  # noqa: BLE001
                ok = False
            ctx.check("the re-written file is itself reproduced byte for byte by a second read and write", ok)
        return True


def same_array(a, b, rtol=1e-6):
    if a is None or b is None:
        return a is None and b is None
    a, b = np.asarray(a), np.asarray(b)
    return a.shape == b.shape and bool(np.allclose(a.astype(float), b.astype(float), rtol=rtol, atol=0))


def same_strings(a, b):
    return [str(x) for x in np.asarray(a).ravel()] == [str(x) for x in np.asarray(b).ravel()]


def same_number(a, b, rtol=1e-6):
    return a is not None and b is not None and abs(float(a) - float(b)) <= rtol * abs(float(a))


def grid(shape, start, dtype=float):
    """pairwise different numbers start, start+1, ... in an array of the given shape"""
    n = int(np.prod(shape)) if len(shape) else 1
    return (np.arange(n, dtype=dtype) + start).reshape(shape)


def header_ok(written, back, keys, rtol=1e-6):
    """ints exactly, reals to float32 precision"""
    for k in keys:
        w, r = written[k], back[k]
        if isinstance(w, (int, np.integer)) and not isinstance(w, bool):
            if r != w:
                return False
        elif not same_number(w, r, rtol):
            return False
    return True


# ---------------------------------------------------------------------------------------------------------------------
# RZFLUX


def _rzflux_write(d, binary):
    return _run_container(rzflux.RzfluxStream, d, _mode(True, binary)).getvalue()


def _rzflux_read(raw, binary):
    d = rzflux.RzfluxStream._getDataContainer()
    return d, _run_container(rzflux.RzfluxStream, d, _mode(False, binary), raw).tell()


@harness("C09", bounds="RZFLUX: zones 1..4, groups 1..3, zone sub-blocking NBLOK 1..min(4, zones) (includes "
                       "layouts whose last block is empty, e.g. 4 zones in 3 blocks), all combinations; binary and ASCII",
         stubs=STUBS, max_paths=2000, instances={"quick": [dict(binary=True), dict(binary=False)]})
def rzflux_roundtrip_for_every_header(ctx, binary):
    nz = int(ctx.int("NZONE", 1, 4))
    ng = int(ctx.int("NGROUP", 1, 3))
    nb = int(ctx.int("NBLOK", 1, 4))
    # more blocks than zones is kept out: the band formula then yields a negative zone count for the trailing blocks
    # (the CCCC text does not say whether such a file is legal; armi raises ValueError from np.empty when writing it)
    ctx.assume(nb <= nz)
    d = rzflux.RzfluxData()
    md = d.metadata
    md["label"] = "RZFLUX verif"
    for i, k in enumerate(rzflux.FILE_SPEC_1D_KEYS):
        md[k] = (100 + i) if k[0] in cccc.IMPLICIT_INT else 1.5 + i          # distinct, float32-exact
    md["NZONE"], md["NGROUP"], md["NBLOK"], md["ITPS"], md["NCY"] = nz, ng, nb, 2, 7
    written = dict(md.items())
    d.groupFluxes = grid((ng, nz), 0.5, np.float32)
    want = d.groupFluxes.copy()
    c = Cycle(ctx, _rzflux_write, _rzflux_read, d, binary)
    if not c.framing_obligations(ctx):
        return
    if binary:
        # CCCC-IV: one flux record per block, ((ZGF(K,J),K=1,NGROUP),J=JL,JU), the blocks together hold every zone once
        recs = records_of(c.raw)
        ctx.check("the file holds one flux record per block, together NZONE*NGROUP values",
                  recs is not None and len(recs) == 2 + nb and sum(len(r) for r in recs[2:]) == 4 * nz * ng)
        if recs is not None and len(recs) == 2 + nb:
            ju = min(nz, (nz - 1) // nb + 1)           # JU of block M=1: MIN0(NZONE, (NZONE-1)/NBLOK+1)
            expect = [float(want[k, j]) for j in range(ju) for k in range(ng)]
            ctx.check("the first flux record lists the first block of zones, the group index running fastest",
                      len(recs[2]) == 4 * len(expect) and list(struct.unpack("%df" % len(expect), recs[2])) == expect)
    ok = same_array(want, c.back.groupFluxes)
    if ctx.canary and nz == 3 and nb == 2 and ng == 2:
        ok = False
    ctx.check("zone fluxes read back for every sub-blocking", ok)
    ctx.check("header reads back", header_ok(written, c.back.metadata, rzflux.FILE_SPEC_1D_KEYS))
    ctx.check("label reads back", c.back.metadata["label"] == "RZFLUX verif")


# ---------------------------------------------------------------------------------------------------------------------
# FIXSRC (armi offers binary only: fixsrc.readBinary / fixsrc.writeBinary)


def _fixsrc_write(arr, binary):
    s = fixsrc.FIXSRC("<memory>", _mode(True, binary), arr)
    s._stream = _mem(s._fileMode)
    s.readWrite()
    return s._stream.getvalue()


def _fixsrc_read_into(shape, seen):
    def read(raw, binary):
        # fixsrc.readBinary: FIXSRC(fileName, "rb", np.zeros((0, 0, 0, 0)))
        s = fixsrc.FIXSRC("<memory>", _mode(False, binary), np.zeros(shape))
        s._stream = _mem(s._fileMode, raw)
        s.readWrite()
        seen.update(s.fc, label=s.label, fileId=s.fileId)
        return s.fixSrc, s._stream.tell()

    return read


@harness("C09", bounds="FIXSRC: mesh 1..3 x 1..3 x 1..2, groups 1..3, all combinations (binary; armi has no ASCII "
                       "entry point for this format)", stubs=STUBS, max_paths=2000)
def fixsrc_roundtrip_for_every_header(ctx):
    ni, nj, nk = int(ctx.int("NINTI", 1, 3)), int(ctx.int("NINTJ", 1, 3)), int(ctx.int("NINTK", 1, 2))
    ng = int(ctx.int("NGROUP", 1, 3))
    src = grid((ni, nj, nk, ng), 0.25)
    want = src.copy()
    # readBinary() starts from an empty array; see KNOWN_DEFECT_fixsrc_reader_never_allocates
    shape = src.shape if KNOWN_DEFECT_fixsrc_reader_never_allocates else (0, 0, 0, 0)
    seen = {}
    c = Cycle(ctx, _fixsrc_write, _fixsrc_read_into(shape, seen), src, True)
    if not c.framing_obligations(ctx):
        return
    ctx.check("file control integers read back",
              [seen.get(k) for k in ("ngroup", "ninti", "nintj", "nintk", "ndim", "nblok")] == [ng, ni, nj, nk, 3, 1]
              and seen.get("label") == "FIXSRC" and seen.get("fileId") == 1)
    ok = same_array(want, c.back, rtol=0.0)
    if ctx.canary and ni == 2 and nj == 3 and ng == 2:
        ok = False
    ctx.check("fixed source reads back (doubles exactly)", ok)


# ---------------------------------------------------------------------------------------------------------------------
# LABELS

_NAMES = ["A", "BB", "CCC", "DDDD", "EEEEE", "FFFFFF", "GGGGGGG", "HHHHHHHH", "I1", "J22", "K333", "L4444", "M55555",
          "N6", "O7", "P8", "Q9", "R10", "S11", "T12"]


def _labels_write(d, binary):
    return _run_container(labels.LabelsStream, d, _mode(True, binary)).getvalue()


def _labels_read(raw, binary):
    d = labels.LabelsStream._getDataContainer()
    return d, _run_container(labels.LabelsStream, d, _mode(False, binary), raw).tell()


@harness("C09", bounds="LABELS: zones 1..2, regions 1..2, areas 0..1, region/area assignments 0..2 (thorough: "
                       "areas 0..2, assignments 0..3), half heights 0..2 in direction 1 and 0..1 in direction 2 (thorough "
                       "0..2), nuclide sets 0..2, zone "
                       "aliases 0..1 (thorough 0..2): all combinations; the "
                       "records are filled exactly as the file-structure table of the module says (transverse "
                       "distances iff NHTS1>0 or NHTS2>0, nuclide set labels iff NSETS>1, aliases iff NALIAS>0); "
                       "control-rod and burnup records are not implemented by armi (counts 0)",
         stubs=STUBS, max_paths=20000,
         instances={"quick": [dict(binary=True, wide=0), dict(binary=False, wide=0)],
                    "thorough": [dict(binary=True, wide=1), dict(binary=False, wide=1)]})
def labels_roundtrip_for_every_header(ctx, binary, wide):
    nzone, nreg = int(ctx.int("NTZSZ", 1, 2)), int(ctx.int("NREG", 1, 2))
    narea, nras = int(ctx.int("NAREA", 0, 1 + wide)), int(ctx.int("NRAS", 0, 2 + wide))
    nh1, nh2 = int(ctx.int("NHTS1", 0, 2)), int(ctx.int("NHTS2", 0, 1 + wide))
    nsets, nalias = int(ctx.int("NSETS", 0, 2)), int(ctx.int("NALIAS", 0, 1 + wide))
    d = labels.LabelsData()
    md = d.metadata
    md["hname"], md["huse"], md["huse2"], md["version"] = "LABELS", "verif", "u2", 1
    for i, k in enumerate(labels.FILE_SPEC_1D_KEYS):
        md[k] = 0
    md["numZones"], md["numRegions"], md["numAreas"], md["numRegionAreaAssignments"] = nzone, nreg, narea, nras
    md["numHalfHeightsDirection1"], md["numHalfHeightsDirection2"] = nh1, nh2
    md["numNuclideSets"], md["numZoneAliases"] = nsets, nalias
    md["numTrianglesPerHex"], md["numHexagonalRings"], md["modelDimensions"] = 6, 9, 3
    md["dummy"] = [41, 42]
    written = dict(md.items())
    names = iter(_NAMES)
    d.zoneLabels = [next(names) for _ in range(nzone)]
    d.regionLabels = [next(names) for _ in range(nreg)]
    d.areaLabels = [next(names) for _ in range(narea)]
    d.regionAreaAssignments = [next(names) for _ in range(nras)]
    if nh1 > 0 or nh2 > 0:
        d.halfHeightsDirection1, d.extrapolationDistance1 = list(grid((nh1,), 1.5)), list(grid((nh1,), 11.5))
        d.halfHeightsDirection2, d.extrapolationDistance2 = list(grid((nh2,), 21.5)), list(grid((nh2,), 31.5))
    if nsets > 1:
        d.nuclideSetLabels = [next(names) for _ in range(nsets)]
    if nalias > 0:
        d.aliasZoneLabels = [next(names) for _ in range(nalias)]
    strs = ("zoneLabels", "regionLabels", "areaLabels", "regionAreaAssignments", "nuclideSetLabels", "aliasZoneLabels")
    nums = ("halfHeightsDirection1", "extrapolationDistance1", "halfHeightsDirection2", "extrapolationDistance2")
    want = {n: list(getattr(d, n)) for n in strs + nums}
    c = Cycle(ctx, _labels_write, _labels_read, d, binary)
    if not c.framing_obligations(ctx):
        return
    if binary:
        # file identification, specifications, label record; then each optional record iff its count announces it; the
        # label record holds NTZSZ + NREG + NAREA + NRAS labels of 8 characters
        recs = records_of(c.raw)
        nrec = 3 + (1 if (nh1 > 0 or nh2 > 0) else 0) + (1 if nsets > 1 else 0) + (1 if nalias > 0 else 0)
        ctx.check("the file holds exactly the records its header announces, the label record as long as the counts "
                  "say", recs is not None and len(recs) == nrec and len(recs[2]) == 8 * (nzone + nreg + narea + nras))
    for n in strs:
        ok = same_strings(want[n], getattr(c.back, n))
        if ctx.canary and n == "aliasZoneLabels" and nsets == 2 and nh1 == 2 and nh2 == 1:
            ok = False
        ctx.check("labels announced by the header read back: %s" % n, ok)
    for n in nums:
        ctx.check("transverse distances announced by the header read back: %s" % n,
                  same_array(np.array(want[n], dtype=float), np.array(getattr(c.back, n), dtype=float)))
    ctx.check("header integers read back", all(c.back.metadata[k] == written[k] for k in labels.FILE_SPEC_1D_KEYS))
    ctx.check("file identification reads back",
              all(c.back.metadata[k] == written[k] for k in ("hname", "huse", "huse2", "version"))
              and list(c.back.metadata["dummy"]) == [41, 42])


# ---------------------------------------------------------------------------------------------------------------------
# DIF3D


_WORDS = ["CCC", "", "ABCDEFGH", "c\u0153ur", "n\u00b012\u00b5m", "\u2192\u20ac\u00e9"]
assert all(len(w.encode("utf-8")) <= 8 for w in _WORDS) and len(_WORDS[-1].encode("utf-8")) == 8


def _dif3d_write(d, binary):
    return _run_container(dif3d.Dif3dStream, d, _mode(True, binary)).getvalue()


def _dif3d_read(raw, binary):
    d = dif3d.Dif3dStream._getDataContainer()
    return d, _run_container(dif3d.Dif3dStream, d, _mode(False, binary), raw).tell()


@harness("C09", bounds="DIF3D control file: number of overrelaxation factors NUMORP 0..3 and of coarse-mesh rebalance "
                       "zones NCMRZS 0..3 (they decide whether the 4D and 5D records exist and how long they are), "
                       "all combinations; one title word chosen symbolically among texts that fit their 8-byte "
                       "field (ASCII shorter than / as wide as the field, empty, 2- and 3-byte UTF-8 characters); "
                       "binary and ASCII", stubs=STUBS, max_paths=500,
         instances={"quick": [dict(binary=True), dict(binary=False)]})
def dif3d_roundtrip_for_every_header(ctx, binary):
    numorp, ncmrzs = int(ctx.int("NUMORP", 0, 3)), int(ctx.int("NCMRZS", 0, 3))
    # one word of the title (fields of 8 bytes): texts that fit the field, ASCII or not (UTF-8 encodings of 2 and 3
    # bytes per character, up to exactly 8 bytes), and the empty word
    word = ctx.choice("titleWord", _WORDS)
    d = dif3d.Dif3dData()
    md = d.metadata
    md["HNAME"], md["HUSE1"], md["HUSE2"], md["VERSION"] = "DIF3D", "verif", "x", 1
    for i in range(dif3d.TITLE_RANGE):
        md["TITLE%d" % i] = _NAMES[i]
    md["TITLE2"] = word
    md["MAXSIZ"], md["MAXBLK"], md["IPRINT"] = 10000, 2000, 3
    written = dict(md.items())
    for i, k in enumerate(dif3d.FILE_SPEC_2D_PARAMS):
        d.twoD[k] = 200 + i
    d.twoD["NUMORP"], d.twoD["NCMRZS"] = numorp, ncmrzs
    for i, k in enumerate(dif3d.FILE_SPEC_3D_PARAMS):
        d.threeD[k] = 0.1 + i / 7.0                      # doubles that are not float32-representable
    if numorp > 0:
        d.fourD = {"OMEGA%d" % e: 1.0 + e / 3.0 for e in range(1, numorp + 1)}
    if ncmrzs > 0:
        d.fiveD = {"ZCMRC%d" % e: 10.0 + e / 3.0 for e in range(1, ncmrzs + 1)}
        d.fiveD.update({"NZINTS%d" % e: 30 + e for e in range(1, ncmrzs + 1)})
    want2, want3 = dict(d.twoD), dict(d.threeD)
    want4, want5 = (dict(d.fourD) if d.fourD else None), (dict(d.fiveD) if d.fiveD else None)
    c = Cycle(ctx, _dif3d_write, _dif3d_read, d, binary)
    if not c.framing_obligations(ctx):
        return
    if binary:
        # file identification, title, integer and real control records; the overrelaxation record (NUMORP doubles) iff
        # NUMORP > 0, the rebalance record (NCMRZS doubles and NCMRZS integers) iff NCMRZS > 0
        recs = records_of(c.raw)
        tail = ([8 * numorp] if numorp > 0 else []) + ([12 * ncmrzs] if ncmrzs > 0 else [])
        ctx.check("the file holds exactly the records its control integers announce, each as long as they say",
                  recs is not None and len(recs) == 4 + len(tail) and [len(r) for r in recs[4:]] == tail)
    ctx.check("file identification and title record read back", dict(c.back.metadata.items()) == written)
    ctx.check("integer control parameters read back", c.back.twoD == want2)
    ok = c.back.threeD == want3
    if ctx.canary and numorp == 2 and ncmrzs == 3:
        ok = False
    ctx.check("convergence criteria read back (doubles exactly)", ok)
    ctx.check("overrelaxation factors exist iff NUMORP > 0 and read back", c.back.fourD == want4)
    ctx.check("rebalance boundaries exist iff NCMRZS > 0 and read back", c.back.fiveD == want5)


# ---------------------------------------------------------------------------------------------------------------------
# NHFLUX / NAFLUX, DIF3D-Nodal and DIF3D-VARIANT layouts


def _nhflux_io(cls):
    def write(d, binary):
        return _run_container(cls, d, _mode(True, binary)).getvalue()

    def read(raw, binary):
        d = cls._getDataContainer()
        return d, _run_container(cls, d, _mode(False, binary), raw).tell()

    return write, read


_NH_ARRAYS = ("incomingPointersToAllAssemblies", "externalCurrentPointers", "geodstCoordMap", "fluxMomentsAll",
              "partialCurrentsHexAll", "partialCurrentsHex_extAll", "partialCurrentsZAll")


@harness("C09", bounds="NHFLUX/NAFLUX, Nodal and VARIANT layouts (4 instances): groups 1..2, axial nodes 1..2, "
                       "assemblies 1..2, surfaces per assembly 1..2, even moments 1..2, NSCOEF 1..2 (both 2 in the quick "
                       "VARIANT instances, whose dimension sweep is shared with the Nodal ones), lateral currents "
                       "on the outer boundary 0..1 (thorough: also Nodal with counts up to 3 and both layouts with "
                       "boundary currents 0..2 of each kind); VARIANT "
                       "also: odd moments NMOMS 0..1, IWNHFL 0..1 (1 = fluxes only, no current records), lateral "
                       "currents on symmetry boundaries NPCSYM 0..1 and on sector boundaries NPCSEC 0..1 (NPCXY is the "
                       "sum of the assembly-surface, outer-boundary, symmetry and sector currents): all combinations",
         stubs=STUBS, max_paths=20000,
         instances={"quick": [dict(adjoint=a, variant=v, lo=(2 if v else 1), hi=2, bhi=1)
                              for v in (False, True) for a in (False, True)],
                    "thorough": [dict(adjoint=a, variant=v, lo=1, hi=2, bhi=1) for v in (False, True) for a in (False, True)]
                    + [dict(adjoint=False, variant=False, lo=1, hi=3, bhi=2),
                       dict(adjoint=True, variant=True, lo=2, hi=2, bhi=2)]})
def nhflux_roundtrip_for_every_header(ctx, adjoint, variant, lo, hi, bhi):
    ng, nz, na = int(ctx.int("NGROUP", 1, 2)), int(ctx.int("NINTK", 1, hi)), int(ctx.int("NINTXY", 1, hi))
    nsurf, nmom, nsc = int(ctx.int("NSURF", 1, hi)), int(ctx.int("NMOM", lo, 2)), int(ctx.int("NSCOEF", lo, 2))
    nbdy = int(ctx.int("NPCBDY", 0, bhi))     # (Nodal: not a header word; NPCXY minus the assembly-surface currents)
    vhi = 1 if variant else 0                 # these header words exist in the VARIANT layout only
    nmoms = int(ctx.int("NMOMS", 0, vhi))
    iwnhfl = int(ctx.int("IWNHFL", 0, vhi))
    nsym = int(ctx.int("NPCSYM", 0, vhi * bhi))
    nsec = int(ctx.int("NPCSEC", 0, vhi * bhi))
    # lateral partial currents that belong to no assembly surface: outer boundary first, then symmetry and sector
    # boundaries (VARIANT); the 4D records and partialCurrentsHex_extAll hold all of them, the pointer lists of the 2D
    # record are per kind
    next_ = nbdy + nsym + nsec
    cls = nhflux.getNhfluxReader(adjoint, variant)
    write, read = _nhflux_io(cls)
    d = nhflux.NHFLUX(variant=variant)
    md = d.metadata
    md["label"] = "NHFLUX verif"
    keys = list(nhflux.FILE_SPEC_1D_KEYS) + (list(nhflux.FILE_SPEC_1D_KEYS_VARIANT11) if variant else [])
    keys += ["IDUM%02d" % e for e in range(1, 7 if variant else 12)]
    for i, k in enumerate(keys):
        md[k] = (300 + i) if k[0].upper() in cccc.IMPLICIT_INT else 2.5 + i
    md["ndim"], md["ngroup"], md["ninti"], md["nintj"], md["nintk"] = 3, ng, 5, 4, nz
    md["nSurf"], md["nMom"], md["nintxy"], md["npcxy"], md["nscoef"] = nsurf, nmom, na, na * nsurf + next_, nsc
    if variant:
        md["npcbdy"], md["npcsym"], md["npcsec"], md["iwnhfl"], md["nMoms"] = nbdy, nsym, nsec, iwnhfl, nmoms
    written = dict(md.items())
    d.incomingPointersToAllAssemblies = grid((nsurf, na), 1, int)
    d.externalCurrentPointers = grid((nbdy,), 50, int)
    d.geodstCoordMap = grid((na,), 60, int)
    names = list(_NH_ARRAYS[:4])
    if variant:
        d.outgoingPCSymSecPointers = grid((nsym + nsec,), 70, int)
        d.ingoingPCSymSecPointers = grid((nsym + nsec,), 80, int)
        names += ["outgoingPCSymSecPointers", "ingoingPCSymSecPointers"]
    d.fluxMomentsAll = grid((na, nz, nmom + nmoms, ng), 0.1)
    if iwnhfl != 1:
        d.partialCurrentsHexAll = grid((na, nz, nsurf, ng, nsc), 1000.1)
        d.partialCurrentsHex_extAll = grid((next_, nz, ng, nsc), 2000.1)
        d.partialCurrentsZAll = grid((na, nz + 1, 2, ng, nsc), 3000.1)
        names += list(_NH_ARRAYS[4:])
    want = {n: np.array(getattr(d, n)) for n in names}
    c = Cycle(ctx, write, read, d, True)
    if not c.framing_obligations(ctx):
        return
    for n in names:
        ok = same_array(want[n], getattr(c.back, n), rtol=0.0)
        if ctx.canary and n == "fluxMomentsAll" and ng == 1 and nz == 1 and na == 1 and nmom == 2 and nsc == 2 and nbdy == 1:
            ok = False
        ctx.check("record data announced by the header reads back: %s" % n, ok)
    ctx.check("header reads back", header_ok(written, c.back.metadata, keys))
    # Reader and writer are one routine, so a round trip cannot see in which order a record lists its numbers; the
    # module's record descriptions can: the first flux record (first group on the file, axial node 1) is
    # ((FLUX(I,J),I=1,NMOM),J=1,NINTXY) [VARIANT: followed by the odd-parity moments in the same arrangement], and an
    # axial-current record "loops through surface FIRST and assemblies SECOND" (NSCOEF values for each).  NHFLUX lists
    # the groups in order, NAFLUX in reversed order.
    recs = records_of(c.raw)
    # file identification, 1D and 2D records; per group NINTK flux records and, unless the file holds fluxes only,
    # NINTK lateral-current and NINTK+1 axial-current records; every lateral-current record holds NPCXY currents and
    # every axial-current record two currents per assembly, NSCOEF doubles each
    nrec = 3 + ng * (nz + (0 if iwnhfl == 1 else 2 * nz + 1))
    ctx.check("the file holds exactly the records its header announces", recs is not None and len(recs) == nrec)
    if recs is not None and len(recs) == nrec:
        perGroup = [recs[3 + g * ((nrec - 3) // ng):3 + (g + 1) * ((nrec - 3) // ng)] for g in range(ng)]
        ok = all(len(r) == 8 * na * (nmom + nmoms) for grp in perGroup for r in grp[:nz])
        if iwnhfl != 1:
            ok = ok and all(len(r) == 8 * (na * nsurf + next_) * nsc for grp in perGroup for r in grp[nz:2 * nz])
            ok = ok and all(len(r) == 8 * 2 * na * nsc for grp in perGroup for r in grp[2 * nz:])
        ctx.check("every flux and current record is as long as the header counts say", ok)
        # 2D record: NSURF*NINTXY + (outer-boundary currents) + NINTXY pointers, VARIANT: + 2*(NPCSYM+NPCSEC)
        ctx.check("the pointer record is as long as the header counts say",
                  len(recs[2]) == 4 * (nsurf * na + nbdy + na + (2 * (nsym + nsec) if variant else 0)))
    gFirst, gLast = (ng - 1, 0) if adjoint else (0, ng - 1)
    flux = want["fluxMomentsAll"]
    expect = [flux[j, 0, i, gFirst] for j in range(na) for i in range(nmom)]
    expect += [flux[j, 0, nmom + i, gFirst] for j in range(na) for i in range(nmoms)]
    ctx.check("first flux-moment record lists the moments of each assembly in turn, as the module describes",
              recs is not None and len(recs) > 3 and len(recs[3]) == 8 * len(expect)
              and list(struct.unpack("%dd" % len(expect), recs[3])) == expect)
    if iwnhfl != 1:
        cur = want["partialCurrentsZAll"]
        expect = [cur[i, nz, j, gLast, m] for j in range(2) for i in range(na) for m in range(nsc)]
        ctx.check("last axial-current record lists all upward, then all downward currents, as the module describes",
                  recs is not None and len(recs[-1]) == 8 * len(expect)
                  and list(struct.unpack("%dd" % len(expect), recs[-1])) == expect)
        hexc, ext = want["partialCurrentsHexAll"], want["partialCurrentsHex_extAll"]
        expect = [hexc[i, nz - 1, j, gLast, m] for i in range(na) for j in range(nsurf) for m in range(nsc)]
        expect += [ext[j, nz - 1, gLast, m] for j in range(next_) for m in range(nsc)]
        k = -(nz + 1) - 1            # the last lateral-current record precedes the nz+1 axial-current records
        ctx.check("last lateral-current record lists the outgoing currents of every assembly surface, then the "
                  "incoming currents of the boundaries, as the module describes",
                  recs is not None and len(recs[k]) == 8 * len(expect)
                  and list(struct.unpack("%dd" % len(expect), recs[k])) == expect)
    # the same bytes read with the class of the other flux type: everything group-dependent comes back group-reversed
    _, readOther = _nhflux_io(nhflux.getNhfluxReader(not adjoint, variant))
    other, _used = readOther(c.raw, True)
    ok = same_array(other.fluxMomentsAll, want["fluxMomentsAll"][..., ::-1], rtol=0.0)
    if iwnhfl != 1:
        ok = ok and same_array(other.partialCurrentsHexAll, want["partialCurrentsHexAll"][:, :, :, ::-1, :], rtol=0.0)
        ok = ok and same_array(other.partialCurrentsZAll, want["partialCurrentsZAll"][:, :, :, ::-1, :], rtol=0.0)
        ok = ok and same_array(other.partialCurrentsHex_extAll, want["partialCurrentsHex_extAll"][:, :, ::-1, :], rtol=0.0)
    ctx.check("adjoint and real files differ exactly by group order", ok)


# =====================================================================================================================
# cross-section library formats: tiny hand-made libraries


def records_of(raw):
    """independent walk over a binary CCCC file: [payload bytes, ...]; None if some record is not framed by two equal
    byte counts or the file does not end with a complete record"""
    out, pos = [], 0
    while pos < len(raw):
        if pos + 4 > len(raw):
            return None
        (n,) = struct.unpack("i", raw[pos:pos + 4])
        if n < 0 or pos + 8 + n > len(raw):
            return None
        (n2,) = struct.unpack("i", raw[pos + 4 + n:pos + 8 + n])
        if n2 != n:
            return None
        out.append(raw[pos + 4:pos + 4 + n])
        pos += 8 + n
    return out


def dense(m):
    return None if m is None else np.asarray(m.toarray() if hasattr(m, "toarray") else m, dtype=float)


# ---------------------------------------------------------------------------------------------------------------------
# ISOTXS / GAMISO

# isotxs._IsotxsIO relabels every library it reads or writes to "ISOTXS" (documented for ISOTXS).  The GAMISO stream
# inherits that: the class attribute _FILE_LABEL = "GAMISO" was put on the nuclide helper (_GamisoNuclideIO), where
# nothing looks at it, instead of on _GamisoIO, so a GAMISO library labelled "GAMISO" comes back labelled "ISOTXS" and is
# re-written with a different first record.  With the flag True the GAMISO harness instances label their library
# "ISOTXS" (the only label that survives); with False they use "GAMISO" and the label / byte-for-byte obligations fail.
KNOWN_DEFECT_gamiso_label_becomes_isotxs = False  # recorded in known_findings.jsonl

# _IsotxsNuclideIO._rw7DRecord can write scatter matrices split into NSBLOK > 1 sub-blocks, but cannot read them: the
# first sub-block is turned into a csr_matrix of shape (ng, ng) from only its own rows (ValueError "index pointer size
# ... should be ..."), and the following sub-blocks would be taken for a write pass because the matrix is no longer
# None.  Every library with subblockingControl >= 2 and >= 2 groups is written but not read back.  With the flag True
# the layout harness keeps NSBLOK == 1.
KNOWN_DEFECT_isotxs_subblocked_scatter_unreadable = False  # repaired in /repo (fix: c21e705)

# which attribute holds the scatter matrix of a block, by the block's type flag IDSCT (constants at the top of
# isotxs.py: 000+NN total, 100+NN elastic, 200+NN inelastic, 300+NN n2n; armi keeps order NN=0 of each and elastic P1 in
# named attributes, everything else under the block index)
_SCAT_ATTR = {0: "totalScatter", 100: "elasticScatter", 200: "inelasticScatter", 300: "n2nScatter",
              101: "elasticScatter1stOrder"}
_SCAT_FLAGS = [100, 200, 300, 0, 101, 102]
_OPTIONAL_XS = ["nalph", "np", "n2n", "nd", "nt"]


def _xs_parts(fmt, lib, nuc=None):
    """(file metadata, nuclide metadata, nuclide cross sections) for the two ISOTXS-like formats"""
    if fmt == "ISOTXS":
        return lib.isotxsMetadata, (nuc.isotxsMetadata if nuc else None), (nuc.micros if nuc else None)
    return lib.gamisoMetadata, (nuc.gamisoMetadata if nuc else None), (nuc.gammaXS if nuc else None)


def _xs_io(fmt):
    cls = isotxs.IsotxsIO if fmt == "ISOTXS" else gamiso._GamisoIO

    def write(lib, binary):
        s = cls("<memory>", lib, _mode(True, binary), lambda key: lib[key])        # = IsotxsIO._write
        s._stream = _mem(s._fileMode)
        s.readWrite()
        return s._stream.getvalue()

    def read(raw, binary):
        lib = xsLibraries.IsotxsLibrary()                                          # = IsotxsIO._read
        s = cls("<memory>", lib, _mode(False, binary), lambda key: xsNuclides.XSNuclide(lib, key))
        s._stream = _mem(s._fileMode, raw)
        s.readWrite()
        return lib, s._stream.tell()

    return write, read


def band_columns(g, band, jj):
    """source groups stored for scattering INTO group g (0-based), in file order.  CCCC-IV: 'J-to-J scatter is the
    IJJ-th entry of the JBAND entries; values are stored in the order J+JUP, ..., J+1, J, J-1, ..., J-JDN with
    JUP = IJJ-1 and JDN = JBAND-IJJ'"""
    jup, jdn = jj - 1, band - jj
    return list(range(g + jup, g - jdn - 1, -1))


def banded_matrix(ng, bands, jjs, base):
    m = np.zeros((ng, ng))
    for g in range(ng):
        for col in band_columns(g, bands[g], jjs[g]):
            m[g, col] = base + 10 * g + col
    return m


def mk_xs_library(fmt, ng, nsblok, fwchi, nuclides):
    """nuclides: list of dicts key, name, fis, chi, opt (dict of 0/1 for _OPTIONAL_XS), ltot, ltrn, strpd,
    blocks = [(IDSCT flag, LORD, [JBAND per group], [IJJ per group]), ...] (same number of blocks in every nuclide)"""
    lib = xsLibraries.IsotxsLibrary()
    fmd, _, _ = _xs_parts(fmt, lib)
    nblk = len(nuclides[0]["blocks"])
    label = "ISOTXS" if (fmt == "ISOTXS" or KNOWN_DEFECT_gamiso_label_becomes_isotxs) else "GAMISO"
    for k, v in dict(label=label, fileId=1, numGroups=ng, maxUpScatterGroups=ng - 1, maxDownScatterGroups=ng - 1,
                     maxScatteringOrder=1, fileWideChiFlag=fwchi, maxScatteringBlocks=nblk,
                     subblockingControl=nsblok, libraryLabel="verif hand-made library",
                     minimumNeutronEnergy=0.5).items():
        fmd[k] = v
    if fwchi == 1:
        fmd["chi"] = grid((ng,), 0.125)
    if fmt == "ISOTXS":
        lib.neutronVelocity = grid((ng,), 1000.5)
        lib.neutronEnergyUpperBounds = grid((ng,), 2000.5)[::-1].copy()
    else:
        fmd["gammaVelocity..NOT"] = list(grid((ng,), 1000.5))
        lib.gammaEnergyUpperBounds = grid((ng,), 2000.5)[::-1].copy()
    for i, spec in enumerate(nuclides):
        nuc = xsNuclides.XSNuclide(lib, spec["key"])
        lib[spec["key"]] = nuc
        _, m, xs = _xs_parts(fmt, lib, nuc)
        m["nuclideId"], m["libName"], m["isoIdent"] = spec["name"], "ENDF7", spec["key"]
        for j, k in enumerate(["amass", "efiss", "ecapt", "temp", "sigPot", "adens"]):
            m[k] = 1.5 + j + 10 * i
        m["classif"], m["chiFlag"], m["fisFlag"] = 2 + i, spec["chi"], spec["fis"]
        for k in _OPTIONAL_XS:
            m[k] = spec["opt"][k]
        m["ltot"], m["ltrn"], m["strpd"] = spec["ltot"], spec["ltrn"], spec["strpd"]
        m["scatFlag"] = np.array([b[0] for b in spec["blocks"]])
        m["ords"] = np.array([b[1] for b in spec["blocks"]])
        m["jband"] = {(g, n): b[2][g] for n, b in enumerate(spec["blocks"]) for g in range(ng)}
        m["jj"] = {(g, n): b[3][g] for n, b in enumerate(spec["blocks"]) for g in range(ng)}
        base = 10000.0 * (i + 1)
        xs.transport, xs.total = grid((ng, spec["ltrn"]), base + 10.5), grid((ng, spec["ltot"]), base + 30.5)
        xs.nGamma = grid((ng,), base + 50.5)
        if spec["fis"]:
            xs.fission, xs.neutronsPerFission = grid((ng,), base + 60.5), grid((ng,), base + 70.5)
        if spec["chi"] == 1:
            xs.chi = grid((ng,), base + 80.5)
        for j, k in enumerate(_OPTIONAL_XS):
            if spec["opt"][k]:
                xs[k] = grid((ng,), base + 100.5 + 10 * j)
        if spec["strpd"] > 0:
            xs.strpd = grid((ng, spec["strpd"]), base + 200.5)
        for n, (flag, lord, bands, jjs) in enumerate(spec["blocks"]):
            if lord > 0:
                mat = sparse.csr_matrix(banded_matrix(ng, bands, jjs, base + 1000.5 * (n + 1)))
                if flag in _SCAT_ATTR:
                    setattr(xs, _SCAT_ATTR[flag], mat)
                else:
                    xs.higherOrderScatter[n] = mat
    return lib


def scatter_of(xs, flag, n):
    return getattr(xs, _SCAT_ATTR[flag]) if flag in _SCAT_ATTR else xs.higherOrderScatter.get(n, None)


def snapshot_xs_library(fmt, lib):
    """plain copies of everything the file is announced to hold"""
    fmd, _, _ = _xs_parts(fmt, lib)
    snap = dict(file={k: (np.array(v) if isinstance(v, (list, np.ndarray)) else v) for k, v in fmd.items()},
                labels=list(lib.nuclideLabels), nuclides=[])
    if fmt == "ISOTXS":
        snap["velocity"], snap["energies"] = np.array(lib.neutronVelocity), np.array(lib.neutronEnergyUpperBounds)
    else:
        snap["velocity"] = np.array(fmd["gammaVelocity..NOT"])
        snap["energies"] = np.array(lib.gammaEnergyUpperBounds)
    for nuc in lib.nuclides:
        _, m, xs = _xs_parts(fmt, lib, nuc)
        d = dict(md={k: (dict(v) if isinstance(v, dict) else np.array(v) if isinstance(v, np.ndarray) else v)
                     for k, v in m.items()}, xs={}, scat=[])
        names = ["transport", "total", "nGamma"] + (["fission", "neutronsPerFission"] if m["fisFlag"] else [])
        names += (["chi"] if m["chiFlag"] == 1 else []) + [k for k in _OPTIONAL_XS if m[k]]
        names += ["strpd"] if m["strpd"] > 0 else []
        for k in names:
            d["xs"][k] = np.array(xs[k], dtype=float)
        for n, (flag, lord) in enumerate(zip(m["scatFlag"], m["ords"])):
            d["scat"].append(dense(scatter_of(xs, int(flag), n)) if lord > 0 else None)
        snap["nuclides"].append(d)
    return snap


def xs_library_obligations(ctx, fmt, want, back, canary_hit=False):
    fmdB, _, _ = _xs_parts(fmt, back)
    ok = True
    if "label" in want["file"]:
        ctx.check("file label reads back", fmdB["label"] == want["file"]["label"])
    for k, w in want["file"].items():
        if k == "label":
            continue
        r = fmdB[k]
        if isinstance(w, str) or isinstance(w, (int, np.integer)):
            ok = ok and r == w
        elif isinstance(w, np.ndarray):
            ok = ok and same_array(w, r)
        else:
            ok = ok and same_number(w, r)
    ctx.check("file control and file data records read back", ok)
    ctx.check("nuclide labels read back in order", list(back.nuclideLabels) == want["labels"])
    if fmt == "ISOTXS":
        vel, en = back.neutronVelocity, back.neutronEnergyUpperBounds
    else:
        vel, en = fmdB["gammaVelocity..NOT"], back.gammaEnergyUpperBounds
    ctx.check("group structure reads back", same_array(want["velocity"], vel) and same_array(want["energies"], en))
    if list(back.nuclideLabels) != want["labels"]:
        return
    for i, (w, nuc) in enumerate(zip(want["nuclides"], back.nuclides)):
        _, m, xs = _xs_parts(fmt, back, nuc)
        ok = True
        for k, v in w["md"].items():
            r = m[k]
            if isinstance(v, dict):
                ok = ok and r is not None and dict(r) == v
            elif isinstance(v, np.ndarray):
                ok = ok and r is not None and list(r) == list(v)
            elif isinstance(v, (str, int, np.integer)):
                ok = ok and r == v
            else:
                ok = ok and same_number(v, r)
        ctx.check("nuclide %d: isotope control record reads back (flags, block types, JBAND, IJJ)" % i, ok)
        ok = all(same_array(v, xs[k]) for k, v in w["xs"].items())
        ctx.check("nuclide %d: every principal cross section the flags announce reads back" % i, ok)
        ok = True
        for n, v in enumerate(w["scat"]):
            if v is not None:
                ok = ok and same_array(v, dense(scatter_of(xs, int(w["md"]["scatFlag"][n]), n)))
        if canary_hit and i == len(want["nuclides"]) - 1:
            ok = False
        ctx.check("nuclide %d: every scatter block with LORD > 0 reads back into the attribute of its type" % i, ok)


def _full_lower(ng):
    """JBAND / IJJ of a down-scatter-only matrix whose rows hold everything from group 0 to the diagonal"""
    return [g + 1 for g in range(ng)], [1] * ng


_NO_OPT = dict.fromkeys(_OPTIONAL_XS, 0)


@harness("C09", bounds="ISOTXS / GAMISO (2 instances) scatter-band layout: groups 2..3; for the last block of the last "
                       "nuclide every row has its own band width JBAND(g) and in-group position IJJ(g) (4 groups in the thorough tier), all "
                       "combinations with 1 <= IJJ <= groups above+1 (up-scatter rows have IJJ > 1), IJJ <= JBAND <= "
                       "IJJ + groups below; sub-blocking NSBLOK 1..3; a second block present or not (LORD 0..1); two "
                       "nuclides; binary and ASCII", stubs=STUBS, max_paths=3000,
         instances={"quick": [dict(fmt="ISOTXS", maxGroups=3, binary=True), dict(fmt="GAMISO", maxGroups=3, binary=True),
                              dict(fmt="ISOTXS", maxGroups=3, binary=False)],
                    "thorough": [dict(fmt=f, maxGroups=4, binary=e) for f in ("ISOTXS", "GAMISO") for e in (True, False)]})
def isotxs_scatter_band_layout_roundtrip(ctx, fmt, maxGroups, binary):
    ng = int(ctx.int("NGROUP", 2, maxGroups))
    # see KNOWN_DEFECT_isotxs_subblocked_scatter_unreadable
    nsblok = int(ctx.int("NSBLOK", 1, 1 if KNOWN_DEFECT_isotxs_subblocked_scatter_unreadable else 3))
    lord0 = int(ctx.int("LORD_first_block", 0, 1))
    jjS = [ctx.int("IJJ_%d" % g, 1, maxGroups) for g in range(maxGroups)]
    bandS = [ctx.int("JBAND_%d" % g, 1, maxGroups) for g in range(maxGroups)]
    for g in range(maxGroups):
        if g < ng:
            ctx.assume(jjS[g] <= ng - g)                       # up-scatter sources are groups of the library
            ctx.assume(jjS[g] <= bandS[g])                     # the in-group entry lies inside the band
            ctx.assume(bandS[g] - jjS[g] <= g)                 # down-scatter sources are groups of the library
        else:
            ctx.assume(jjS[g] == 1)
            ctx.assume(bandS[g] == 1)
    jjs, bands = [int(x) for x in jjS][:ng], [int(x) for x in bandS][:ng]
    fb, fj = _full_lower(ng)
    nuclides = [dict(key="FE56AA", name="FE56", fis=0, chi=0, opt=_NO_OPT, ltot=1, ltrn=1, strpd=0,
                     blocks=[(200, 1, fb, fj), (100, 1, fb, fj)]),
                dict(key="U235AA", name="U235", fis=1, chi=1, opt=_NO_OPT, ltot=1, ltrn=1, strpd=0,
                     blocks=[(200, lord0, fb, fj), (100, 1, bands, jjs)])]
    lib = mk_xs_library(fmt, ng, nsblok, 0, nuclides)
    want = snapshot_xs_library(fmt, lib)
    write, read = _xs_io(fmt)
    c = Cycle(ctx, write, read, lib, binary)
    if not c.framing_obligations(ctx):
        return
    hit = ctx.canary and ng == 3 and jjs == [2, 1, 1] and bands == [2, 2, 3] and lord0 == 1
    xs_library_obligations(ctx, fmt, want, c.back, canary_hit=hit)
    # the scatter records themselves, against the CCCC-IV description of the 7D record: the last NSBLOK records of the
    # file are the sub-blocks of the last block of the last nuclide; together they hold, for J = 1..NGROUP, the JBAND(J)
    # values of the sources J+IJJ-1, ..., J, ..., J-(JBAND-IJJ)
    if not binary:
        return
    recs = records_of(c.raw)
    expect = [want["nuclides"][1]["scat"][1][g, col] for g in range(ng) for col in band_columns(g, bands[g], jjs[g])]
    got = b"".join(recs[-nsblok:]) if recs else b""
    ctx.check("scatter sub-block records hold the bands in the order the CCCC-IV specification gives",
              len(got) == 4 * len(expect) and list(struct.unpack("%df" % len(expect), got)) == expect)


@harness("C09", bounds="ISOTXS / GAMISO scatter block types: 1..2 blocks per nuclide (3 in the thorough tier), each "
                       "with a type flag out of {100, 200, 300, 0, 101, 102} (pairwise different) and LORD 0..1: all "
                       "combinations; 2 groups", stubs=STUBS, max_paths=3000,
         instances={"quick": [dict(fmt="ISOTXS", maxBlocks=2), dict(fmt="GAMISO", maxBlocks=2)],
                    "thorough": [dict(fmt="ISOTXS", maxBlocks=3), dict(fmt="GAMISO", maxBlocks=3)]})
def isotxs_scatter_block_types_roundtrip(ctx, fmt, maxBlocks):
    ng = 2
    nblk = int(ctx.int("NSCMAX", 1, maxBlocks))
    lordS = [ctx.int("LORD_%d" % n, 0, 1) for n in range(maxBlocks)]
    for n in range(maxBlocks):
        if n >= nblk:
            ctx.assume(lordS[n] == 0)
    flags = [ctx.choice("IDSCT_%d" % n, _SCAT_FLAGS) for n in range(maxBlocks)]
    for n in range(maxBlocks):
        if n >= nblk:
            ctx.assume(flags[n] == _SCAT_FLAGS[n])
        for k in range(n):
            if n < nblk:
                ctx.assume(flags[n] != flags[k])
    lords = [int(x) for x in lordS]
    fb, fj = _full_lower(ng)
    blocks = [(int(flags[n]), lords[n], fb, fj) for n in range(nblk)]
    nuclides = [dict(key="U235AA", name="U235", fis=1, chi=1, opt=_NO_OPT, ltot=1, ltrn=1, strpd=0, blocks=blocks),
                dict(key="FE56AA", name="FE56", fis=0, chi=0, opt=_NO_OPT, ltot=1, ltrn=1, strpd=0,
                     blocks=[(f, 1, fb, fj) for f, _l, _b, _j in blocks])]
    lib = mk_xs_library(fmt, ng, 1, 0, nuclides)
    want = snapshot_xs_library(fmt, lib)
    write, read = _xs_io(fmt)
    c = Cycle(ctx, write, read, lib, True)
    if not c.framing_obligations(ctx):
        return
    hit = ctx.canary and nblk == 2 and [b[0] for b in blocks] == [101, 0] and lords[:2] == [1, 1]
    xs_library_obligations(ctx, fmt, want, c.back, canary_hit=hit)
    # one 7D record per block with LORD > 0 and nothing else: 3 leading records, then per nuclide 4D, 5D and the 7D's
    recs = records_of(c.raw)
    n7d = sum(1 for x in lords[:nblk] if x > 0)
    ctx.check("the file holds exactly the records the isotope control flags announce",
              recs is not None and len(recs) == 3 + 2 + n7d + 2 + nblk)
    # the reader ignores the record offsets, so only the bytes can tell whether the writer got them right.  CCCC-IV:
    # 'LOCA(I) number of records to be skipped to read data for isotope I, LOCA(1)=0' (last words of the 2D record)
    ctx.check("file data record: LOCA(I) is the number of records to skip to reach isotope I",
              recs is not None and len(recs) > 2 and list(struct.unpack("2i", recs[2][-8:])) == [0, 2 + n7d])


@harness("C09", bounds="ISOTXS / GAMISO principal cross-section record: fission flag 0..1, nuclide chi flag 0..1, "
                       "file-wide chi flag 0..1 (a fissile nuclide without own chi needs the file-wide one), (n,alpha), "
                       "(n,p), (n,2n), (n,d), (n,t) flags 0..1 each, number of directional transport sets ISTRPD 0..2: "
                       "all combinations; group count and LTOT / LTRN per instance; binary and (thorough) ASCII",
         stubs=STUBS, max_paths=3000,
         instances={"quick": [dict(fmt="ISOTXS", ng=2, ltot=1, ltrn=2, binary=True),
                              dict(fmt="GAMISO", ng=3, ltot=2, ltrn=1, binary=True)],
                    "thorough": [dict(fmt=f, ng=g, ltot=a, ltrn=b, binary=e) for f in ("ISOTXS", "GAMISO")
                                 for (g, a, b) in ((2, 1, 2), (3, 2, 1), (1, 2, 2)) for e in (True, False)]})
def isotxs_principal_xs_flags_roundtrip(ctx, fmt, ng, ltot, ltrn, binary):
    fis, chi, fwchi = int(ctx.int("IFIS", 0, 1)), int(ctx.int("ICHI", 0, 1)), int(ctx.int("ICHIST", 0, 1))
    ctx.assume(not (fis == 1 and chi == 0 and fwchi == 0))     # documented OSError: fissile nuclide without any chi
    opt = {k: int(ctx.int("flag_" + k, 0, 1)) for k in _OPTIONAL_XS}
    strpd = int(ctx.int("ISTRPD", 0, 2))
    fb, fj = _full_lower(ng)
    nuclides = [dict(key="U235AA", name="U235", fis=fis, chi=chi, opt=opt, ltot=ltot, ltrn=ltrn, strpd=strpd,
                     blocks=[(100, 1, fb, fj)]),
                dict(key="FE56AA", name="FE56", fis=0, chi=0, opt={k: 1 - v for k, v in opt.items()}, ltot=1, ltrn=1,
                     strpd=0, blocks=[(100, 0, fb, fj)])]
    lib = mk_xs_library(fmt, ng, 1, fwchi, nuclides)
    want = snapshot_xs_library(fmt, lib)
    write, read = _xs_io(fmt)
    c = Cycle(ctx, write, read, lib, binary)
    if not c.framing_obligations(ctx):
        return
    hit = ctx.canary and fis == 1 and chi == 0 and opt["nd"] == 1 and opt["nt"] == 0 and opt["np"] == 1 and strpd == 2
    xs_library_obligations(ctx, fmt, want, c.back, canary_hit=hit)
    if fis == 1 and chi == 0:
        _, _, xs = _xs_parts(fmt, c.back, c.back.nuclides[0])
        ctx.check("a fissile nuclide without its own chi gets the file-wide fission spectrum",
                  same_array(want["file"]["chi"], xs.chi))


# ---------------------------------------------------------------------------------------------------------------------
# PMATRX

# _PmatrxNuclideIO._rwReactionXS calls record.rwList(activationXS[xsNum], self._numNeutronGroups) without the element
# type: TypeError (reported as OSError) for every nuclide with numberNeutronXS > 0, reading and writing alike.  With the
# flag True the harness keeps numberNeutronXS == 0.
KNOWN_DEFECT_pmatrx_activation_xs_records = False  # repaired in /repo (fix: a265f6a)

# _PmatrxNuclideIO._getProductionMatrix(order >= 3) indexes the dict nOrderProductionMatrix, which is empty on a freshly
# read nuclide: KeyError (reported as OSError).  A library with maxScatteringOrder >= 3 is written but cannot be read
# back.  With the flag True the harness keeps the order <= 2.
KNOWN_DEFECT_pmatrx_order3_production_unreadable = False  # recorded in known_findings.jsonl
# IORecord.rwBool keeps a value only if isinstance(val, bool): a flag held as numpy.bool_(True) (what a comparison or
# reduction of numpy data yields, e.g. hasGammaHeating = heating.any()) is written as 0, so the record it announces is
# still written but never read (the file is misread from there on).  With the flag True the flags of the container are
# Python bools only; see KNOWN_DEFECT_rwBool_drops_numpy_bool in C09_cccc.py (record-level obligation, reproduction).
KNOWN_DEFECT_pmatrx_numpy_bool_flags_written_false = False  # repaired in /repo (fix: afedb36)
_FLAG_TYPES = ["bool"] + ([] if KNOWN_DEFECT_pmatrx_numpy_bool_flags_written_false else ["numpy.bool_"])


def _pmatrx_write(lib, binary):
    s = pmatrx.PmatrxIO("<memory>", lib, _mode(True, binary), lambda key: lib[key])          # = pmatrx._write
    s._stream = _mem(s._fileMode)
    s.readWrite()
    return s._stream.getvalue()


def _pmatrx_read(raw, binary):
    lib = xsLibraries.IsotxsLibrary()                                                        # = pmatrx._read
    s = pmatrx.PmatrxIO("<memory>", lib, _mode(False, binary), lambda key: xsNuclides.XSNuclide(lib, key))
    s._stream = _mem(s._fileMode, raw)
    s.readWrite()
    return lib, s._stream.tell()


_PMATRX_FILE_INTS = ["numberCollapsingSpatialRegions", "numGammaGroups", "numNeutronGroups", "maxScatteringOrder",
                     "maxNumberOfCompositions", "maxMaterials", "maxNumberOfRegions", "maxNumberOfCollapsingRegions",
                     "_dummy1", "_dummy2"]
_PMATRX_NUC_KEYS = ["hasNeutronHeatingAndDamage", "maxScatteringOrder", "hasGammaHeating", "numberNeutronXS",
                    "collapsingRegionNumber"]


def _production(nuc, order):
    if order == 1:
        return nuc.isotropicProduction
    if order == 2:
        return nuc.linearAnisotropicProduction
    return nuc.nOrderProductionMatrix.get(order)


@harness("C09", bounds="PMATRX: neutron groups 1..2, gamma groups 1..2, dose-conversion record present or not; first "
                       "nuclide: heating/damage record, gamma-heating record present or not, production matrices of "
                       "order 0..3, activation cross-section records 0..1: all combinations; second nuclide fixed; "
                       "the flags held as Python bools (as numpy.bool_ too once the recorded rwBool defect is "
                       "repaired); binary and ASCII", stubs=STUBS, max_paths=2000,
         instances={"quick": [dict(binary=True), dict(binary=False)]})
def pmatrx_roundtrip_for_every_header(ctx, binary):
    nn, ngam = int(ctx.int("numNeutronGroups", 1, 2)), int(ctx.int("numGammaGroups", 1, 2))
    dose, heat, gheat = bool(ctx.bool("hasDose")), bool(ctx.bool("hasHeating")), bool(ctx.bool("hasGammaHeating"))
    if ctx.choice("flagType", _FLAG_TYPES) == "numpy.bool_":
        dose, heat, gheat = np.bool_(dose), np.bool_(heat), np.bool_(gheat)
    # see the two KNOWN_DEFECT_pmatrx_* flags
    order = int(ctx.int("maxScatteringOrder", 0, 2 if KNOWN_DEFECT_pmatrx_order3_production_unreadable else 3))
    nxs = int(ctx.int("numberNeutronXS", 0, 0 if KNOWN_DEFECT_pmatrx_activation_xs_records else 1))
    lib = xsLibraries.IsotxsLibrary()
    md = lib.pmatrxMetadata
    for i, k in enumerate(_PMATRX_FILE_INTS):
        md[k] = 10 + i
    md["numGammaGroups"], md["numNeutronGroups"], md["maxScatteringOrder"] = ngam, nn, max(order, 1)
    md["hasInPlateData"], md["hasDoseConversionFactor"] = False, dose
    md["minimumNeutronEnergy"], md["minimumGammaEnergy"] = 0.5, 0.25
    lib.neutronEnergyUpperBounds, lib.gammaEnergyUpperBounds = grid((nn,), 100.5), grid((ngam,), 200.5)
    if dose:
        lib.neutronDoseConversionFactors, lib.gammaDoseConversionFactors = grid((nn,), 300.5), grid((ngam,), 400.5)
    specs = [("U235AA", heat, gheat, order, nxs), ("FE56AA", True, False, 1, 0)]
    want = []
    for i, (key, h, gh, o, nx) in enumerate(specs):
        nuc = xsNuclides.XSNuclide(lib, key)
        lib[key] = nuc
        m = nuc.pmatrxMetadata
        for k, v in zip(_PMATRX_NUC_KEYS, (h, o, gh, nx, 3 + i)):
            m[k] = v
        base = 10000.0 * (i + 1)
        w = dict(md={k: m[k] for k in _PMATRX_NUC_KEYS}, arrays={}, prod={})
        if h:
            nuc.neutronHeating, nuc.neutronDamage = grid((nn,), base + 0.5), grid((nn,), base + 100.5)
            w["arrays"].update(neutronHeating=nuc.neutronHeating.copy(), neutronDamage=nuc.neutronDamage.copy())
        if gh:
            nuc.gammaHeating = grid((ngam,), base + 200.5)
            w["arrays"].update(gammaHeating=nuc.gammaHeating.copy())
        if nx:
            m["activationXS"] = [grid((nn,), base + 300.5 + 10 * k) for k in range(nx)]
            m["activationMT"], m["activationMTU"] = [102 + k for k in range(nx)], [7 + k for k in range(nx)]
            w["act"] = ([a.copy() for a in m["activationXS"]], list(m["activationMT"]), list(m["activationMTU"]))
        for lrd in range(1, o + 1):
            mat = grid((ngam, nn), base + 1000.5 * lrd)
            if lrd == 1:
                nuc.isotropicProduction = mat
            elif lrd == 2:
                nuc.linearAnisotropicProduction = mat
            else:
                nuc.nOrderProductionMatrix[lrd] = mat
            w["prod"][lrd] = mat.copy()
        want.append(w)
    wantFile = {k: md[k] for k in _PMATRX_FILE_INTS + ["hasInPlateData", "hasDoseConversionFactor"]}
    c = Cycle(ctx, _pmatrx_write, _pmatrx_read, lib, binary)
    if not c.framing_obligations(ctx):
        return
    b = c.back
    ctx.check("file identification reads back", all(b.pmatrxMetadata[k] == v for k, v in wantFile.items())
              and same_number(0.5, b.pmatrxMetadata["minimumNeutronEnergy"])
              and same_number(0.25, b.pmatrxMetadata["minimumGammaEnergy"]))
    ctx.check("group structures read back", same_array(grid((nn,), 100.5), b.neutronEnergyUpperBounds)
              and same_array(grid((ngam,), 200.5), b.gammaEnergyUpperBounds))
    if dose:
        ctx.check("dose conversion factors announced by the header read back",
                  same_array(grid((nn,), 300.5), b.neutronDoseConversionFactors)
                  and same_array(grid((ngam,), 400.5), b.gammaDoseConversionFactors))
    ctx.check("nuclide labels read back in order", b.nuclideLabels == [s[0] for s in specs])
    if b.nuclideLabels != [s[0] for s in specs]:
        return
    for i, (w, nuc) in enumerate(zip(want, b.nuclides)):
        ctx.check("nuclide %d: heading record reads back" % i,
                  all(nuc.pmatrxMetadata[k] == v for k, v in w["md"].items()))
        ok = all(same_array(v, getattr(nuc, k)) for k, v in w["arrays"].items())
        if ctx.canary and i == 0 and heat and not gheat and order == 2 and nn == 2 and ngam == 1:
            ok = False
        ctx.check("nuclide %d: heating / damage / gamma heating records announced by the heading read back" % i, ok)
        ctx.check("nuclide %d: production matrices of every announced order read back" % i,
                  all(same_array(v, _production(nuc, lrd)) for lrd, v in w["prod"].items()))
        if "act" in w:
            m = nuc.pmatrxMetadata
            ctx.check("nuclide %d: activation cross sections read back" % i,
                      m["activationXS"] is not None and len(m["activationXS"]) == len(w["act"][0])
                      and all(same_array(x, y) for x, y in zip(w["act"][0], m["activationXS"]))
                      and list(m["activationMT"]) == w["act"][1] and list(m["activationMTU"]) == w["act"][2])


# ---------------------------------------------------------------------------------------------------------------------
# DLAYXS

# DlayxsIO._rwSpectra sizes the trailing filler of the file-data record from "numBytes - byteCount" of the open record.
# AsciiRecordReader never advances byteCount (its rwInt/rwFloat/rwString do not count), so dlayxs.readAscii asks for as
# many 4-character words as the whole record is long and runs off the record: BufferError for every ASCII DLAYXS file
# written by dlayxs.writeAscii.  With the flag True only the binary encoding is exercised.
KNOWN_DEFECT_dlayxs_ascii_unreadable = False  # recorded in known_findings.jsonl


def _dlayxs_write(d, binary):
    s = dlayxs.DlayxsIO("<memory>", _mode(True, binary), d)
    s._stream = _mem(s._fileMode)
    s.readWrite()
    return s._stream.getvalue()


def _dlayxs_read(raw, binary):
    d = dlayxs.Dlayxs()                                                                      # = dlayxs._read
    s = dlayxs.DlayxsIO("<memory>", _mode(False, binary), d)
    s._stream = _mem(s._fileMode, raw)
    s.readWrite()
    return d, s._stream.tell()


@harness("C09", bounds="DLAYXS: groups 1..3, nuclides 1..2, yield vectors NKFAMI of the first nuclide in {1, 4, 6}, "
                       "precursor families shared between the nuclides or separate (6 or 12 families in the file), "
                       "label length in {0, 6, 12} (the file identification record is as long as the label), 0..2 "
                       "trailing filler words: all combinations", stubs=STUBS, max_paths=2000,
         instances={"quick": [dict(binary=True)] + ([] if KNOWN_DEFECT_dlayxs_ascii_unreadable else [dict(binary=False)])})
def dlayxs_roundtrip_for_every_header(ctx, binary):
    ng, nnuc = int(ctx.int("NGROUP", 1, 3)), int(ctx.int("NISOD", 1, 2))
    nkfam0 = ctx.choice("NKFAMI_0", [1, 4, 6])
    shared = bool(ctx.bool("sharedFamilies"))
    labelLen = ctx.choice("labelLength", [0, 6, 12])
    ndum2 = int(ctx.int("fillerWords", 0, 2))
    nkfam = [nkfam0, 6][:nnuc]
    d = dlayxs.Dlayxs()
    md = d.metadata
    nfam = 6 if shared else 6 * nnuc
    md["label"], md["numEnergyGroups"], md["numFamilies"], md["dummy"] = "DLAYXS verif"[:labelLen], ng, nfam, 5
    bases = [nuclideBases.byName[n] for n in ("U235", "PU239")[:nnuc]]
    md["nuclideIDs"] = [b.getMcc3Id() for b in bases]
    md["precursorDecayConstants"], md["delayEmissionSpectrum"] = grid((nfam,), 0.5), grid((ng, nfam), 10.5)
    d.neutronEnergyUpperBounds, md["minEnergy"] = grid((ng,), 100.5), 0.25
    md["nkfam"], md["recordsToSkip"], md["dummy2"] = list(nkfam), list(range(nnuc)), ["ab", "cdef", "g"][:ndum2]
    want = []
    for i, b in enumerate(bases):
        dd = dlayxs.DelayedNeutronData(ng, d.numPrecursorGroups)
        fam = [(0 if shared else 6 * i) + k + 1 for k in range(6)]
        d.nuclideFamily[b] = fam
        for k, f in enumerate(fam):      # per-nuclide views of the family data, as DlayxsIO.readWrite documents
            dd.precursorDecayConstants[k] = md["precursorDecayConstants"][f - 1]
            dd.delayEmissionSpectrum[k, :] = md["delayEmissionSpectrum"][:, f - 1]
        dd.delayNeutronsPerFission[:nkfam[i], :] = grid((nkfam[i], ng), 1000.5 * (i + 1))
        d[b] = dd
        want.append((fam, dd.precursorDecayConstants.copy(), dd.delayEmissionSpectrum.copy(),
                     dd.delayNeutronsPerFission.copy()))
    wantMd = {k: (np.array(v) if isinstance(v, (list, np.ndarray)) else v) for k, v in md.items()}
    c = Cycle(ctx, _dlayxs_write, _dlayxs_read, d, binary)
    if not c.framing_obligations(ctx):
        return
    b = c.back
    ok = True
    for k, w in wantMd.items():
        r = b.metadata[k]
        if isinstance(w, np.ndarray) and w.dtype.kind in "US":
            ok = ok and r is not None and same_strings(w, r)
        elif isinstance(w, np.ndarray):
            ok = ok and r is not None and same_array(w, r)
        elif isinstance(w, float):
            ok = ok and same_number(w, r)
        else:
            ok = ok and r == w
    ctx.check("file identification, file control and family data read back", ok)
    ctx.check("group structure reads back", same_array(grid((ng,), 100.5), b.neutronEnergyUpperBounds))
    ctx.check("the same nuclides come back in the same order", list(b.keys()) == bases)
    if list(b.keys()) != bases:
        return
    for i, (base, (fam, lam, chi, nu)) in enumerate(zip(bases, want)):
        r = b[base]
        ctx.check("nuclide %d: family numbers read back" % i, list(b.nuclideFamily[base]) == fam)
        ok = same_array(nu, r.delayNeutronsPerFission)
        if ctx.canary and i == 0 and nkfam0 == 4 and ng == 2 and not shared and ndum2 == 1:
            ok = False
        ctx.check("nuclide %d: delayed neutron yields read back" % i, ok)
        ctx.check("nuclide %d: decay constants and emission spectra of its families read back" % i,
                  same_array(lam, r.precursorDecayConstants) and same_array(chi, r.delayEmissionSpectrum))


# ---------------------------------------------------------------------------------------------------------------------
# COMPXS

# _CompxsIO._rw2DRecord passes the shape as ONE tuple to rwMatrix(contents, *shape): range(tuple) -> TypeError
# (reported as OSError), reading and writing alike, for every library with fileWideChiFlag > 0 ...
KNOWN_DEFECT_compxs_file_wide_chi = False  # repaired in /repo (fix: 32e0321)
# ... and, in _rwDelayedProperties, for every library with numDelayedFam > 0 (delayedChi).
KNOWN_DEFECT_compxs_delayed_families = False  # repaired in /repo (fix: 32e0321)
# nuclearFileMetadata.REGIONXS_POWER_CONVERT_DIRECTIONAL_DIFF lists "d1Multiplier" twice and "d2Multiplier" never: the
# second-dimension diffusion-coefficient multiplier the module documentation promises (A2 of the DIF3D 4D record) is
# neither written nor read; its slot in the record carries d1Multiplier a second time, and on reading a DIF3D-made file
# the A2 value overwrites d1Multiplier.  With the flag True the harness does not require d2Multiplier back.
KNOWN_DEFECT_compxs_d2Multiplier_not_stored = False  # repaired in /repo (fix: bd1a02e)

_COMPXS_DIFF = ["powerConvMult", "d1Multiplier", "d1Additive", "d2Multiplier", "d2Additive", "d3Multiplier", "d3Additive"]


def _compxs_write(lib, binary):
    s = compxs._CompxsIO("<memory>", lib, _mode(True, binary), lambda key: lib[key])          # = _CompxsIO._write
    s._stream = _mem(s._fileMode)
    s.readWrite()
    return s._stream.getvalue()


def _compxs_read(raw, binary):
    lib = xsLibraries.CompxsLibrary()                                                        # = _CompxsIO._read
    s = compxs._CompxsIO("<memory>", lib, _mode(False, binary), lambda key: compxs.CompxsRegion(lib, key))
    s._stream = _mem(s._fileMode, raw)
    s.readWrite()
    return lib, s._stream.tell()


def column_banded(ng, nup, ndn, base):
    """S[g', g] != 0 exactly for the nup[g] groups below (g' > g) and ndn[g] groups above (g' < g) group g and g itself
    (the column segments XSCATU / XSCATJ / XSCATD of the COMPXS description)"""
    m = np.zeros((ng, ng))
    for g in range(ng):
        for row in range(g - ndn[g], g + nup[g] + 1):
            m[row, g] = base + 10 * row + g
    return m


@harness("C09", bounds="COMPXS: groups 2..3, two compositions; for the first one the per-group numbers of up- and "
                       "down-scattering groups NUP(g) in 0..groups below, NDN(g) in 0..groups above (all "
                       "combinations), fission spectrum flag ICHI 0..2 (0 = not fissile, 2 = chi matrix with 2 "
                       "columns), maximum scattering order 0..1, file-wide chi flag 0..1, delayed families 0..2, families fed by "
                       "the first composition 0..2; "
                       "binary and ASCII (ASCII with 2 groups only in the quick tier)", stubs=STUBS, max_paths=3000,
         instances={"quick": [dict(binary=True, maxGroups=3), dict(binary=False, maxGroups=2)],
                    "thorough": [dict(binary=True, maxGroups=3), dict(binary=False, maxGroups=3)]})
def compxs_roundtrip_for_every_header(ctx, binary, maxGroups):
    ng = int(ctx.int("NGROUP", 2, maxGroups))
    ichi = int(ctx.int("ICHI", 0, 2))
    maxord = int(ctx.int("MAXORD", 0, 1))
    # see the KNOWN_DEFECT_compxs_* flags
    fwchi = int(ctx.int("ICHIST", 0, 0 if KNOWN_DEFECT_compxs_file_wide_chi else 1))
    ndelay = int(ctx.int("NDELAY", 0, 0 if KNOWN_DEFECT_compxs_delayed_families else 2))
    nkfam = int(ctx.int("NKFAM_0", 0, 2))
    if not KNOWN_DEFECT_compxs_delayed_families:
        ctx.assume(nkfam <= ndelay)           # a composition feeds only families the file has
    # (while files with delayed families cannot be handled at all, the per-composition precursor records are still
    # exercised, with NDELAY = 0 in the header)
    nupS = [ctx.int("NUP_%d" % g, 0, 2) for g in range(3)]
    ndnS = [ctx.int("NDN_%d" % g, 0, 2) for g in range(3)]
    for g in range(3):
        ctx.assume(nupS[g] <= (ng - 1 - g if g < ng else 0))
        ctx.assume(ndnS[g] <= (g if g < ng else 0))
    nup, ndn = [int(x) for x in nupS][:ng], [int(x) for x in ndnS][:ng]
    ncomp = 2
    lib = xsLibraries.CompxsLibrary()
    md = lib.compxsMetadata
    chiFlags = [ichi, 1]
    bandsOf = [(nup, ndn), ([0] * ng, list(range(ng)))]
    for k, v in dict(numComps=ncomp, numGroups=ng, fileWideChiFlag=fwchi, numFissComps=sum(1 for x in chiFlags if x),
                     maxUpScatterGroups=max(nup), maxDownScatterGroups=ng - 1, numDelayedFam=ndelay,
                     maxScatteringOrder=maxord, reservedFlag1=0, reservedFlag2=0,
                     minimumNeutronEnergy=1.0 / 3.0).items():
        md[k] = v
    if fwchi:
        md["fileWideChi"] = grid((ng, fwchi), 0.1)
    lib.neutronVelocity, lib.neutronEnergyUpperBounds = grid((ng,), 1000.0) / 7.0, grid((ng,), 2000.0) / 7.0
    if ndelay:
        md["delayedChi"], md["delayedDecayConstant"] = grid((ndelay, ng), 0.2), grid((ndelay,), 0.3)
    md["compFamiliesWithPrecursors"] = np.array([nkfam, 0])
    md["fissionWattSeconds"], md["captureWattSeconds"] = grid((ncomp,), 5.0) / 7.0, grid((ncomp,), 6.0) / 7.0
    wantFile = {k: (np.array(v) if isinstance(v, np.ndarray) else v) for k, v in md.items()}
    want = []
    for r in range(ncomp):
        reg = compxs.CompxsRegion(lib, r)
        m, x = reg.metadata, reg.macros
        up, dn = bandsOf[r]
        m["chiFlag"], m["numUpScatterGroups"], m["numDownScatterGroups"] = chiFlags[r], list(up), list(dn)
        if m["numPrecursorFamilies"]:
            m["numFamI"] = [k + 1 for k in range(nkfam)]
            for g in range(ng):
                m["numPrecursorsProduced", g] = [10 * g + k + 3 for k in range(nkfam)]
        for i, k in enumerate(_COMPXS_DIFF):
            m[k] = list(grid((ng,), 10.0 * (i + 1) + 100 * r) / 7.0)
        base = 10000.0 * (r + 1)
        for i, k in enumerate(["absorption", "total", "removal", "transport", "n2n"]):
            x[k] = grid((ng,), base + 10 * i) / 7.0
        if chiFlags[r]:
            x.fission, x.nuSigF = grid((ng,), base + 100) / 7.0, grid((ng,), base + 110) / 7.0
            x.chi = grid((ng, chiFlags[r]), base + 120) / 7.0
        x.totalScatter = csc_matrix(column_banded(ng, up, dn, base + 1000) / 7.0)
        for o in range(1, maxord + 1):
            x.higherOrderScatter[o] = csc_matrix(column_banded(ng, up, dn, base + 1000 + 200 * o) / 7.0)
        w = dict(md={k: (list(v) if isinstance(v, (list, np.ndarray)) else v) for k, v in m.items()},
                 xs={k: np.array(x[k]) for k in ["absorption", "total", "removal", "transport", "n2n"]
                     + (["fission", "nuSigF", "chi"] if chiFlags[r] else [])},
                 scat=[dense(x.totalScatter)] + [dense(x.higherOrderScatter[o]) for o in range(1, maxord + 1)])
        want.append(w)
    c = Cycle(ctx, _compxs_write, _compxs_read, lib, binary)
    if not c.framing_obligations(ctx):
        return
    if binary:
        # where the scatter data sit in the group records of the first composition, from the module's description of
        # the record: principal cross sections (4, for a fissile composition also fission, nu-fission and ICHI chi
        # values), then XSCATU = S(g', J) for g' = J+NUP(J) ... J+1, XSCATJ = S(J, J), XSCATD = g' = J-1 ... J-NDN(J)
        recs = records_of(c.raw)
        ok = recs is not None and len(recs) == 2 + ncomp * (1 + ng) + 1
        for g in range(ng if ok else 0):
            expect = [want[0]["scat"][0][row, g] for row in range(g + nup[g], g - ndn[g] - 1, -1)]
            off = 8 * (4 + (2 + ichi if ichi else 0))
            got = recs[3 + g][off:off + 8 * len(expect)]
            ok = ok and len(got) == 8 * len(expect) and list(struct.unpack("%dd" % len(expect), got)) == expect
        ctx.check("group records list up-scatter, in-group, down-scatter sources in the order the module describes", ok)
    b = c.back
    ok = True
    for k, w in wantFile.items():
        rr = b.compxsMetadata[k]
        ok = ok and rr is not None and (same_array(w, rr, 0.0) if isinstance(w, np.ndarray) else rr == w)
    ctx.check("specifications, composition-independent data and power conversion factors read back", ok)
    ctx.check("group structure reads back (doubles exactly)",
              same_array(grid((ng,), 1000.0) / 7.0, b.neutronVelocity, 0.0)
              and same_array(grid((ng,), 2000.0) / 7.0, b.neutronEnergyUpperBounds, 0.0))
    ctx.check("all compositions come back", b.regionLabels == list(range(ncomp)))
    if b.regionLabels != list(range(ncomp)):
        return
    for r, (w, reg) in enumerate(zip(want, b.regions)):
        ok = True
        for k, v in w["md"].items():
            if k == "d2Multiplier" and KNOWN_DEFECT_compxs_d2Multiplier_not_stored:
                continue
            rr = reg.metadata[k]
            ok = ok and rr is not None and (list(rr) == v if isinstance(v, list) else rr == v)
        ctx.check("composition %d: specifications and the seven power-conversion / directional diffusion "
                  "modifiers of every group read back" % r, ok)
        ctx.check("composition %d: principal cross sections read back (doubles exactly)" % r,
                  all(same_array(v, reg.macros[k], 0.0) for k, v in w["xs"].items()))
        got = [dense(reg.macros.totalScatter)] + [dense(reg.macros.higherOrderScatter.get(o))
                                                  for o in range(1, maxord + 1)]
        ok = all(same_array(v, g_, 0.0) for v, g_ in zip(w["scat"], got))
        if ctx.canary and r == 0 and nup[0] == 1 and ndn[1] == 1 and ichi == 2 and maxord == 1 and nkfam == 1:
            ok = False
        ctx.check("composition %d: scattering matrices of every order read back for every band layout" % r, ok)
