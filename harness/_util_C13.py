"""Shared builders for C13 / C14: hand-made mini reactors (concrete structure, symbolic numbers).

Extends harness/_build.py (not edited): symbolic block heights at construction, several block types per
assembly, a spent fuel pool, fresh assemblies outside the core.
"""
from armi.reactor import assemblies, blocks, components, grids, reactors
from armi.reactor.blueprints import Blueprints
from armi.reactor.flags import Flags
from armi.reactor.spentFuelPool import SpentFuelPool

NUCS = ("U235", "U238", "FE", "NA")


def mk_block(typ="fuel", height=10.0):
    """A real HexBlock: fuel pins + clad + duct + inter-assembly sodium; `typ` sets name and flags."""
    b = blocks.HexBlock(typ, height=height)
    fuel = components.Circle("fuel", "UZr", Tinput=25.0, Thot=600, od=0.76, id=0.0, mult=127.0)
    clad = components.Circle("clad", "HT9", Tinput=25.0, Thot=450, od=0.80, id=0.77, mult=127.0)
    duct = components.Hexagon("duct", "HT9", Tinput=25.0, Thot=400, op=16, ip=15.3, mult=1.0)
    ic = components.Hexagon("intercoolant", "Sodium", Tinput=25.0, Thot=400, op=16.2, ip=16.0, mult=1.0)
    for c in (fuel, clad, duct, ic):
        b.add(c)
    b.setType(typ)
    return b


def mk_assembly(types=("fuel",), heights=None, name="fuel", assemNum=None):
    a = assemblies.HexAssembly(name, assemNum=assemNum)
    a.spatialGrid = grids.AxialGrid.fromNCells(len(types))
    a.spatialGrid.armiObject = a
    for k, t in enumerate(types):
        a.add(mk_block(t, height=10.0 if heights is None else heights[k]))
    a.calculateZCoords()
    return a


def mk_reactor(symmetry="third periodic", pitch=16.2, numRings=3, sfp=False):
    r = reactors.Reactor("mini", Blueprints())
    core = reactors.Core("core")
    r.add(core)
    g = grids.HexGrid.fromPitch(pitch, numRings=numRings, symmetry=symmetry)
    g.armiObject = core
    g._geomType = "hex"
    core.spatialGrid = g
    core.stationaryBlockFlagsList = []
    pool = None
    if sfp:
        pool = SpentFuelPool("sfp")
        pool.spatialGrid = grids.CartesianGrid.fromRectangle(50.0, 50.0, numRings=3)
        pool.spatialGrid.armiObject = pool
        r.add(pool)
    return r, core, pool


class SettingsView:
    """Case settings in which some entries are replaced (e.g. 'trackAssems' by a symbolic bool); every other key is
    answered by a real default Settings object.  Meant for Core.setOptionsFromCs, which only reads cs[key]."""

    def __init__(self, cs, **overrides):
        self._cs = cs
        self._overrides = overrides

    def __getitem__(self, key):
        if key in self._overrides:
            return self._overrides[key]
        return self._cs[key]


def add_pool_resident(pool, name="spent"):
    """One assembly that already sits in the spent fuel pool (put there through SpentFuelPool.add)."""
    a = mk_assembly(("fuel",), name=name)
    pool.add(a)
    return a


def inject_densities(ctx, a, tag, lo=0.0, hi=10.0, nucs=NUCS):
    """Symbolic number densities: U235/U238 in the fuel, FE in the duct, NA in the inter-assembly gap (those listed
    in nucs), for every block of assembly a.  Returns {(blockIndex, nuclide): proxy}."""
    where = {"fuel": (("U235", "n5"), ("U238", "n8")), "duct": (("FE", "nFe"),), "intercoolant": (("NA", "nNa"),)}
    out = {}
    for k, b in enumerate(a):
        for c in b:
            nd = {}
            for nuc, short in where.get(c.name, ()):
                if nuc in nucs:
                    nd[nuc] = ctx.real("%s_%s_%d" % (short, tag, k), lo, hi)
                    out[(k, nuc)] = nd[nuc]
            c.p.numberDensities = nd
    return out


def rot120(i, j, m=1):
    """Index image of hex cell (i, j) under m x 120 degrees counter-clockwise (flats-up ARMI indexing:
    x = sqrt3/2 p i, y = p (i/2 + j); 60 degrees maps (i, j) -> (-j, i + j))."""
    for _ in range(2 * (m % 3)):
        i, j = -j, i + j
    return i, j
