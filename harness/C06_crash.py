"""C06 (crash points, restart arithmetic): which snapshots a run leaves behind and how the file is closed.

Real code driven: ``Operator.__enter__/__exit__/operate/_mainOperate/_cycleLoop/_timeNodeLoop/_performTightCoupling/
_interactAll/interactAllError/reattach``, ``MainInterface.interactBOL/_activateDBPrepRestart/interactBOC/
interactEveryNode/interactEOL``, ``DatabaseInterface.interactBOL/initDB/interactEveryNode/writeDBEveryNode/
interactEOL/closeDB/interactError/prepRestartRun/_checkThatCyclesHistoriesAreEquivalentUpToRestartTime/loadState/
_getLoadDB`` and ``Database.open/close/__enter__/__exit__/getH5Group/hasTimeStep/writeToDB/mergeHistory/
genTimeSteps/genTimeStepGroups`` with getH5GroupName -- on an in-memory stand-in for the HDF5 file (the file
*contents* are outside this technique; what is decided is which groups exist, in which order they were written, what
state they were written from, how the file is flagged and where it ends up).

The expected outcome is derived from the independent reference schedule of harness/_util_C15.py cut at the failing
hook call, i.e. from the property text: every node completed before the failure, plus the state at the failure,
flagged unsuccessful; a completed run holds every node plus the end-of-life state and is flagged successful.
"""
import os
import types

from symx.core import AND, OR, NOT, ITE
from symx.engine import harness
from symx import shims

from harness import _util_C15 as UT
from harness._util_C15 import IfaceSpec, InjectedFailure, flag, pick, reference_events, reference_schedule

STUBS = UT.STUBS + [
    "database.h5py -> in-memory file objects (groups, attrs, flush/close, copy; any use after close raises) kept in "
    "a dict that plays the file system; database.safeMove / safeCopy -> move / copy inside that dict; "
    "database.context.getFastPath -> a scratch directory distinct from the working directory; database.gc.collect "
    "-> no-op; database.shutil.which -> None (no git subprocess)",
    "database.Layout -> stub whose writeToDB stores (cycle, node, number of hook calls made so far) in the group and "
    "refuses to overwrite (as HDF5 does); no parameters are written",
    "databaseInterface.Database -> subclass of the real Database overriding only writeInputsToDB (stores a marker), "
    "loadCS (returns the settings object registered for the file) and load (returns a fresh stub reactor at the "
    "requested time step and records the request)",
    "mainInterface.runLog, database.runLog, databaseInterface.runLog -> no-op",
    "the failing interface is a recording Interface that raises InjectedFailure at its k-th hook call"]

# Candidate genuine defect (see report): with tightCoupling on, Operator._performTightCoupling calls
# getInterface('database').writeDBEveryNode() although the database interface is disabled (db: false) and never
# opened a file -> AttributeError at the first time node.  The flag keeps that combination out of the harness.
KNOWN_DEFECT_coupling_with_db_disabled = False  # repaired in /repo (fix: commit 85b6738)

CASE = "symxcase"
STATE = {"log": None, "loads": None, "cs_of": None}
FS = {}


def _key(path):
    return os.path.abspath(str(path))


class FakeGroup:
    def __init__(self, name):
        self.name = name
        self.attrs = {}
        self.data = {}

    def keys(self):
        return list(self.data.keys())


class FakeFile:
    """What the Database class uses of an h5py.File."""

    def __init__(self, path):
        self.path = path
        self.attrs = {}
        self.groups = {}
        self.isopen = True
        self.mode = "w"
        self.closes = 0

    def _alive(self):
        if not self.isopen:
            raise ValueError("Invalid file identifier (file is closed)")

    def _writable(self):
        self._alive()
        if self.mode == "r":
            raise ValueError("file opened read-only")

    def __contains__(self, name):
        self._alive()
        return name.lstrip("/") in self.groups

    def __getitem__(self, name):
        self._alive()
        return self.groups[name.lstrip("/")]

    def __setitem__(self, name, value):
        self._writable()
        top, _, rest = name.partition("/")
        self.groups.setdefault(top, FakeGroup("/" + top)).data[rest] = value

    def __delitem__(self, name):
        self._writable()
        del self.groups[name.lstrip("/")]

    def create_group(self, name, track_order=None):
        self._writable()
        if name in self.groups:
            raise ValueError("Unable to create group (name already exists)")
        g = FakeGroup("/" + name)
        self.groups[name] = g
        return g

    def keys(self):
        self._alive()
        return list(self.groups.keys())

    def items(self):
        self._alive()
        return list(self.groups.items())

    def copy(self, src, name):
        self._writable()
        name = name.lstrip("/")
        if name in self.groups:
            raise ValueError("Unable to copy object (destination object already exists)")
        g = FakeGroup("/" + name)
        g.attrs = dict(src.attrs)
        g.data = dict(src.data)
        self.groups[name] = g

    def flush(self):
        self._alive()

    def close(self):
        self.isopen = False
        self.closes += 1


class _FakeH5py:
    class h5r:
        class Reference:
            pass

    @staticmethod
    def File(path, mode="r"):
        k = _key(path)
        if mode == "w":
            f = FakeFile(k)
            FS[k] = f
        else:
            if k not in FS:
                raise FileNotFoundError(k)
            f = FS[k]
            if f.isopen:
                raise OSError("file is already open")
            f.isopen = True
        f.mode = mode
        return f


def _fake_safeMove(src, dst):
    ks, kd = _key(src), _key(dst)
    if ks in FS and ks != kd:
        FS[kd] = FS.pop(ks)
        FS[kd].path = kd
    return dst


def _fake_safeCopy(src, dst):
    ks, kd = _key(src), _key(dst)
    f = FS[ks]
    if f.isopen:
        raise OSError("copying a file that is still open")
    if ks == kd:
        return
    c = FakeFile(kd)
    c.attrs = dict(f.attrs)
    for name, g in f.groups.items():
        c.groups[name] = FakeGroup(g.name)
        c.groups[name].attrs = dict(g.attrs)
        c.groups[name].data = dict(g.data)
    c.isopen = False
    FS[kd] = c


class _FakeContext:
    """database.context with a scratch directory distinct from the working directory (as Operator.__init__ sets up)."""

    def __getattr__(self, name):
        from armi import context

        return getattr(context, name)

    @staticmethod
    def getFastPath():
        return "/symx_fast_path"


class _FakeLayout:
    def __init__(self, version, h5group=None, comp=None):
        self.comp = comp
        self.groupedComps = {}

    def writeToDB(self, h5group):
        if "layout" in h5group.data:
            raise ValueError("Unable to create dataset (name already exists)")
        r = self.comp
        h5group.data["layout"] = (r.p.cycle, r.p.timeNode, _hooks_so_far())


def _hooks_so_far():
    return sum(1 for e in STATE["log"] if e[0] not in ("FAIL", "Error"))


_DONE = []


def _install():
    """Run-time (not import-time) installation: the worker process of another C06 harness never sees these."""
    UT.install()
    if _DONE:
        return
    import armi.bookkeeping.db.database as dbmod
    import armi.bookkeeping.db.databaseInterface as dbimod
    import armi.bookkeeping.mainInterface as mainmod

    class IODatabase(dbmod.Database):
        def writeInputsToDB(self, cs, csString=None, bpString=None):
            self.h5db.attrs["caseTitle"] = cs.caseTitle
            self.h5db["inputs/settings"] = "settings of " + cs.caseTitle

        def loadCS(self, handleInvalids=True):
            return STATE["cs_of"][_key(self._fileName)]

        def load(self, cycle, node, cs=None, bp=None, statePointName=None, allowMissing=False):
            STATE["loads"].append((_key(self._fileName), cycle, node, statePointName, self.h5db is not None
                                   and self.h5db.isopen))
            return UT.mk_reactor(cycle, node)

    shims.patch(dbmod, h5py=_FakeH5py, Layout=_FakeLayout, safeMove=_fake_safeMove, safeCopy=_fake_safeCopy,
                context=_FakeContext(), gc=types.SimpleNamespace(collect=lambda: 0),
                shutil=types.SimpleNamespace(which=lambda name: None))
    shims.patch(dbimod, Database=IODatabase, runLog=UT._QuietLog())
    shims.patch(dbmod, runLog=UT._QuietLog())
    shims.patch(mainmod, runLog=UT._QuietLog(), Database=IODatabase)
    _DONE.append(IODatabase)


def _name(c, n, label=""):
    return "c%02dn%02d%s" % (c, n, label)      # the documented cXXnYY[label] scheme (C06_naming checks the scheme)


def _cycles(ms):
    return [{"step days": [1.0 + i + k for k in range(m)]} for i, m in enumerate(ms)]


def _build(cs, start, specs, fail=None, k=None, answers=()):
    """Real Operator + real MainInterface / DatabaseInterface + recorders, assembled with the real addInterface."""
    from armi.bookkeeping.db.databaseInterface import DatabaseInterface
    from armi.bookkeeping.mainInterface import MainInterface

    FS.clear()
    log = []
    STATE.update(log=log, loads=[], cs_of={})
    r = UT.mk_reactor(*start)
    o = UT.mk_operator(cs, r)
    Rec = UT.recorder_class()
    pool = [list(answers), [0]]
    for s in specs:
        if s.name == "main":
            i = MainInterface(r, cs)
        elif s.name == "database":
            i = DatabaseInterface(r, cs)
        else:
            i = Rec(r, cs, log, s.name, function="f_" + s.name, convPool=pool,
                    failAt=(k if s.name == fail else None), counter=([0] if s.name == fail else None))
        o.addInterface(i, reverseAtEOL=s.reverse, enabled=s.enabled, bolForce=s.bolForce)
    return o, r, log


def _time_groups(f):
    return [g for g in f.groups if g != "inputs"]


def _expected(events, fail, k, coupling):
    """Cut the reference schedule at the k-th hook call of the failing interface and read off what the database
    interface had been asked to do by then.  Returns (cut, writes, opened, finalised, failure (cycle,node,hooks)|None).
    `events` is consumed lazily: nothing after the failure is looked at."""
    cut, writes, opened, finalised = [], [], False, False
    hooks = 0
    seen = 0
    for e in events:
        ev, who = e[0], e[1]
        if who == fail and ev != "writeDB":
            if seen == k:
                return cut, writes, opened, finalised, (e[3], e[4], hooks)
            seen += 1
        cut.append(e)
        if ev == "BOL" and who in ("main", "database"):
            opened = True
        if who == "database":
            if (ev == "EveryNode" and not coupling) or ev == "writeDB":
                writes.append((_name(e[3], e[4]), (e[3], e[4], hooks)))
            elif ev == "EOL":
                writes.append((_name(e[3], e[4], "EOL"), (e[3], e[4], hooks)))
                finalised = True
        elif who != "main":
            hooks += 1
    return cut, writes, opened, finalised, None


def _listing(path):
    """What the real Database lists when the file left behind is opened for reading."""
    import armi.bookkeeping.db.databaseInterface as dbimod

    with dbimod.Database(path, "r") as db:
        return list(db.genTimeSteps())


CRASH_QUICK = [dict(n=1, maxM=1, pos="between"), dict(n=2, maxM=1, pos="between"), dict(n=2, maxM=1, pos="after"),
               dict(n=2, maxM=1, pos="first")]
CRASH_THOROUGH = [dict(n=2, maxM=2, pos=p) for p in ("first", "between", "after")] + [dict(n=3, maxM=1, pos="between")]


@harness("C06", bounds="standard stack main(reverse-at-EOL) / database with a failing interface F placed first, "
                       "between or after them and a second plain interface P on the other side of the database; "
                       "1..2 cycles x 0..1 steps (symbolic); F raises at its k-th hook call, k symbolic over every "
                       "call it receives (and beyond = no failure); F reverse-at-EOL and syncDbAfterWrite symbolic; "
                       "tight coupling symbolic (cap 2, F coupled with symbolic convergence answers)", stubs=STUBS, max_paths=40000,
         raises=(), instances={"quick": CRASH_QUICK, "thorough": CRASH_THOROUGH})
def aborted_run_leaves_completed_nodes_plus_error_state(ctx, n, maxM, pos):
    _install()
    ms = [pick(ctx.int("m%d" % i, 0, maxM), 0, maxM) for i in range(n)]
    coupling = flag(ctx.bool("tightCoupling"))
    revF = flag(ctx.bool("reverseAtEOL_F"))
    sync = flag(ctx.bool("syncDbAfterWrite"))
    cap = 2
    calls = 2 + sum(2 + (m + 1) * (1 + (cap if coupling else 0)) for m in ms)   # most hook calls F can receive
    k = ctx.int("k", 0, 2 + n * (2 + (maxM + 1) * (1 + cap)))
    ctx.assume(k <= calls)                                                          # k == calls: no failure
    k = pick(k, 0, calls)
    answers = [ctx.bool("conv%d" % j) for j in range(n * (maxM + 1) * cap)]
    # cycles exempt from coupled iterations (their nodes must still be written)
    skip = [c for c in range(n) if flag(ctx.bool("skipCycle%d" % c))] if n <= 2 else []
    F = IfaceSpec("F", reverse=revF, coupled=coupling)
    P = IfaceSpec("P")
    main, db = IfaceSpec("main", reverse=True), IfaceSpec("database", isDb=True)
    specs = {"first": [F, main, P, db], "between": [main, F, db, P], "after": [main, P, db, F]}[pos]
    cs = UT.mk_cs(nCycles=n, cycles=_cycles(ms), power=1.0e6, burnSteps=None, tightCoupling=coupling,
                  tightCouplingMaxNumIters=cap, tightCouplingSettings={"f_F": {"parameter": "keff", "convergence": 0.5}},
                  cyclesSkipTightCouplingInteraction=skip, db=True, syncDbAfterWrite=sync)
    o, r, log = _build(cs, (0, 0), specs, fail="F", k=k, answers=answers)
    raised = False
    try:
        with o:
            o.operate()
    except InjectedFailure:
        raised = True
    ref = reference_events(ms, (0, 0), specs, coupling=coupling, maxIters=cap, answers=answers, skipCycles=skip)
    cut, writes, opened, finalised, at = _expected(ref, "F", k, coupling)
    failed = at is not None
    ctx.check("the injected failure aborts the run (and only then)", raised == failed)
    ctx.check("hook calls up to the failure follow the reference schedule",
              [e[:5] for e in log if e[0] not in ("FAIL", "Error")] == [e for e in cut if e[1] in ("F", "P")])
    final = FS.get(_key(CASE + ".h5"))
    scratch = [p for p in FS if p != _key(CASE + ".h5")]
    if not opened:
        ctx.check("a failure before the database is opened leaves no file", final is None and not scratch)
        return
    ctx.check("the file is in the working directory and nothing is left in the scratch path",
              final is not None and not scratch)
    if final is None:
        return
    ctx.check("the file is closed", not final.isopen)
    got = [(g, final.groups[g].data.get("layout")) for g in _time_groups(final)]
    want = list(writes)
    if failed and not finalised:
        want.append((_name(at[0], at[1], "error"), at))
    if ctx.canary and failed and k == 3 and revF and want:
        want = want[:-1]
    ctx.check("snapshots: every node completed before the failure, once, in order, then the state at the failure "
              "(completed run: every node, then the end-of-life state)", [g for g, _ in got] == [g for g, _ in want])
    ctx.check("each snapshot holds the state as of its write", got == want)
    if not finalised:
        ctx.check("marked successful iff the run completed", final.attrs.get("successfulCompletion") is (not failed))
        ctx.check("an aborted run is marked as not successfully completed",
                  final.attrs.get("successfulCompletion") is False if failed else True)
    if not failed:
        ctx.check("a completed run holds every node plus the end-of-life state",
                  [g for g, _ in got] == [_name(c, j) for c in range(n) for j in range(ms[c] + 1)] +
                  [_name(n - 1, ms[-1], "EOL")])
        ctx.check("a completed run is marked successful", final.attrs.get("successfulCompletion") is True)
    listed = _listing(CASE + ".h5")
    ctx.check("the file opens and lists exactly the written snapshots in chronological order",
              listed == [(m[0], m[1]) for _, m in want])


# ---------------------------------------------------------------------------------------------------------------

@harness("C06", bounds="stack main / P / database, 1..2 cycles x 0..1 steps, db setting (database interface "
                       "enabled) and tight coupling symbolic, no failure", stubs=STUBS,
         instances={"quick": [dict(n=2, maxM=1)], "thorough": [dict(n=3, maxM=2)]})
def disabled_database_writes_nothing_and_run_completes(ctx, n, maxM):
    _install()
    ms = [pick(ctx.int("m%d" % i, 0, maxM), 0, maxM) for i in range(n)]
    coupling = flag(ctx.bool("tightCoupling"))
    dbOn = flag(ctx.bool("db"))
    if KNOWN_DEFECT_coupling_with_db_disabled:
        ctx.assume(dbOn or not coupling)
    specs = [IfaceSpec("main", reverse=True), IfaceSpec("P"), IfaceSpec("database", isDb=True, enabled=dbOn)]
    cs = UT.mk_cs(nCycles=n, cycles=_cycles(ms), power=1.0e6, burnSteps=None, tightCoupling=coupling,
                  tightCouplingMaxNumIters=2, db=dbOn, syncDbAfterWrite=flag(ctx.bool("syncDbAfterWrite")))
    o, r, log = _build(cs, (0, 0), specs)
    with o:
        o.operate()
    want = [e for e in reference_schedule(ms, (0, 0), specs, coupling=coupling, maxIters=2) if e[1] == "P"]
    ctx.check("the run visits every node", [e[:5] for e in log] == want)
    final = FS.get(_key(CASE + ".h5"))
    nodes = [_name(c, j) for c in range(n) for j in range(ms[c] + 1)]
    if ctx.canary and dbOn and coupling and ms[0] == maxM:
        nodes = nodes[1:]
    if dbOn:
        ctx.check("database on: every node plus end-of-life, marked successful",
                  final is not None and _time_groups(final) == nodes + [_name(n - 1, ms[-1], "EOL")]
                  and final.attrs.get("successfulCompletion") is True and not final.isopen)
    else:
        ctx.check("database off: no file", not FS)


# ---------------------------------------------------------------------------------------------------------------

RESTART_QUICK = [dict(n=2, maxM=1, tail=""), dict(n=2, maxM=2, tail="EOL"), dict(n=3, maxM=1, tail="error"),
                 dict(n=2, maxM=1, tail="errorOnly")]
RESTART_THOROUGH = [dict(n=3, maxM=2, tail=t) for t in ("", "EOL", "error", "errorOnly")] + \
                   [dict(n=4, maxM=2, tail="EOL")]


@harness("C06", bounds="restart (loadStyle fromDB) of a 1..3-cycle x 0..2-step history at a symbolic (startCycle, "
                       "startNode) != (0,0); the reload file holds every node from (0,0) to a symbolic end point at "
                       "or after the start, optionally followed (or, for the end point, replaced) by an EOL/error-labelled snapshot of the end point; "
                       "one step length of the reload case's history differs at a symbolic position (never, before "
                       "or after the restart point)", stubs=STUBS, max_paths=40000, raises=(),
         instances={"quick": RESTART_QUICK, "thorough": RESTART_THOROUGH})
def restart_copies_exactly_the_steps_before_the_start(ctx, n, maxM, tail):
    _install()
    ms = [pick(ctx.int("m%d" % i, 0, maxM), 0, maxM) for i in range(n)]
    order = [(c, j) for c in range(n) for j in range(ms[c] + 1)]
    si = ctx.int("startIndex", 1, n * (maxM + 1) - 1)     # position of the start in run order
    ei = ctx.int("endIndex", 1, n * (maxM + 1) - 1)       # last node held by the reload file
    di = ctx.int("differingStep", -1, n * maxM - 1)       # -1: identical histories
    ctx.assume(AND(si <= ei, ei <= len(order) - 1))
    si, ei = pick(si, 1, len(order) - 1), pick(ei, 1, len(order) - 1)
    sc, sn = order[si]
    # the reload case's history: same steps, except (optionally) one whose length differs
    steps = [(c, j) for c in range(n) for j in range(ms[c])]
    ctx.assume(di <= len(steps) - 1)
    di = pick(di, -1, len(steps) - 1)
    pc_, pn_ = order[si - 1]                                                   # the step the state is loaded from
    if di >= 0:
        dc, dj = steps[di]
        ctx.assume((dc, dj) != (pc_, pn_))     # the step leading into the start node: not decided by the text
        differsBefore = (dc, dj) < (pc_, pn_)
    else:
        differsBefore = False
    oldCycles = _cycles(ms)
    if di >= 0:
        oldCycles[dc]["step days"][dj] += 0.5
    cs = UT.mk_cs(nCycles=n, cycles=_cycles(ms), power=1.0e6, burnSteps=None, db=True, loadStyle="fromDB",
                  reloadDBName="reload.h5", startCycle=sc, startNode=sn)
    oldCs = UT.mk_cs(nCycles=n, cycles=oldCycles, power=1.0e6, burnSteps=None)
    specs = [IfaceSpec("main", reverse=True), IfaceSpec("P"), IfaceSpec("database", isDb=True)]
    o, r, log = _build(cs, (0, 0), specs)
    # the reload file, as a previous run left it
    old = FakeFile(_key("reload.h5"))
    old.attrs.update(databaseVersion="3.4", successfulCompletion=(tail == "EOL"))
    old["inputs/settings"] = "settings of the first run"
    held = order[:ei + 1]
    for j, (c, k) in enumerate(held):
        if tail == "errorOnly" and j == len(held) - 1:
            continue                      # the first run failed before the database hook of its last node
        g = old.create_group(_name(c, k))
        g.data["layout"] = (c, k, "first run", j)
    if tail:
        label = "error" if tail == "errorOnly" else tail
        g = old.create_group(_name(held[-1][0], held[-1][1], label))
        g.data["layout"] = held[-1] + ("first run", label)
    old.close()
    old.closes = 0
    FS[_key("reload.h5")] = old
    STATE["cs_of"][_key("reload.h5")] = oldCs
    before = {g: (dict(v.attrs), dict(v.data)) for g, v in old.groups.items()}

    refused = False
    try:
        with o:
            o.operate()
    except ValueError:
        refused = True
    ctx.check("a reload history that differs before the restart point is refused, any other is accepted",
              refused == differsBefore)
    ctx.check("the reload file is left closed and unchanged",
              (not old.isopen) and {g: (dict(v.attrs), dict(v.data)) for g, v in old.groups.items()} == before)
    if refused:
        return
    ctx.check("the state is loaded once, from the node just before the start, out of the merged (still open) file",
              STATE["loads"] == [(_key(CASE + ".h5"), pc_, pn_, "", True)])
    final = FS.get(_key(CASE + ".h5"))
    ctx.check("the new file ends up closed in the working directory, marked successful",
              final is not None and not final.isopen and final.attrs.get("successfulCompletion") is True)
    if final is None:
        return
    copied = [g for g in _time_groups(final) if final.groups[g].data["layout"][2:3] == ("first run",)]
    want = [_name(c, k) for (c, k) in order[:si]]
    if ctx.canary and si == 2 and ei == len(order) - 1:
        want = want[:-1]
    ctx.check("exactly the steps strictly before (startCycle, startNode) are copied, in order", copied == want)
    ctx.check("... unchanged", all(final.groups[g].data == old.groups[g].data and final.groups[g].attrs ==
                                   old.groups[g].attrs for g in copied))
    ctx.check("the restarted run adds every node from the start on plus the end-of-life state, none twice",
              _time_groups(final) == [_name(c, k) for (c, k) in order] + [_name(n - 1, ms[-1], "EOL")])
    ev = [e[:5] for e in log]
    wantEv = [e for e in reference_schedule(ms, (sc, sn), specs) if e[1] == "P"]
    if sn == 0:
        # the state loaded is the last node of the previous cycle, before its end-of-cycle hooks: they run first
        wantEv.insert(0, ("EOC", "P", (pc_,), pc_, pn_))
    ctx.check("the run continues at (startCycle, startNode) and visits every later node once", ev == wantEv)


# ---------------------------------------------------------------------------------------------------------------

@harness("C06", bounds="Database context manager nested 1..3 deep on a file that was / was not opened before; an "
                       "exception raised at a symbolic nesting level (or none)", stubs=STUBS,
         instances={"quick": [dict(preopened=True), dict(preopened=False)]})
def nested_contexts_close_only_at_the_end_or_on_error(ctx, preopened):
    _install()
    FS.clear()
    STATE.update(log=[], loads=[], cs_of={})
    depth = pick(ctx.int("depth", 1, 3), 1, 3)
    failLevel = ctx.int("failLevel", 0, 3)                  # 0: no exception
    ctx.assume(failLevel <= depth)
    failLevel = pick(failLevel, 0, depth)
    db = _DONE[0](CASE + ".h5", "w")
    if preopened:
        db.open()
    r = UT.mk_reactor(0, 0)
    seen = []

    def nest(level):
        with db:
            seen.append(("in", level, db.isOpen()))
            if level == failLevel:
                raise InjectedFailure("level %d" % level)
            if level < depth:
                nest(level + 1)
            seen.append(("back", level, db.isOpen()))
            r.p.timeNode = level
            db.writeToDB(r)                                  # still writable after an inner context was left

    raised = False
    try:
        nest(1)
    except InjectedFailure:
        raised = True
    ctx.check("the exception propagates", raised == (failLevel > 0))
    ctx.check("the file is open inside every context and stays open when an inner context is left normally",
              all(e[2] for e in seen))
    final = FS.get(_key(CASE + ".h5"))
    wantOpen = preopened and not raised
    if ctx.canary and depth == 3 and failLevel == 2:
        wantOpen = True
    ctx.check("left open iff it was open before and nothing failed", db.isOpen() == wantOpen)
    if wantOpen:
        ctx.check("an open file is still in the scratch path, flagged unfinished",
                  final is None and len(FS) == 1 and list(FS.values())[0].attrs["successfulCompletion"] is False)
        db.close(True)
        final = FS.get(_key(CASE + ".h5"))
    ctx.check("once closed the file is in the working directory, marked successful iff nothing failed",
              final is not None and len(FS) == 1 and not final.isopen
              and final.attrs["successfulCompletion"] is (not raised))
    written = [] if final is None else _time_groups(final)
    ctx.check("snapshots written before the failure are kept",
              written == [_name(0, lv) for lv in range(depth, 0, -1)] if not raised else written == [])
