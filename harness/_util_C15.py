"""Shared driver for C15 (schedule) and C06 (crash points): a real ``Operator`` without case I/O, recording
interfaces, and an independent reference schedule written from the property text.
"""
import contextlib
import types

from symx import core, shims

# ---------------------------------------------------------------------------------------------------------------
# concretisation helpers


def pick(x, lo, hi):
    """Concretise a bounded Int by a fixed-order scan (fork per value); identity on plain ints."""
    if not core.is_sym(x):
        return int(x)
    for v in range(lo, hi + 1):
        if bool(x == v):
            return v
    raise core.Infeasible()


def flag(x):
    """Concretise a Bool (fork)."""
    return True if x else False


# ---------------------------------------------------------------------------------------------------------------
# operator without case I/O

_INSTALLED = []
_BASE = {}


class _NullTimer:
    def getTimer(self, name):
        return contextlib.nullcontext()


class _QuietReporting:
    """operator.reportingUtils stand-in: the calls the run loop makes only print tables to the log."""

    @staticmethod
    def writeTightCouplingConvergenceSummary(summary):
        return None

    @staticmethod
    def writeWelcomeHeaders(o, cs):
        return None

    @staticmethod
    def getInterfaceStackSummary(o):
        return ""


class _QuietLog:
    """operator.runLog stand-in (headers are printed whatever the verbosity)."""

    def __getattr__(self, name):
        return self

    def __call__(self, *a, **k):
        return None


STUBS = ["Operator built with object.__new__ + the attribute initialisation of Operator.__init__ (no log file, "
         "no welcome headers, no FAST_PATH directory)",
         "operator.reportingUtils, operator.runLog -> no-op (log output only); Operator.timer -> null timer",
         "utils.mathematics.float -> identity on proxies",
         "cs -> dict subclass pre-filled with the default value of every registered setting (real Settings() "
         "defaults) plus .caseTitle; symbolic values are put in by key",
         "reactor -> namespace stub holding r.p.{cycle,timeNode,time,cycleLength,availabilityFactor,capacityFactor,"
         "stepLength}, r.core.p.{coupledIteration,power,minutesSinceStart}, r.core.getHMMass()"]


class CS(dict):
    caseTitle = "symxcase"

    def modified(self, caseTitle=None, newSettings=None):
        c = CS(self)
        c.update(newSettings or {})
        return c


def install():
    """Idempotent, called at harness run time (not import time) so that other harness files of the same property
    loaded in the same process are unaffected until one of these harnesses actually runs."""
    if _INSTALLED:
        return
    import armi.operators.operator as opmod
    from armi import settings

    import armi.utils.mathematics as mathmod

    shims.patch(opmod, reportingUtils=_QuietReporting, runLog=_QuietLog())
    shims.patch(mathmod, float=shims.float_shim)
    cs = settings.Settings()
    for k in cs.keys():
        _BASE[k] = cs[k]
    _INSTALLED.append(True)


def mk_cs(**kw):
    install()
    cs = CS(_BASE)
    cs.update(kw)
    return cs


def mk_reactor(startCycle=0, startNode=0):
    ns = types.SimpleNamespace
    core_ = ns(p=ns(coupledIteration=0, power=None, minutesSinceStart=0.0), timeOfStart=0.0, getHMMass=lambda: 1.0)
    return ns(p=ns(cycle=startCycle, timeNode=startNode, time=0.0, cycleLength=None, availabilityFactor=None,
                   capacityFactor=None, stepLength=None), core=core_, o=None)


def mk_operator(cs, r):
    install()
    from armi.operators.operator import Operator

    o = object.__new__(Operator)
    # -- the state Operator.__init__ sets up
    o.r = r
    o.cs = cs
    o.timer = _NullTimer()
    o.interfaces = []
    o.restartData = []
    o.loadedRestartData = []
    o._cycleNames = None
    o._stepLengths = None
    o._cycleLengths = None
    o._burnSteps = None
    o._maxBurnSteps = None
    o._powerFractions = None
    o._availabilityFactors = None
    o._convergenceSummary = None
    r.o = o
    return o


# ---------------------------------------------------------------------------------------------------------------
# recording interfaces


class InjectedFailure(Exception):
    pass


def _iface_base():
    from armi import interfaces

    return interfaces.Interface


_REC_CLS = []


def recorder_class():
    """Recording Interface subclass (created lazily so that armi is imported/configured first)."""
    if _REC_CLS:
        return _REC_CLS[0]
    Interface = _iface_base()

    class Recorder(Interface):
        """Every hook appends (event, name, args, r.p.cycle, r.p.timeNode, extra) to the shared log."""

        name = None

        def __init__(self, r, cs, log, name, function=None, haltCycle=None, convPool=None, failAt=None,
                     counter=None, extra=None, haltValue=True, idleValue=False, restartAt=None, selfOff=False):
            self.name = name
            self.function = function
            Interface.__init__(self, r, cs)
            if selfOff:
                # an interface that finds nothing to do for this case switches itself off in its constructor,
                # before the operator ever sees it
                self.enabled(False)
            self.log = log
            self.haltCycle = haltCycle
            self.convPool = convPool      # shared [list of answers, next index]
            self.value = 0.0              # the quantity the coupler watches
            self.failAt = failAt          # global hook-call index at which this interface raises
            self.counter = counter        # shared [n] hook-call counter (all recorders of the stack)
            self.extra = extra            # callable(r) -> tuple recorded with every event
            self.haltValue = haltValue    # the object interactBOC returns in its halt cycle (any type)
            self.idleValue = idleValue    # the object interactBOC returns in every other cycle (any type)
            self.restartAt = restartAt    # (cycle, node) this interface positions the reactor at while handling BOL

        def _rec(self, event, *args):
            if self.counter is not None:
                k = self.counter[0]
                self.counter[0] += 1
                if self.failAt is not None and k == self.failAt:
                    self.log.append(("FAIL", self.name, event, self.r.p.cycle, self.r.p.timeNode))
                    raise InjectedFailure("%s at %s" % (self.name, event))
            ex = self.extra(self.r) if self.extra else ()
            self.log.append((event, self.name, tuple(args), self.r.p.cycle, self.r.p.timeNode) + tuple(ex))

        def interactBOL(self):
            Interface.interactBOL(self)
            self._rec("BOL")
            if self.restartAt is not None:
                # what MainInterface.interactBOL does for loadStyle=fromDB: the restart point is established here
                self.r.p.cycle, self.r.p.timeNode = self.restartAt

        def interactBOC(self, cycle=None):
            self._rec("BOC", cycle)
            if self.haltCycle is not None and cycle == self.haltCycle:
                return self.haltValue
            return self.idleValue

        def interactEveryNode(self, cycle, node):
            self._rec("EveryNode", cycle, node)

        def interactCoupled(self, iteration):
            self._rec("Coupled", iteration)
            if self.coupler is not None:
                answers, nxt = self.convPool
                ans = answers[nxt[0]]
                nxt[0] += 1
                if not ans:                       # symbolic Bool: forks here
                    self.value = self.value + 1.0  # moved by more than the tolerance: not converged

        def getTightCouplingValue(self):
            return self.value

        def interactEOC(self, cycle=None):
            self._rec("EOC", cycle)

        def interactEOL(self):
            self._rec("EOL")

        def interactError(self):
            self.log.append(("Error", self.name))

    _REC_CLS.append(Recorder)
    return Recorder


def db_recorder_class():
    """Recorder that also stands in for the database interface's extra entry point used by the coupling loop."""
    Recorder = recorder_class()

    class DbRecorder(Recorder):
        def writeDBEveryNode(self):
            self.log.append(("writeDB", self.name, (), self.r.p.cycle, self.r.p.timeNode))

    return DbRecorder


# ---------------------------------------------------------------------------------------------------------------
# reference schedule (from the property text, independent of operator.py)


class IfaceSpec:
    def __init__(self, name, enabled=True, bolForce=False, reverse=False, deferred=False, haltCycle=None,
                 coupled=False, isDb=False, haltValue=True, idleValue=False, haltRequested=True,
                 restartAt=None, selfOff=False):
        self.name = name
        self.enabled = enabled               # the `enabled` argument of addInterface
        self.selfOff = selfOff               # the interface switched itself off before it was attached
        self.bolForce = bolForce
        self.reverse = reverse
        self.deferred = deferred
        self.haltCycle = haltCycle
        self.coupled = coupled
        self.isDb = isDb
        self.haltValue = haltValue           # object the beginning-of-cycle hook returns in its halt cycle
        self.idleValue = idleValue           # ... and in every other cycle (must not ask for a halt)
        self.haltRequested = haltRequested   # False: what the hook returns in its halt cycle does not ask for a halt
        self.restartAt = restartAt           # (cycle, node) the interface moves the reactor to while handling BOL


def _active(specs, event, cycle, deferredCycle):
    out = []
    for s in specs:
        # enabled = the interface's own state AND the `enabled` argument it was attached with: attaching never switches
        # an interface on that had switched itself off (addInterface: "enabled: If false, will disable")
        on = (s.enabled and not s.selfOff) or (event == "BOL" and s.bolForce)
        # deferred interfaces sit out beginning-of-life and the beginning-of-cycle of every cycle before
        # `deferredInterfacesCycle` (the meaning pinned by armi's own test_getActiveInterfaces)
        if s.deferred and (event == "BOL" or (event == "BOC" and cycle < deferredCycle)):
            on = False
        if on:
            out.append(s)
    if event == "EOL":
        out = [s for s in out if not s.reverse] + [s for s in reversed(out) if s.reverse]
    return out


def reference_events(ms, start, specs, deferredCycle=0, coupling=False, maxIters=1, skipCycles=(), answers=(),
                     haltStopsEvent=False):
    """Generator of the events (event, iface, args, cycle, node) of a standard run, in order.

    ms: burn steps per cycle; start: (cycle, node) the reactor is at when the run begins (an interface with
    ``restartAt`` moves it during beginning-of-life); answers: convergence answers in call order (consumed lazily, so
    a consumer that stops early never looks at later answers).
    haltStopsEvent=True models the observed behaviour that a halt request suppresses the rest of that event
    (only used behind the KNOWN_DEFECT flag)."""
    sc, sn = start
    nxt = 0
    for s in _active(specs, "BOL", sc, deferredCycle):
        yield ("BOL", s.name, (), sc, sn)
        if s.restartAt is not None:
            # the restart point established during beginning-of-life is where the run starts (and what every later
            # hook sees)
            sc, sn = s.restartAt
    cyc, node = sc, sn
    for c in range(sc, len(ms)):
        first = sn if c == sc else 0
        cyc, node = c, first
        halt = False
        for s in _active(specs, "BOC", c, deferredCycle):
            if halt and haltStopsEvent:
                continue
            yield ("BOC", s.name, (c,), c, first)
            if s.haltCycle is not None and s.haltCycle == c and s.haltRequested:
                halt = True
        if halt:
            break
        for n in range(first, ms[c] + 1):
            node = n
            for s in _active(specs, "EveryNode", c, deferredCycle):
                yield ("EveryNode", s.name, (c, n), c, n)
            if coupling:
                if c not in skipCycles:
                    for it in range(maxIters):
                        allConv = True
                        for s in _active(specs, "Coupled", c, deferredCycle):
                            yield ("Coupled", s.name, (it,), c, n)
                            if s.coupled:
                                a = answers[nxt]
                                nxt += 1
                                if not a:
                                    allConv = False
                        if allConv:
                            break
                for s in specs:
                    if s.isDb:
                        yield ("writeDB", s.name, (), c, n)
        for s in _active(specs, "EOC", c, deferredCycle):
            yield ("EOC", s.name, (c,), c, node)
    for s in _active(specs, "EOL", cyc, deferredCycle):
        yield ("EOL", s.name, (), cyc, node)


def reference_schedule(*a, **kw):
    return list(reference_events(*a, **kw))
