"""C16: retained state is restored exactly; parameter copies are equal and independent; serial numbers; read-only.

Oracle (from the property text, nothing else): take a snapshot of every observed quantity before a scope is entered
(S_entry), just before it is left (S_last) and after it is left (S_after).  Then for every quantity beneath the scope
root  S_after == S_last  if its parameter was named in the keep-set, else  S_after == S_entry ; quantities outside the
scope root are not touched by the exit (S_after == S_last).  Nested scopes are checked at every exit, which is the
last-in first-out statement.  The values are z3 terms moved through pickle / deepcopy by a registry, so the equalities
are discharged by the solver under the path condition; the branch structure (assigned / kept / new == old, the latter
arising inside ``ParameterCollection.restoreBackup``) is enumerated exhaustively by forking.

Scenario dimensions enumerated on top of assigned / kept / scope root: the KIND of value (scalar, array, list, dict
entry, None, and NO value at all: a parameter without default that was never assigned reads as ParameterError from
``p[name]`` and must do so again after the scope); caches that are filled or EMPTY when the scope is opened (both
through ``_setCache`` and through the derived quantity ``Block.getArea()``); in nested scopes the position of every
assignment (before / inside / after the inner scope) independently per quantity, so that "assigned only inside the
inner scope, nothing else touched on that object, kept by both scopes" is one of the enumerated histories.

A keep-set names parameter DEFINITIONS, so it applies to that parameter on every object of the class beneath the scope
root (``kept``) - and NOT to a same-named parameter of another class (power of block and core, kInf of block / assembly /
core, detailedNDens of component / block / assembly ...: ``retain_state_keep_set_names_definitions_not_names``, on a mini
reactor with scopes on reactor / core / assembly / block / component).  Composition is changed through public mutators
far more often than by assigning ``numberDensities``: ``composition_mutators_respect_scopes_and_read_only`` runs every
such mutator of components / blocks in the three situations read-only reactor / scope / scope with keep-set.  Serial numbers: constructors and ``copy.deepcopy`` hand out fresh numbers (inductive step over the
global counter); a pickle round trip deliberately preserves the number (transport of the same object) and is outside
the uniqueness claim; transferring parameters between two live objects (copyParamsFrom / updateParamsFrom) must not make
them share a number.  Read-only: every way a collection offers to change what it reports (attribute, item, update, history
item, deletion).  Not covered: MPI synchronisation, the ``assigned`` bit masks as such (only their effect on the
restored values), materials' state other than their cache.
"""
import copy
import os
import pickle

import numpy

from symx.core import AND, NOT, ITE, is_sym
from symx.engine import harness
from symx import shims

import armi.reactor.components.component as cmod
import armi.reactor.grids.cartesian as cartmod
import armi.reactor.grids.hexagonal as hexmod
import armi.reactor.grids.structuredGrid as sgmod
import armi.reactor.parameters.parameterCollections as pcmod
from armi.reactor import assemblies, blocks, components, composites, grids
from armi.reactor.flags import Flags
from armi.reactor.parameters import NoDefault, ParameterError
from armi.reactor.reactorParameters import makeParametersReadOnly

from harness import _build

shims.patch(cmod, float=shims.float_shim, np=shims.np_shim)
shims.patch(sgmod, np=shims.np_shim)
shims.patch(hexmod, np=shims.np_shim, sqrt=shims.math_shim.sqrt)
shims.patch(cartmod, np=shims.np_shim)

STUBS = ["component.float -> identity on proxies (setTemperature); component.np -> numpy shim (np.isnan(proxy) = False)",
         "structuredGrid.np / hexagonal.np / cartesian.np -> object-array aware numpy shim; hexagonal.sqrt -> algebraic sqrt "
         "(only where a grid pitch is symbolic)"]

# Candidate genuine defects found while writing these harnesses.  The obligations stay in the file; while a flag is
# set the harness only skips the inputs that trigger the defect (ctx.assume / skipped check), so the check is green.
# Run with VERIF_SHOW_KNOWN_DEFECTS=1 to see them reported as violations.  Plain-Python reproductions:
#  link_replaced_in_scope : clad.id linked to fuel.od;  with b.retainState(): clad.setDimension("id", 0.78)
#                           -> afterwards clad.p.id is the NoDefault class (not the link), getDimension raises TypeError
#                           (Component.backUp deletes linked dims before pickling; restoreBackup re-applies only the
#                           links that exist at exit time).
#  kept_array_shape_change: b.p.mgFlux=[1,2]; with b.retainState([b.p.paramDefs["mgFlux"]]): b.p.mgFlux=[1,2,3]
#                           -> ValueError (broadcast) on exit;  [5,5] -> [5] is silently reverted to [5,5]
#                           (ParameterCollection.restoreBackup compares arrays with `(a != b).any()`).
#  readonly_inplace_ndens : after makeParametersReadOnly(r): clad.setNumberDensity("FE", x) raises RuntimeError but the
#                           density HAS changed (updateNumberDensities updates the dict in place before touching
#                           p.assigned).
#  deleted_entry_reads_marker: b.p.flux = 3.0; del b.p["flux"]   (b.p.flux reads the default 0.0, "flux" in b.p is False)
#                           with b.retainState(): pass          (nothing assigned inside)
#                           -> b.p.flux is the NoDefault marker CLASS and "flux" in b.p is True; the same after
#                           copy.deepcopy(b) (__getstate__ writes the marker for a missing entry, __setstate__ stores
#                           it as if it were a value, and the getter of a parameter WITH a default does not test for it).
_HIDE = os.environ.get("VERIF_SHOW_KNOWN_DEFECTS", "") == ""   # set VERIF_SHOW_KNOWN_DEFECTS=1 to see them fail
KNOWN_DEFECT_link_replaced_in_scope = False  # recorded in known_findings.jsonl
KNOWN_DEFECT_kept_array_shape_change = False  # repaired in /repo (fix: commit 9f716d0)
KNOWN_DEFECT_readonly_inplace_ndens = False  # repaired in /repo (fix: commit acabdbc)
KNOWN_DEFECT_deleted_entry_reads_marker = False  # recorded in known_findings.jsonl
#  nested_grid_backup     : g = HexGrid.fromPitch(1.0); b.spatialGrid = g
#                           with b.retainState(): g.changePitch(2.0)
#                                                 with b.retainState(): g.changePitch(3.0)
#                           -> pitch 2.0 after the inner scope (right) and STILL 2.0 after the outer scope (want 1.0):
#                           StructuredGrid.backUp keeps ONE backup (self._backup = ...), the inner scope overwrites the
#                           outer scope's backup (parameters and caches keep a stack; the grid does not).  Same for a
#                           Cartesian grid (widths and offset) and for the axial mesh of an assembly.
KNOWN_DEFECT_nested_grid_backup = False  # repaired in /repo (fix: 73844b2)
#  component_scope_skips_own_material: clad = block[1]; clad.material._setCache("pre", 1.0)
#                           with clad.retainState(): clad.material._setCache("in", 2.0)
#                           -> clad.material.cached still holds "in" afterwards (a scope on the BLOCK drops it):
#                           StateRetainer walks (root, root.iterChildrenWithMaterials(deep=True)), which yields the
#                           materials of the root's DESCENDANTS only; a Component has no children, so its own material
#                           (whose cache holds e.g. 'pseudoDensity') is neither backed up nor restored.
KNOWN_DEFECT_component_scope_skips_own_material = False  # repaired in /repo (fix: ebf73eb)
#  params_from_copies_serial_number: b2.updateParamsFrom(b)  or  b2.copyParamsFrom(b)
#                           -> b2.p.serialNum == b.p.serialNum (both loop over other.p.items(), which includes serialNum):
#                           two live objects share a serial number.
KNOWN_DEFECT_params_from_copies_serial_number = False  # repaired in /repo (fix: 5065998)
#  readonly_history_and_delete: makeParametersReadOnly(r); b.p[("power", 3)] = 7.0 is accepted (the tuple key makes
#                           setattr raise TypeError, __setitem__ then writes self._hist directly) and
#                           del b.p["power"] is accepted and b.p.power reads the default afterwards (__delitem__
#                           goes through delattr, which the read-only switch of __setattr__ does not see).
KNOWN_DEFECT_readonly_history_and_delete = False  # repaired in /repo (fix: 5a2ed94)
#  empty_grid_not_backed_up: g = HexGrid.fromPitch(1.0, numRings=0)  (a grid whose locations are made on demand: none yet)
#                           b.spatialGrid = g
#                           with b.retainState(): g.changePitch(2.0)
#                           -> pitch 2.0 afterwards (want 1.0);  with `g[1, 0, 0]` inside the scope as well (first
#                           location made inside) the exit raises TypeError: cannot unpack non-iterable NoneType.
#                           Composite.backUp / restoreBackup guard the grid with `if self.spatialGrid:` and the truth
#                           value of a grid is len(self._locations): a grid without locations counts as "no grid".
KNOWN_DEFECT_empty_grid_not_backed_up = False  # repaired in /repo (fix: 6561d6b)
#  readonly_copy_params_from: makeParametersReadOnly(r); b.copyParamsFrom(otherBlock)
#                           -> accepted: b.p is REPLACED by a fresh, writeable collection carrying the other block's
#                           values (copyParamsFrom starts with `self.p = other.p.__class__()`), so every value of b
#                           changes and b is writeable again inside a read-only reactor.
KNOWN_DEFECT_readonly_copy_params_from = False  # repaired in /repo (fix: ab68b2a)


# ---------------------------------------------------------------------------
# objects


def mk_block(name="fuel", height=10.0):
    """HexBlock with fuel, clad (inner diameter LINKED to fuel.od) and duct."""
    b = blocks.HexBlock(name, height=height)
    fuel = components.Circle("fuel", "UZr", Tinput=25.0, Thot=600, od=0.76, id=0.0, mult=127.0)
    clad = components.Circle("clad", "HT9", Tinput=25.0, Thot=450, od=0.80, id="fuel.od", mult=127.0)
    duct = components.Hexagon("duct", "HT9", Tinput=25.0, Thot=400, op=16, ip=15.3, mult=1.0)
    for c in (fuel, clad, duct):
        b.add(c)
    clad.resolveLinkedDims({"fuel": fuel})
    b.setType(name)
    return b


def mk_assembly(nblocks=2):
    a = assemblies.HexAssembly("fuel")
    a.spatialGrid = grids.AxialGrid.fromNCells(nblocks)
    a.spatialGrid.armiObject = a
    for _ in range(nblocks):
        a.add(mk_block())
    a.calculateZCoords()
    return a


class View:
    """Names for the objects of one assembly (or of a copy of it / of one of its blocks)."""

    def __init__(self, a=None, b=None):
        self.a = a
        self.b = b if b is not None else a[0]
        self.b1 = a[1] if a is not None and len(a) > 1 else None
        self.fuel, self.clad, self.duct = self.b[0], self.b[1], self.b[2]

    def objects(self):
        out = [self.a] if self.a is not None else []
        for b in (self.a if self.a is not None else [self.b]):
            out.append(b)
            out.extend(list(b))
        return out


class RView(View):
    """Names for the objects of a mini reactor: reactor > core > one assembly > blocks > (fuel, clad, duct)."""

    def __init__(self, nblocks=2):
        self.r, self.core, (a,) = _build.mk_core([(0, 0)], nblocks=nblocks, intercoolant=False)
        View.__init__(self, a)

    def objects(self):
        return [self.r, self.core] + View.objects(self)


def beneath(o, root):
    """is `o` the object `root` or one of its descendants (by the parent chain)?"""
    while o is not None:
        if o is root:
            return True
        o = o.parent
    return False


# ---------------------------------------------------------------------------
# observed quantities ("slots")
#
# init(ctx, v)    : give the quantity a symbolic pre-scope value
# draw(ctx, tag)  : fresh symbolic value(s) for an assignment;  apply(v, x) : assign them through the public API
# read(v)         : tuple of scalars / None describing the current value (what the property talks about)
# pd(v)           : the parameter definition to name in a keep-set (None: not a parameter, never kept)
# level           : the object that owns the quantity: 'a' assembly, 'b' block 0, 'b1' block 1, 'fuel'/'clad'/'duct'
#                   components of block 0 (decides whether it lies beneath a given scope root)


class Slot:
    level = "b"
    exact = True     # values are only moved around (check_eq); else recomputed reals (check_close, scale)
    scale = 1.0
    rare = 123       # canary: a value of the first scalar that the deliberately wrong oracle mishandles
    passive = False  # never assigned directly (side effect of another slot)
    mixed = False    # observes state both of the block and of the assembly
    carrier = True   # may carry the canary (first scalar is a symbolic input)
    grid = False     # observes the geometric state of a grid (backed up by StructuredGrid.backUp)

    def init(self, ctx, v):
        pass

    def draw(self, ctx, tag):
        return None

    def apply(self, v, x):
        pass

    def assign(self, ctx, v, tag):
        self.apply(v, self.draw(ctx, tag))

    def pd(self, v):
        return None


def vec(ctx, name, n, lo, hi):
    return [ctx.real("%s_%d" % (name, i), lo, hi) for i in range(n)]


class ChargeTime(Slot):
    name, level = "a.chargeTime", "a"

    def init(self, ctx, v):
        v.a.p.chargeTime = ctx.real("chargeTime0", -10.0, 1e4)

    def draw(self, ctx, tag):
        return ctx.real("chargeTime" + tag, -10.0, 1e4)

    def apply(self, v, x):
        v.a.p.chargeTime = x

    def read(self, v):
        return (v.a.p.chargeTime,)

    def pd(self, v):
        return v.a.p.paramDefs["chargeTime"]


class Power(Slot):
    name = "b.power"

    def init(self, ctx, v):
        v.b.p.power = ctx.real("power0", 0.0, 1e9)

    def draw(self, ctx, tag):
        return ctx.real("power" + tag, 0.0, 1e9)

    def apply(self, v, x):
        v.b.p.power = x

    def read(self, v):
        return (v.b.p.power,)

    def pd(self, v):
        return v.b.p.paramDefs["power"]


class MgFlux(Slot):
    """array parameter (setter converts to numpy): 2-vector -> 2-vector"""
    name = "b.mgFlux"

    def init(self, ctx, v):
        v.b.p.mgFlux = vec(ctx, "mg0", 2, 0.0, 1e15)

    def draw(self, ctx, tag):
        return vec(ctx, "mg" + tag, 2, 0.0, 1e15)

    def apply(self, v, x):
        v.b.p.mgFlux = list(x)

    def read(self, v):
        x = v.b.p.mgFlux
        return None if x is None else tuple(x)

    def pd(self, v):
        return v.b.p.paramDefs["mgFlux"]


class BuByPin(Slot):
    """plain list parameter (no numpy setter): list -> 2-list"""
    name = "b.percentBuByPin"
    rare = 50

    def init(self, ctx, v):
        v.b.p.percentBuByPin = vec(ctx, "bu0", 2, 0.0, 100.0)

    def draw(self, ctx, tag):
        return vec(ctx, "bu" + tag, 2, 0.0, 100.0)

    def apply(self, v, x):
        v.b.p.percentBuByPin = list(x)

    def read(self, v):
        return tuple(v.b.p.percentBuByPin)

    def pd(self, v):
        return v.b.p.paramDefs["percentBuByPin"]


class LinPow(Slot):
    """array parameter whose pre-scope value is None (the default): None -> 2-vector"""
    name = "b.linPowByPin"

    def draw(self, ctx, tag):
        return vec(ctx, "lp" + tag, 2, 0.0, 1e6)

    def apply(self, v, x):
        v.b.p.linPowByPin = list(x)

    def read(self, v):
        x = v.b.p.linPowByPin
        return None if x is None else tuple(x)

    def pd(self, v):
        return v.b.p.paramDefs["linPowByPin"]


class MgToNone(Slot):
    """array parameter set back to None inside the scope (second block when there is one)"""
    name, level = "b1.mgFlux", "b1"

    def _b(self, v):
        return v.b1 if v.b1 is not None else v.b

    def init(self, ctx, v):
        self._b(v).p.mgFlux = vec(ctx, "mgn0", 2, 0.0, 1e15)

    def apply(self, v, x):
        self._b(v).p.mgFlux = None

    def read(self, v):
        x = self._b(v).p.mgFlux
        return None if x is None else tuple(x)

    def pd(self, v):
        return self._b(v).p.paramDefs["mgFlux"]


class HmBOL(Slot):
    """scalar parameter with default None on a component: None -> number"""
    name, level = "fuel.massHmBOL", "fuel"

    def draw(self, ctx, tag):
        return ctx.real("hm" + tag, 0.0, 1e6)

    def apply(self, v, x):
        v.fuel.p.massHmBOL = x

    def read(self, v):
        return (v.fuel.p.massHmBOL,)

    def pd(self, v):
        return v.fuel.p.paramDefs["massHmBOL"]


class CladNdens(Slot):
    """dict parameter: one entry changed through setNumberDensity (in-place update of the dict)"""
    name, level = "clad.numberDensities", "clad"
    rare = 2.5

    def init(self, ctx, v):
        v.clad.p.numberDensities = {"FE": ctx.real("nFE0", 0.0, 10.0), "CR": ctx.real("nCR0", 0.0, 10.0)}

    def draw(self, ctx, tag):
        return ctx.real("nFE" + tag, 0.0, 10.0)

    def apply(self, v, x):
        v.clad.setNumberDensity("FE", x)

    def read(self, v):
        nd = v.clad.p.numberDensities
        return (nd.get("FE"), nd.get("CR"), len(nd))

    def pd(self, v):
        return v.clad.p.paramDefs["numberDensities"]


class DuctTemp(Slot):
    """component temperature through setTemperature (which also rescales the number densities)"""
    name, level = "duct.temperatureInC", "duct"
    carrier = False   # the canary's rare value (123) lies outside the temperature window

    def draw(self, ctx, tag):
        return ctx.real("T" + tag, 300.0, 700.0)

    def apply(self, v, x):
        v.duct.setTemperature(x)

    def read(self, v):
        return (v.duct.temperatureInC,)

    def pd(self, v):
        return v.duct.p.paramDefs["temperatureInC"]


class DuctNdens(Slot):
    """never assigned directly: side effect of setTemperature on the duct (observed only)"""
    name, level = "duct.numberDensities", "duct"
    exact = False
    passive = True

    def read(self, v):
        return (v.duct.getNumberDensity("FE"), v.duct.getNumberDensity("CR"))


class DuctTempChoice(DuctTemp):
    """as DuctTemp with the new temperature one of two concrete values (so that the rescaled densities are numbers)"""
    name = "duct.temperatureInC (2 values)"
    carrier = False

    def draw(self, ctx, tag):
        return ctx.choice("Tc" + tag, [350.0, 500.0])


class DuctNdensKeepable(DuctNdens):
    name = "duct.numberDensities (keepable)"

    def pd(self, v):
        return v.duct.p.paramDefs["numberDensities"]


class FuelOd(Slot):
    """a dimension another component is linked to; the clad inner diameter must follow through the link"""
    name, level = "fuel.od", "fuel"
    exact = False

    def init(self, ctx, v):
        v.fuel.setDimension("od", ctx.real("od0", 0.5, 0.79))

    def draw(self, ctx, tag):
        return ctx.real("od" + tag, 0.5, 0.79)

    def apply(self, v, x):
        v.fuel.setDimension("od", x)

    def read(self, v):
        return (v.fuel.getDimension("od"), v.clad.getDimension("id"), v.clad.dimensionIsLinked("id"))

    def pd(self, v):
        return v.fuel.p.paramDefs["od"]


class BlockGrid(Slot):
    """pitch of a hex grid owned by the block (not a parameter: always restored)"""
    grid = True
    name = "b.spatialGrid pitch"
    exact = False
    scale = 500.0

    def init(self, ctx, v):
        g = grids.HexGrid.fromPitch(ctx.real("pitch0", 0.1, 100.0), numRings=2)
        g.armiObject = v.b
        v.b.spatialGrid = g

    def draw(self, ctx, tag):
        return ctx.real("pitch" + tag, 0.1, 100.0)

    def apply(self, v, x):
        v.b.spatialGrid.changePitch(x)

    def read(self, v):
        x, y, _z = v.b.spatialGrid.getCoordinates((1, 2, 0))
        return (x, y)


class FreshHexGrid(Slot):
    """pitch of a hex grid that holds NO location object yet when the scope is opened (locations are made on demand by
    ``grid[i, j, k]``; ``fromPitch(numRings=0)`` makes none up front) - `touch`: the first location is made inside the
    scope, after the pitch change.  Not a parameter: always restored."""
    grid = True
    exact = False
    scale = 500.0

    def __init__(self, level, touch):
        self.level, self.touch = level, touch
        self.name = "%s.spatialGrid pitch (no locations yet%s)" % (level, "; first one made inside" if touch else "")
        self.tag = "fresh_%s_" % level

    def init(self, ctx, v):
        o = getattr(v, self.level)
        g = grids.HexGrid.fromPitch(ctx.real(self.tag + "pitch0", 0.1, 100.0), numRings=0)
        assert len(list(g.items())) == 0, "harness precondition: the grid holds no location yet"
        g.armiObject = o
        o.spatialGrid = g

    def draw(self, ctx, tag):
        return ctx.real(self.tag + "pitch" + tag, 0.1, 100.0)

    def apply(self, v, x):
        g = getattr(v, self.level).spatialGrid
        g.changePitch(x)
        if self.touch:
            g[1, 0, 0]

    def read(self, v):
        x, y, _z = getattr(v, self.level).spatialGrid.getCoordinates((1, 2, 0))
        return (x, y)


class CartGrid(Slot):
    """Cartesian grid owned by a block: its whole geometric state (cell widths AND the offset of the origin, which
    scales with the widths) changed through changePitch (not a parameter: always restored).  `offset`: 'centred'
    (zero offset), 'half-cell' (the origin shifted by half a cell: ``isOffset`` layout for an even number of cells
    across) or 'explicit' (any symbolic offset assigned through the ``offset`` property before the scope).
    Observed: the coordinates of the cell at the origin (= the offset) and of another cell."""
    exact = False
    scale = 500.0
    grid = True

    def __init__(self, level, offset):
        self.level, self.offset = level, offset
        self.name = "%s.cartesian grid (%s offset)" % (level, offset)
        self.tag = "cart_%s_" % level

    def init(self, ctx, v):
        o = getattr(v, self.level)
        w0, h0 = ctx.real(self.tag + "w0", 0.1, 100.0), ctx.real(self.tag + "h0", 0.1, 100.0)
        g = grids.CartesianGrid.fromRectangle(w0, h0, numRings=2, isOffset=(self.offset == "half-cell"))
        if self.offset == "explicit":
            g.offset = shims.np_shim.array([ctx.real(self.tag + "ox", -50.0, 50.0), ctx.real(self.tag + "oy", -50.0, 50.0),
                                            0.0])
        g.armiObject = o
        o.spatialGrid = g

    def draw(self, ctx, tag):
        return (ctx.real(self.tag + "w" + tag, 0.1, 100.0), ctx.real(self.tag + "h" + tag, 0.1, 100.0))

    def apply(self, v, x):
        getattr(v, self.level).spatialGrid.changePitch(x[0], x[1])

    def read(self, v):
        g = getattr(v, self.level).spatialGrid
        x0, y0, _z = g.getCoordinates((0, 0, 0))
        x1, y1, _z = g.getCoordinates((1, -2, 0))
        return (x0, y0, x1, y1)


class Axial(Slot):
    """block height + calculateZCoords: block elevations (parameters) and the bounds of the assembly's axial grid"""
    name, level = "a axial mesh", "a"
    mixed = True
    grid = True
    exact = False
    scale = 1000.0

    def draw(self, ctx, tag):
        return ctx.real("height" + tag, 1.0, 400.0)

    def apply(self, v, x):
        v.b.p.height = x
        v.a.calculateZCoords()

    def read(self, v):
        return (v.b.p.height, v.b.p.ztop, v.b1.p.zbottom, v.b1.p.ztop, v.a.spatialGrid.getCoordinates((0, 0, 1))[2],
                v.a.spatialGrid.getCoordinates((0, 0, 0))[2])


class Cache(Slot):
    """values cached on an object (``_setCache`` / ``_getCached``); `filled`: the cache holds an entry when the scope
    is opened, else it is EMPTY at scope entry (``clearCache()``), as on a freshly built reactor"""

    def __init__(self, level="b", filled=True):
        self.level, self.filled = level, filled
        self.name = "%s.cached" % level + ("" if filled else " (empty at entry)")

    def init(self, ctx, v):
        o = getattr(v, self.level)
        if self.filled:
            o._setCache("pre", ctx.real("cache0" + self.level, -1e3, 1e3))
        else:
            o.clearCache()
            assert not o.cached, "harness precondition: cache empty at scope entry"

    def draw(self, ctx, tag):
        return (tag, ctx.real("cachePre" + self.level + tag, -1e3, 1e3),
                ctx.real("cacheIn" + self.level + tag, -1e3, 1e3))

    def apply(self, v, x):
        tag, pre, new = x
        o = getattr(v, self.level)
        o._setCache("pre", pre)
        o._setCache("in" + tag, new)

    def read(self, v):
        o = getattr(v, self.level)
        return (o._getCached("pre"), o._getCached("in1"), o._getCached("in2"), o._getCached("in3"))


class Scalar(Slot):
    """any scalar parameter (with a default) of the object at `level`: number -> number"""

    def __init__(self, level, pname, lo=0.0, hi=1e6):
        self.level, self.pname, self.lo, self.hi = level, pname, lo, hi
        self.name = "%s.%s" % (level, pname)
        self.rare = lo + (hi - lo) / 8

    def init(self, ctx, v):
        getattr(v, self.level).p[self.pname] = ctx.real(self.name + "0", self.lo, self.hi)

    def draw(self, ctx, tag):
        return ctx.real(self.name + tag, self.lo, self.hi)

    def apply(self, v, x):
        getattr(v, self.level).p[self.pname] = x

    def read(self, v):
        return (getattr(v, self.level).p[self.pname],)

    def pd(self, v):
        return getattr(v, self.level).p.paramDefs[self.pname]


class Array(Slot):
    """any array-valued parameter (default None) of the object at `level`: 2-vector -> 2-vector"""

    def __init__(self, level, pname, lo=0.0, hi=1e3):
        self.level, self.pname, self.lo, self.hi = level, pname, lo, hi
        self.name = "%s.%s" % (level, pname)
        self.rare = lo + (hi - lo) / 8

    def init(self, ctx, v):
        getattr(v, self.level).p[self.pname] = shims.np_shim.array(vec(ctx, self.name + "0", 2, self.lo, self.hi))

    def draw(self, ctx, tag):
        return vec(ctx, self.name + tag, 2, self.lo, self.hi)

    def apply(self, v, x):
        getattr(v, self.level).p[self.pname] = shims.np_shim.array(list(x))

    def read(self, v):
        x = getattr(v, self.level).p[self.pname]
        return None if x is None else tuple(x)

    def pd(self, v):
        return getattr(v, self.level).p.paramDefs[self.pname]


class MatCache(Slot):
    """values cached on the MATERIAL of a component (``Material._setCache``; the real materials cache e.g. their
    'pseudoDensity' there): computed inside a scope that covers the component they must not leak out of it"""

    def __init__(self, level):
        self.level = level
        self.name = "%s.material cached" % level

    def init(self, ctx, v):
        getattr(v, self.level).material._setCache("pre", ctx.real("mcache0" + self.level, -1e3, 1e3))

    def draw(self, ctx, tag):
        return (tag, ctx.real("mcachePre" + self.level + tag, -1e3, 1e3),
                ctx.real("mcacheIn" + self.level + tag, -1e3, 1e3))

    def apply(self, v, x):
        tag, pre, new = x
        m = getattr(v, self.level).material
        m._setCache("pre", pre)
        m._setCache("in" + tag, new)

    def read(self, v):
        m = getattr(v, self.level).material
        return (m._getCached("pre"), m._getCached("in1"), m._getCached("in2"), m._getCached("in3"))


def read_param(o, pname):
    """(value, has a value) through the public API: a parameter without a value raises ParameterError when read
    (``p[name]`` / ``p.name``; ``p.get(name)`` gives None), see Parameter's getter."""
    try:
        x = o.p[pname]
    except ParameterError:
        return (None, False)
    return (x, True)


class Unset(Slot):
    """parameter defined WITHOUT a default and never assigned: it has NO value when the scope is opened (reading it
    raises ParameterError); assigned inside the scope it must be without a value again afterwards unless kept"""

    def __init__(self, level, pname, lo=0.0, hi=1e3):
        self.level, self.pname, self.lo, self.hi = level, pname, lo, hi
        self.name = "%s.%s (unset at entry)" % (level, pname)

    def init(self, ctx, v):
        assert read_param(getattr(v, self.level), self.pname) == (None, False), "harness precondition: unset at entry"

    def draw(self, ctx, tag):
        return ctx.real("%s.%s%s" % (self.level, self.pname, tag), self.lo, self.hi)

    def apply(self, v, x):
        getattr(v, self.level).p[self.pname] = x

    def read(self, v):
        return read_param(getattr(v, self.level), self.pname)

    def pd(self, v):
        return getattr(v, self.level).p.paramDefs[self.pname]


class DeletedEntry(Scalar):
    """parameter WITH a default whose entry was removed with ``del p[name]`` before the scope: it reads its default
    and ``name in p`` is False; afterwards it must read the same again unless kept"""

    def __init__(self, level, pname, lo=0.0, hi=1e6):
        Scalar.__init__(self, level, pname, lo, hi)
        self.name += " (entry deleted)"

    def init(self, ctx, v):
        o = getattr(v, self.level)
        o.p[self.pname] = ctx.real(self.name + "0", self.lo, self.hi)
        del o.p[self.pname]

    def read(self, v):
        o = getattr(v, self.level)
        x, has = o.p[self.pname], self.pname in o.p
        if KNOWN_DEFECT_deleted_entry_reads_marker and x is NoDefault:
            x, has = self.pd(v).default, False   # the marker is read as "no entry"
        return (x, has)


SLOTS = {s.name: s for s in (ChargeTime(), Power(), MgFlux(), BuByPin(), LinPow(), MgToNone(), HmBOL(), CladNdens(),
                             DuctTemp(), DuctNdens(), DuctTempChoice(), DuctNdensKeepable(), FuelOd(), BlockGrid(),
                             FreshHexGrid("b", False), FreshHexGrid("b1", True),
                             Axial(), CartGrid("b", "half-cell"), CartGrid("b1", "explicit"), CartGrid("b", "centred"),
                             CartGrid("b1", "half-cell"), Cache(), Cache("b", False), Cache("a", False), Cache("clad", False),
                             Scalar("b", "flux", 0.0, 1e16), Scalar("clad", "percentBu", 0.0, 100.0),
                             Scalar("fuel", "percentBu", 0.0, 100.0), Scalar("a", "dischargeTime", -10.0, 1e4),
                             Unset("fuel", "buRate"),
                             Unset("clad", "zrFrac", 0.0, 1.0), DeletedEntry("b", "flux", 0.0, 1e16),
                             MatCache("clad"), MatCache("fuel"),
                             # parameters whose NAME is defined on several classes of the tree (each class has a
                             # definition of its own; a keep-set names definitions, not names)
                             Scalar("core", "power", 0.0, 1e9),
                             Scalar("core", "kInf", 0.0, 3.0), Scalar("a", "kInf", 0.0, 3.0), Scalar("b", "kInf", 0.0, 3.0),
                             Array("a", "detailedNDens"), Array("b", "detailedNDens"), Array("fuel", "detailedNDens"),
                             Array("duct", "detailedNDens"),
                             Scalar("b", "percentBu", 0.0, 100.0), Scalar("duct", "percentBu", 0.0, 100.0),
                             Scalar("b", "massHmBOL", 0.0, 1e6), Scalar("b", "molesHmBOL", 0.0, 1e6),
                             Scalar("fuel", "molesHmBOL", 0.0, 1e6), Scalar("duct", "molesHmBOL", 0.0, 1e6),
                             Scalar("a", "timeToLimit", 0.0, 1e6), Scalar("b", "timeToLimit", 0.0, 1e6),
                             Scalar("a", "THmassFlowRate", 0.0, 1e3), Scalar("b", "THmassFlowRate", 0.0, 1e3),
                             Scalar("core", "numMoves", 0.0, 1e3), Scalar("a", "numMoves", 0.0, 1e3),
                             Scalar("r", "maxAssemNum", 0.0, 1e4), Scalar("core", "maxAssemNum", 0.0, 1e4),
                             Scalar("core", "powerDecay", 0.0, 1e9), Scalar("a", "powerDecay", 0.0, 1e9),
                             Scalar("b", "puFrac", 0.0, 1.0), Scalar("fuel", "puFrac", 0.0, 1.0),
                             Scalar("core", "rxFuelDopplerConstant", -1.0, 1.0), Scalar("b", "rxFuelDopplerConstant", -1.0, 1.0),
                             Scalar("b", "buRate", 0.0, 1e3))}


def snap(v, slots):
    return {s.name: s.read(v) for s in slots}


def same_value(ctx, what, slot, got, want, canary_hit=None):
    """got == want for two snapshots of one slot (None-ness, length and every scalar)."""
    if got is None or want is None:
        ctx.check(what + " [None-ness]", got is None and want is None)
        return
    ctx.check(what + " [length]", len(got) == len(want))
    for k, (g, w) in enumerate(zip(got, want)):
        nm = "%s [%d]" % (what, k)
        if g is None or w is None or isinstance(g, bool) or isinstance(w, bool):
            ctx.check(nm, (g is None and w is None) if (g is None or w is None) else g == w)
            continue
        if canary_hit is not None and k == 0:
            w = w + ITE(canary_hit, 1, 0)
        if slot.exact:
            ctx.check_eq(nm, g, w)
        else:
            ctx.check_close(nm, g, w, scale=slot.scale)


def under(slot, root):
    """is the slot's object beneath a scope opened on `root` ('a' whole assembly, 'b' block 0, 'clad' component)?"""
    if root == "a":
        return True
    if root == "b":
        return slot.level in ("b", "fuel", "clad", "duct")
    return slot.level == root


def kept(slot, v, keepSet):
    """A keep-set names parameter DEFINITIONS: it applies to that parameter on every object beneath the scope
    root whose class shares the definition (e.g. 'numberDensities' of every component)."""
    pd = slot.pd(v)
    return pd is not None and any(pd is k for k in keepSet)


def serials(v):
    return [o.p.serialNum for o in v.objects()]


# ---------------------------------------------------------------------------
# (1) one scope, keep-set


SINGLE = [
    ("a.chargeTime", "b.power", "b.mgFlux"),
    ("b.linPowByPin", "b1.mgFlux", "fuel.massHmBOL"),
    ("fuel.od", "b.cached", "b.power"),
    ("b.spatialGrid pitch", "a axial mesh", "b.cached"),
    ("clad.numberDensities", "b.mgFlux", "fuel.od"),
    ("b.percentBuByPin", "clad.numberDensities", "a.chargeTime"),
    # no value / empty cache when the scope is opened
    ("fuel.buRate (unset at entry)", "b.cached (empty at entry)", "b.power"),
    ("b.flux (entry deleted)", "clad.zrFrac (unset at entry)", "clad.cached (empty at entry)"),
    # grids other than the centred hex lattice: Cartesian, origin offset from the lattice (the offset scales with the pitch)
    ("b.cartesian grid (half-cell offset)", "b1.cartesian grid (explicit offset)", "b.power"),
    # caches of the materials (a scope on a component covers that component's own material as well)
    ("clad.material cached", "fuel.material cached", "b.power"),
]
if not (KNOWN_DEFECT_empty_grid_not_backed_up and _HIDE):
    # a grid that holds no location object yet when the scope is opened
    SINGLE.append(("b.spatialGrid pitch (no locations yet)", "b1.spatialGrid pitch (no locations yet; first one made inside)",
                   "b.power"))


SINGLE_THOROUGH = [
    ("a.chargeTime", "b.power", "b.mgFlux", "clad.numberDensities"),
    ("b.linPowByPin", "b1.mgFlux", "fuel.massHmBOL", "fuel.od"),
    ("b.percentBuByPin", "b.cached", "b.spatialGrid pitch", "a axial mesh", "b.power"),
    # a symbolic duct temperature together with a keepable numberDensities slot makes the `new == old` test inside
    # restoreBackup a degree-6 rational inequality per nuclide of the duct (the keep-set names the DEFINITION, so it
    # applies to the duct as well): > 50 min.  Split: concrete temperatures with the keepable dict / symbolic
    # temperature without it
    ("fuel.od", "clad.numberDensities", "duct.temperatureInC (2 values)", "b.power"),
    ("b.power", "fuel.od", "duct.temperatureInC", "a.chargeTime"),
    ("b.cartesian grid (centred offset)", "b1.cartesian grid (half-cell offset)", "b.cached", "a.chargeTime"),
    ("fuel.buRate (unset at entry)", "clad.zrFrac (unset at entry)", "a.cached (empty at entry)", "b.cached (empty at entry)"),
]


@harness("C16", bounds="assembly of 2 blocks x (fuel, clad with linked id, duct); per instance 3 observed quantities "
                       "(scalar / array / None / dict entry / temperature / linked dimension / grid pitch / axial "
                       "mesh / cache filled or EMPTY at scope entry / parameter WITHOUT a value at scope entry: no "
                       "default and never assigned, or entry deleted): old and new values symbolic reals in physical windows; booleans: assigned in "
                       "the scope, named in the keep-set, scope opened on the assembly, the block or the clad component; new == old "
                       "arises as a branch of the real code", stubs=STUBS,
         instances={"quick": [dict(names=list(n)) for n in SINGLE],
                    "thorough": [dict(names=list(n)) for n in SINGLE + SINGLE_THOROUGH]}, max_paths=6000)
def retain_state_single_scope(ctx, names):
    _single_scope(ctx, names)


@harness("C16", bounds="as retain_state_single_scope with the duct temperature changed through setTemperature(T), T "
                       "symbolic in [300, 700] C (HT9 expansion polynomial: the rescaled number densities are "
                       "rational functions of T), observed: temperature, the duct's number densities, block power",
         stubs=STUBS,
         outside=["keeping the duct's numberDensities while T is symbolic (the new == old test inside restoreBackup "
                  "becomes a degree-6 rational inequality per nuclide that z3 answers in ~10 s each): covered with "
                  "two concrete temperatures instead (second instance)"],
         instances={"quick": [dict(names=["b.power", "duct.temperatureInC", "duct.numberDensities"]),
                              dict(names=["duct.temperatureInC (2 values)", "duct.numberDensities (keepable)",
                                          "clad.numberDensities"])]})
def retain_state_component_temperature(ctx, names):
    _single_scope(ctx, names)


ROOTS = ("a", "b", "clad")
ROOTS_REACTOR = ("r", "core", "a", "b", "fuel")


def _single_scope(ctx, names, reactor=False):
    slots = [SLOTS[n] for n in names]
    if reactor:
        v = RView(2)
        roots = ROOTS_REACTOR
        rootName = "scope root (0 reactor, 1 core, 2 assembly, 3 block, 4 fuel component)"
    else:
        v = View(mk_assembly(2))
        roots = ROOTS
        rootName = "scope root (0 assembly, 1 block, 2 clad component)"
    for s in slots:
        s.init(ctx, v)
    asg = {s.name: (ctx.bool("assign " + s.name) if not s.passive else False) for s in slots}
    keep = {s.name: (ctx.bool("keep " + s.name) if s.pd(v) is not None else False) for s in slots}
    rootSym = ctx.int(rootName, 0, len(roots) - 1)
    new = {s.name: s.draw(ctx, "1") for s in slots}
    keep = {k: bool(x) for k, x in keep.items()}
    root = roots[int(rootSym)]
    rootObj = getattr(v, root)
    keepSet = [s.pd(v) for s in slots if keep[s.name]]
    ser0 = serials(v)
    s0 = snap(v, slots)
    with rootObj.retainState(keepSet):
        for s in slots:
            if asg[s.name]:
                s.apply(v, new[s.name])
        s1 = snap(v, slots)
    s2 = snap(v, slots)
    carrier = [s for s in slots if s.exact and s.carrier][0]
    for s in slots:
        hit = None
        if ctx.canary and s is carrier and s1[s.name] is not None and s1[s.name][0] is not None:
            # deliberately wrong oracle, only where the value at scope end is exactly `rare`
            hit = s1[s.name][0] == s.rare
        if s.mixed and root != "a":
            continue   # touches parameters of the block and state of the assembly: only meaningful for root 'a'
        if isinstance(s, MatCache) and KNOWN_DEFECT_component_scope_skips_own_material and _HIDE and root == s.level:
            ctx.note("KNOWN_DEFECT_component_scope_skips_own_material: %s not checked for a scope opened on the "
                     "component itself" % s.name)
            continue
        isUnder = beneath(getattr(v, s.level), rootObj) if reactor else under(s, root)
        if not isUnder or kept(s, v, keepSet):
            same_value(ctx, "%s keeps the value it had when the scope ended" % s.name, s, s2[s.name], s1[s.name],
                       canary_hit=hit)
        else:
            same_value(ctx, "%s is back at its pre-scope value" % s.name, s, s2[s.name], s0[s.name], canary_hit=hit)
    ctx.check("serial numbers are untouched by a scope", all(bool(x == y) for x, y in zip(serials(v), ser0)))


# A keep-set names parameter DEFINITIONS.  Many parameter NAMES are defined on several classes of the tree (power: block
# and core; kInf: block, assembly and core; detailedNDens: component, block and assembly; percentBu, massHmBOL, buRate:
# block and component; ...), each class with a definition of its own.  Keeping the definition of ONE class must not keep
# the same-named parameter of another class beneath the scope: per instance the same-named parameters of 2-3 levels,
# each independently assigned / named in the keep-set.
SAME_NAME = [
    ("core.power", "b.power"),
    ("core.kInf", "a.kInf", "b.kInf"),
    ("b.detailedNDens", "fuel.detailedNDens"),
    ("b.percentBu", "fuel.percentBu", "duct.percentBu"),
]
SAME_NAME_THOROUGH = [
    ("a.detailedNDens", "b.detailedNDens", "fuel.detailedNDens"),
    ("b.massHmBOL", "fuel.massHmBOL"),
    ("b.buRate", "fuel.buRate (unset at entry)"),
    ("b.molesHmBOL", "fuel.molesHmBOL", "duct.molesHmBOL"),
    ("b.detailedNDens", "fuel.detailedNDens", "duct.detailedNDens"),
    ("a.timeToLimit", "b.timeToLimit"),
    ("a.THmassFlowRate", "b.THmassFlowRate"),
    ("core.numMoves", "a.numMoves"),
    ("r.maxAssemNum", "core.maxAssemNum"),
    ("core.powerDecay", "a.powerDecay"),
    ("b.puFrac", "fuel.puFrac"),
    ("core.rxFuelDopplerConstant", "b.rxFuelDopplerConstant"),
]


@harness("C16", bounds="mini reactor (reactor > core > assembly > 2 blocks x (fuel, clad, duct)); per instance ONE parameter "
                       "NAME that is defined on 2-3 classes of the tree (core / assembly / block / component), observed "
                       "on an object of each of these classes; symbolic booleans per level: assigned in the scope, ITS "
                       "definition named in the keep-set; scope opened on the reactor, the core, the assembly, the block "
                       "or the fuel component (symbolic); old and new values symbolic reals (scalars and 2-vectors)",
         stubs=STUBS,
         instances={"quick": [dict(names=list(n)) for n in SAME_NAME],
                    "thorough": [dict(names=list(n)) for n in SAME_NAME + SAME_NAME_THOROUGH]}, max_paths=6000)
def retain_state_keep_set_names_definitions_not_names(ctx, names):
    _single_scope(ctx, names, reactor=True)


# ---------------------------------------------------------------------------
# (1b) nested scopes unwind last-in first-out


@harness("C16", bounds="outer scope on the assembly, inner scope on the assembly or on the block (symbolic); two "
                       "observed parameters (block power; clad number-density dict); assignments before / inside / "
                       "after the inner scope, the inner one symbolic (forked), the outer pattern per instance; "
                       "inner and outer keep-sets symbolic; every value a fresh symbolic real", stubs=STUBS,
         instances={"quick": [dict(pre=p, post=q) for p in (False, True) for q in (False, True)],
                    "thorough": [dict(pre=p, post=q, names=n) for p in (False, True) for q in (False, True)
                                 for n in (["b.power", "clad.numberDensities", "b.mgFlux"],
                                           ["a.chargeTime", "fuel.massHmBOL", "b.percentBuByPin"])]},
         max_paths=6000)
def retain_state_nested_scopes(ctx, pre, post, names=("b.power", "clad.numberDensities")):
    slots = [SLOTS[n] for n in names]
    a = mk_assembly(2)
    v = View(a)
    for s in slots:
        s.init(ctx, v)
    asgIn = {s.name: ctx.bool("assign inside inner " + s.name) for s in slots}
    kin = {s.name: ctx.bool("inner keeps " + s.name) for s in slots}
    kout = {s.name: ctx.bool("outer keeps " + s.name) for s in slots}
    innerOnBlock = ctx.bool("inner scope on block")
    new = {(t, s.name): s.draw(ctx, t) for t in ("1", "2", "3") for s in slots}
    kin = {k: bool(x) for k, x in kin.items()}
    kout = {k: bool(x) for k, x in kout.items()}
    s0 = snap(v, slots)
    outerSet = [s.pd(v) for s in slots if kout[s.name]]
    innerSet = [s.pd(v) for s in slots if kin[s.name]]
    with v.a.retainState(outerSet):
        if pre:
            for s in slots:
                s.apply(v, new[("1", s.name)])
        s1 = snap(v, slots)
        innerRoot = "b" if innerOnBlock else "a"
        with (v.b if innerRoot == "b" else v.a).retainState(innerSet):
            for s in slots:
                if asgIn[s.name]:
                    s.apply(v, new[("2", s.name)])
            s2 = snap(v, slots)
        s3 = snap(v, slots)
        for s in slots:
            same_value(ctx, "inner exit: %s" % s.name, s, s3[s.name],
                       s2[s.name] if (kept(s, v, innerSet) or not under(s, innerRoot)) else s1[s.name])
        if post:
            for s in slots:
                s.apply(v, new[("3", s.name)])
        s4 = snap(v, slots)
    s5 = snap(v, slots)
    for s in slots:
        hit = None
        if ctx.canary and s is slots[0]:
            hit = AND(s4[s.name][0] == 777, s0[s.name][0] != 777)
        same_value(ctx, "outer exit: %s" % s.name, s, s5[s.name],
                   s4[s.name] if kept(s, v, outerSet) else s0[s.name],
                   canary_hit=hit)


NESTED_KINDS = [   # (kind under test, companion parameter on the SAME object)
    ("b.power", "b.flux"),                               # scalar
    ("b.mgFlux", "b.flux"),                              # array
    ("b.percentBuByPin", "b.flux"),                      # list
    ("b.linPowByPin", "b.flux"),                         # None -> array
    ("clad.numberDensities", "clad.percentBu"),          # dict entry
    ("fuel.massHmBOL", "fuel.percentBu"),                # None -> scalar
    ("fuel.buRate (unset at entry)", "fuel.percentBu"),  # no value -> scalar
    ("b.cached (empty at entry)", "b.flux"),             # cache, empty when the outer scope is opened
    ("b.spatialGrid pitch", "b.flux"),                   # grid pitch (not a parameter: never kept)
]
NESTED_KINDS_THOROUGH = [
    ("b.cartesian grid (half-cell offset)", "b.flux"),   # Cartesian grid: widths and offset
    ("b1.cartesian grid (explicit offset)", "b.flux"),   # ... on the block the inner scope may not cover
    ("a axial mesh", "a.dischargeTime"),                 # bounds of the assembly's axial grid + block elevations
]


@harness("C16", bounds="two nested scopes (outer on the assembly, inner on the assembly or the block: symbolic); per "
                       "instance ONE quantity of a given kind (scalar / array / list / None -> array / dict entry / "
                       "None -> scalar / no value -> scalar / empty cache / grid pitch; thorough: Cartesian grid widths "
                       "and offset) and a companion scalar parameter on the same "
                       "object; symbolic booleans, independently: the quantity is assigned before / inside / after "
                       "the inner scope, named in the inner / in the outer keep-set; the companion (never kept) is "
                       "assigned before / inside (thorough: / after) the inner scope; all values fresh symbolic reals. "
                       "Includes: assigned ONLY inside the inner scope with nothing else touched on the object",
         stubs=STUBS,
         instances={"quick": [dict(kind=k, companion=c) for k, c in NESTED_KINDS],
                    "thorough": [dict(kind=k, companion=c, post=True) for k, c in NESTED_KINDS + NESTED_KINDS_THOROUGH] +
                                [dict(kind="clad.zrFrac (unset at entry)", companion="clad.percentBu", post=True),
                                 dict(kind="a.cached (empty at entry)", companion="a.dischargeTime", post=True),
                                 dict(kind="a.chargeTime", companion="a.dischargeTime", post=True)]},
         max_paths=6000)
def retain_state_nested_keep_kinds(ctx, kind, companion, post=False):
    K, C = SLOTS[kind], SLOTS[companion]
    slots = [K, C]
    a = mk_assembly(2)
    v = View(a)
    for s in slots:
        s.init(ctx, v)
    keepable = K.pd(v) is not None
    when = ("before", "inside", "after")
    asg = {(w, K.name): ctx.bool("%s assigned %s the inner scope" % (K.name, w)) for w in when}
    asg.update({(w, C.name): (ctx.bool("%s assigned %s the inner scope" % (C.name, w)) if (w != "after" or post)
                              else False) for w in when})
    kin = ctx.bool("inner keeps " + K.name) if keepable else False
    kout = ctx.bool("outer keeps " + K.name) if keepable else False
    innerOnBlock = ctx.bool("inner scope on block")
    new = {(w, s.name): s.draw(ctx, t) for w, t in zip(when, ("1", "2", "3")) for s in slots}
    if K.mixed:
        ctx.assume(NOT(innerOnBlock))   # touches the block and the assembly: only meaningful for scopes on the assembly
    if KNOWN_DEFECT_nested_grid_backup and _HIDE and K.grid:
        # the grid keeps a single backup: a grid changed between the two scope entries is not restored by the outer exit
        ctx.assume(NOT(asg[("before", K.name)]))
        ctx.note("KNOWN_DEFECT_nested_grid_backup: histories that change the grid before the inner scope are skipped")
    kin, kout = bool(kin), bool(kout)
    outerSet = [K.pd(v)] if kout else []
    innerSet = [K.pd(v)] if kin else []

    def assign(w):
        for s in slots:
            if asg[(w, s.name)]:
                s.apply(v, new[(w, s.name)])

    s0 = snap(v, slots)
    with v.a.retainState(outerSet):
        assign("before")
        s1 = snap(v, slots)
        innerRoot = "b" if innerOnBlock else "a"
        with (v.b if innerRoot == "b" else v.a).retainState(innerSet):
            assign("inside")
            s2 = snap(v, slots)
        s3 = snap(v, slots)
        for s in slots:
            same_value(ctx, "inner exit: %s" % s.name, s, s3[s.name],
                       s2[s.name] if (kept(s, v, innerSet) or not under(s, innerRoot)) else s1[s.name])
        assign("after")
        s4 = snap(v, slots)
    s5 = snap(v, slots)
    for s in slots:
        hit = None
        if ctx.canary and s is C:
            hit = AND(s0[s.name][0] == s.rare, asg[("inside", K.name)])
        same_value(ctx, "outer exit: %s" % s.name, s, s5[s.name],
                   s4[s.name] if kept(s, v, outerSet) else s0[s.name], canary_hit=hit)


@harness("C16", bounds="assembly of 2 blocks; a dimension (symbolic choice: duct outer pitch / fuel outer diameter) "
                       "with symbolic old and new values; symbolic booleans: the block's cache is EMPTY when the scope "
                       "is opened (clearCache()) or filled (area asked for before); the dimension is changed by "
                       "plain parameter assignment or by setDimension; Block.getArea() is / is not called inside; "
                       "one scope or two nested ones; scope(s) on the block or on the assembly", stubs=STUBS,
         max_paths=3000)
def retain_state_derived_caches_do_not_leak(ctx):
    a = mk_assembly(2)
    v = View(a)
    which = ctx.choice("dimension", ["duct.op", "fuel.od"])
    lo, hi = (15.9, 16.5) if which == "duct.op" else (0.6, 0.75)
    comp, dim = (v.duct, "op") if which == "duct.op" else (v.fuel, "od")
    old = ctx.real("old", 0.0, 1.0)
    x = ctx.real("new", 0.0, 1.0)
    empty = ctx.bool("cache empty at scope entry")
    plain = ctx.bool("plain parameter assignment (else setDimension)")
    ask = ctx.bool("block area asked for inside the scope")
    nested = ctx.bool("two nested scopes")
    onBlock = ctx.bool("scope on the block (else on the assembly)")
    comp.setDimension(dim, lo + (hi - lo) * old)
    area0, vol0, carea0 = v.b.getArea(), v.b.getVolume(), comp.getArea()
    if empty:
        v.b.clearCache()
        assert not v.b.cached, "harness precondition: cache empty at scope entry"
    root = v.b if onBlock else v.a
    outer = root.retainState()
    inner = root.retainState() if nested else None
    outer.__enter__()
    if inner is not None:
        inner.__enter__()
    if plain:
        comp.p[dim] = lo + (hi - lo) * x
    else:
        comp.setDimension(dim, lo + (hi - lo) * x)
    if ask:
        v.b.getArea()
    if inner is not None:
        inner.__exit__(None, None, None)
    outer.__exit__(None, None, None)
    want = area0
    if ctx.canary:
        want = want * ITE(AND(empty, x > 0.9, old < 0.1), 1.001, 1.0)
    ctx.check_close("area cached inside does not leak: block area is the pre-scope area", v.b.getArea(), want,
                    scale=300.0)
    ctx.check_close("... block volume", v.b.getVolume(), vol0, scale=3000.0)
    ctx.check_close("... area of the changed component", comp.getArea(), carea0, scale=300.0)


class _Leave(Exception):
    pass


@harness("C16", bounds="two scopes one after the other (a short history): the first on the assembly, possibly left by "
                       "an exception (symbolic), the second on the block; two observed quantities per instance (one "
                       "starts as None / without a value / as an empty cache); assignments and keep-sets of both scopes symbolic", stubs=STUBS,
         instances={"quick": [dict(names=["b.power", "b.linPowByPin"]), dict(names=["clad.numberDensities", "fuel.massHmBOL"]),
                              dict(names=["fuel.buRate (unset at entry)", "b.cached (empty at entry)"])]},
         max_paths=6000)
def retain_state_consecutive_scopes(ctx, names):
    slots = [SLOTS[n] for n in names]
    a = mk_assembly(2)
    v = View(a)
    for s in slots:
        s.init(ctx, v)
    asg = {(k, s.name): ctx.bool("scope %d assigns %s" % (k, s.name)) for k in (1, 2) for s in slots}
    keep = {(k, s.name): (ctx.bool("scope %d keeps %s" % (k, s.name)) if s.pd(v) is not None else False)
            for k in (1, 2) for s in slots}
    byExc = ctx.bool("first scope is left by an exception")
    new = {(k, s.name): s.draw(ctx, str(k)) for k in (1, 2) for s in slots}
    keep = {k: bool(x) for k, x in keep.items()}
    for k, root in ((1, "a"), (2, "b")):
        keepSet = [s.pd(v) for s in slots if keep[(k, s.name)]]
        s0 = snap(v, slots)
        s1 = None
        try:
            with (v.a if root == "a" else v.b).retainState(keepSet):
                for s in slots:
                    if asg[(k, s.name)]:
                        s.apply(v, new[(k, s.name)])
                s1 = snap(v, slots)
                if k == 1 and byExc:
                    raise _Leave()
        except _Leave:
            pass
        s2 = snap(v, slots)
        for s in slots:
            hit = None
            if ctx.canary and k == 2 and s is slots[0] and s1[s.name] is not None and s1[s.name][0] is not None:
                hit = AND(s1[s.name][0] == s.rare, byExc)
            same_value(ctx, "scope %d exit: %s" % (k, s.name), s, s2[s.name],
                       s1[s.name] if kept(s, v, keepSet) else s0[s.name], canary_hit=hit)


# ---------------------------------------------------------------------------
# (1d) every public mutator of component / block composition x {read-only reactor, scope with keep-set, scope without}
#
# The property speaks of "arbitrary assignments ... (including component number densities, current temperatures ...)" and
# of a read-only reactor in which "every parameter assignment anywhere in it is refused and no value changes".  The
# composition of a component is a parameter (the numberDensities dict), and most code changes it through the public
# mutators below rather than by assigning the parameter, so each mutator is an assignment in the sense of the property:
#   read-only reactor                  : the call is refused (RuntimeError) and NOTHING observed changes
#   scope, nothing kept                : everything observed beneath the scope root is back at its pre-scope value
#   scope keeping `numberDensities`    : the number densities beneath the root keep the values they had when the scope
#                                        ended, everything else beneath the root is back
# whatever else was or was not assigned on the same component inside the scope.

U5 = "U235"


def _fuelMassFracZr(v, x):
    v.fuel.setMassFrac("ZR", 0.1 * x)


MUTATORS = {
    # on a component (the fuel: U235, U238, ZR)
    "component.setNumberDensity": lambda v, x: v.fuel.setNumberDensity(U5, 0.004 * x),
    "component.setNumberDensity (new nuclide)": lambda v, x: v.fuel.setNumberDensity("PU239", 0.001 * x),
    "component.setNumberDensities": lambda v, x: v.fuel.setNumberDensities({U5: 0.004 * x, "ZR": 0.01}),
    "component.updateNumberDensities": lambda v, x: v.fuel.updateNumberDensities({"U238": 0.02 * x, "ZR": 0.01 * x}),
    "component.changeNDensByFactor": lambda v, x: v.fuel.changeNDensByFactor(x),
    "component.setMass": lambda v, x: v.fuel.setMass(U5, 50.0 * x),
    "component.addMass": lambda v, x: v.fuel.addMass("U238", 20.0 * x),
    "component.removeMass": lambda v, x: v.fuel.removeMass("U238", 1.0 * x),
    "component.setMasses": lambda v, x: v.fuel.setMasses({U5: 50.0 * x, "U238": 400.0}),
    "component.setMassFrac": _fuelMassFracZr,
    "component.adjustMassFrac": lambda v, x: v.fuel.adjustMassFrac(nuclideToAdjust="ZR", val=0.1 * x),
    "component.adjustMassEnrichment": lambda v, x: v.fuel.adjustMassEnrichment(0.1 * x),
    "component.clearNumberDensities": lambda v, x: v.fuel.clearNumberDensities(),
    "component.setTemperature": lambda v, x: v.fuel.setTemperature(650.0),
    "component.adjustDensityForHeightExpansion": lambda v, x: v.fuel.adjustDensityForHeightExpansion(650.0),
    "component.applyMaterialMassFracsToNumberDensities": lambda v, x: v.fuel.applyMaterialMassFracsToNumberDensities(),
    "component.mergeNuclidesInto": lambda v, x: v.clad.mergeNuclidesInto(v.fuel),
    # on a block (distributes over the components that hold the nuclide)
    "block.setNumberDensity": lambda v, x: v.b.setNumberDensity(U5, 0.001 * x),
    "block.setNumberDensity (several holders)": lambda v, x: v.b.setNumberDensity("FE", 0.01 * x),
    "block.setNumberDensities": lambda v, x: v.b.setNumberDensities({U5: 0.001 * x, "FE": 0.01}),
    "block.updateNumberDensities": lambda v, x: v.b.updateNumberDensities({"FE": 0.01 * x}),
    "block.changeNDensByFactor": lambda v, x: v.b.changeNDensByFactor(x),
    "block.setMass": lambda v, x: v.b.setMass(U5, 50.0 * x),
    "block.addMass": lambda v, x: v.b.addMass("FE", 100.0 * x),
    "block.setMassFrac": lambda v, x: v.b.setMassFrac("ZR", 0.02 * x),
    "block.adjustUEnrich": lambda v, x: v.b.adjustUEnrich(0.1 * x),
    "block.adjustDensity": lambda v, x: v.b.adjustDensity(x, [U5, "U238"]),
    "block.clearNumberDensities": lambda v, x: v.b.clearNumberDensities(),
    "block.setHeight (conserving mass)": lambda v, x: v.b.setHeight(10.0 * x, conserveMass=True, adjustList=[U5, "U238", "ZR", "FE"]),
    # on the assembly
    "assembly.changeNDensByFactor": lambda v, x: v.a.changeNDensByFactor(x),
}
MUTATORS_QUICK = ("component.setNumberDensity", "component.setNumberDensities", "component.changeNDensByFactor",
                  "component.setMass", "component.adjustMassEnrichment", "component.setTemperature",
                  "component.adjustDensityForHeightExpansion",
                  "block.setNumberDensity (several holders)", "block.changeNDensByFactor", "block.addMass",
                  "block.adjustUEnrich", "block.setMass")


def _composition(v):
    """{(owner object, what): value}: number densities and temperature of every component, plus the parameters other than
    the densities that the mutators may touch"""
    out = {}
    for bn, b in (("b", v.b), ("b1", v.b1)):
        for c in b:
            nd = c.p.numberDensities
            out[("%s.%s" % (bn, c.name), "nuclides")] = (c, tuple(sorted(nd)))
            for nuc in sorted(nd):
                out[("%s.%s" % (bn, c.name), "N(%s)" % nuc)] = (c, nd[nuc])
            out[("%s.%s" % (bn, c.name), "temperatureInC")] = (c, c.temperatureInC)
            out[("%s.%s" % (bn, c.name), "percentBu")] = (c, c.p.percentBu)
            out[("%s.%s" % (bn, c.name), "massHmBOL")] = (c, c.p.massHmBOL)
        out[(bn, "height")] = (b, b.p.height)
        out[(bn, "massHmBOL")] = (b, b.p.massHmBOL)
        out[(bn, "percentBu")] = (b, b.p.percentBu)
    return out


def _is_density(key):
    return key[1] == "nuclides" or key[1].startswith("N(")


def _same_item(ctx, what, got, want, bump=None):
    if isinstance(want, tuple) or want is None or got is None or isinstance(got, tuple):
        ctx.check(what, got == want)
        return
    if bump is not None:
        want = want + bump
    ctx.check_eq(what, got, want)


@harness("C16", bounds="mini reactor (reactor > core > assembly > 2 blocks x (fuel UZr, clad HT9, duct HT9)); the fuel's U235 "
                       "density a symbolic real, the rest of the composition as built; per instance ONE public mutator of "
                       "composition (on the fuel component, the block or the assembly) with a symbolic argument factor x "
                       "in [0.25, 1.75]; symbolic choice of the situation: read-only reactor / scope without keep-set / "
                       "scope keeping numberDensities; scope root reactor, assembly, block, the fuel component or the clad "
                       "component (symbolic); symbolic boolean: another parameter of the fuel component is assigned inside "
                       "the scope as well; observed: nuclide set, every number density, temperature, percentBu, massHmBOL "
                       "of every component of both blocks, height / massHmBOL / percentBu of both blocks",
         stubs=STUBS, raises=(),
         instances={"quick": [dict(mutator=m) for m in MUTATORS_QUICK],
                    "thorough": [dict(mutator=m) for m in MUTATORS]}, max_paths=3000)
def composition_mutators_respect_scopes_and_read_only(ctx, mutator):
    v = RView(2)
    n5 = ctx.real("fuel U235 density", 1e-4, 0.01)
    x = ctx.real("x", 0.25, 1.75)
    mode = ctx.choice("situation", ["read-only", "scope", "scope keeping numberDensities"])
    root = ctx.choice("scope root", ["r", "a", "b", "fuel", "clad"])
    other = ctx.bool("another parameter of the fuel component is assigned inside the scope")
    nd = dict(v.fuel.p.numberDensities)
    nd[U5] = n5
    v.fuel.p.numberDensities = nd
    mutate = MUTATORS[mutator]
    hit = (x == 1.125) if ctx.canary else None
    bump = ITE(hit, 1, 0) if ctx.canary else None
    if mode == "read-only":
        makeParametersReadOnly(v.r)
        before = _composition(v)
        refused = False
        try:
            mutate(v, x)
        except RuntimeError:
            refused = True
        if ctx.canary:
            refused = AND(refused, NOT(hit))
        ctx.check("read-only reactor: %s is refused" % mutator, refused)
        after = _composition(v)
        ctx.check("read-only reactor: same set of observed items", sorted(after) == sorted(before))
        for key in before:
            if key in after:
                _same_item(ctx, "read-only reactor: %s %s did not change" % key, after[key][1], before[key][1])
        return
    keepSet = [v.fuel.p.paramDefs["numberDensities"]] if mode != "scope" else []
    rootObj = getattr(v, root)
    s0 = _composition(v)
    with rootObj.retainState(keepSet):
        mutate(v, x)
        if other:
            v.fuel.p.puFrac = 0.5 * x
        s1 = _composition(v)
    s2 = _composition(v)
    pdND = v.fuel.p.paramDefs["numberDensities"]
    want = {}
    for key in set(s0) | set(s1):
        owner = (s1.get(key) or s0.get(key))[0]
        keptHere = _is_density(key) and any(owner.p.paramDefs["numberDensities"] is k for k in keepSet)
        src = s1 if (keptHere or not beneath(owner, rootObj)) else s0
        if key in src:
            want[key] = src[key][1]
    ctx.check("%s: after the scope exactly the expected items exist" % mode, sorted(s2) == sorted(want))
    first = True
    for key in sorted(want):
        if key in s2:
            isNum = not isinstance(want[key], tuple) and want[key] is not None
            _same_item(ctx, "%s: %s %s %s" % (mode, key[0], key[1],
                                             "has its expected value (kept or outside the scope: value at scope end; "
                                             "else pre-scope value)"), s2[key][1], want[key],
                       bump=bump if (first and isNum) else None)
            first = first and not isNum
    if beneath(v.fuel, rootObj):
        ctx.check_eq("the other parameter of the fuel component (puFrac) is back", v.fuel.p.puFrac, 0.0)


# ---------------------------------------------------------------------------
# (1c) candidate defects inside a scope (kept as obligations; skipped while the KNOWN_DEFECT flags are set)


@harness("C16", bounds="block with a clad whose inner diameter is linked to fuel.od; inside a scope the link is "
                       "(symbolic choice) left alone or replaced by a symbolic number in [0.76, 0.79]", stubs=STUBS)
def retain_state_linked_dimension(ctx):
    a = mk_assembly(1)
    v = View(a)
    od0 = ctx.real("od0", 0.5, 0.75)
    v.fuel.setDimension("od", od0)
    replace = ctx.bool("replace link by number")
    x = ctx.real("newId", 0.76, 0.79)
    od1 = ctx.real("od1", 0.5, 0.75)
    if KNOWN_DEFECT_link_replaced_in_scope:
        ctx.assume(NOT(replace))
    id0 = v.clad.getDimension("id")
    # derived quantities that armi caches (component volume parameter, block-level caches)
    cladV0, cladA0, fuelV0, blockV0 = v.clad.getVolume(), v.clad.getArea(), v.fuel.getVolume(), v.b.getVolume()
    with v.b.retainState():
        if replace:
            v.clad.setDimension("id", x)
        v.fuel.setDimension("od", od1)
        idIn = v.clad.getDimension("id")
        # recompute (and thereby cache) everything inside the scope
        inside = (v.clad.getVolume(), v.clad.getArea(), v.fuel.getVolume(), v.b.getVolume(), v.b.getMaxArea())
        if not replace:
            ctx.check_close("inside the scope the cached clad volume was recomputed", inside[0] * 1.0,
                            inside[1] * v.b.getHeight(), scale=100.0)
    if not replace:
        # id0 = f*od0 and idIn = f*od1 with the same expansion factor f
        got = idIn * od0
        if ctx.canary:
            got = got * ITE(od1 > 0.7, 1.001, 1.0)
        ctx.check_close("inside the scope the linked dimension follows its target", got, id0 * od1, scale=1.0)
    ctx.check("clad.id is a link again after the scope", v.clad.dimensionIsLinked("id"))
    ctx.check_close("clad inner diameter is back at its pre-scope value", v.clad.getDimension("id"), id0, scale=1.0)
    ctx.check_close("fuel.od is back", v.fuel.getDimension("od", cold=True), od0, scale=1.0)
    ctx.check_close("values cached inside do not leak: clad volume", v.clad.getVolume(), cladV0, scale=100.0)
    ctx.check_close("values cached inside do not leak: clad area", v.clad.getArea(), cladA0, scale=10.0)
    ctx.check_close("values cached inside do not leak: fuel volume", v.fuel.getVolume(), fuelV0, scale=1000.0)
    ctx.check_close("values cached inside do not leak: block volume", v.b.getVolume(), blockV0, scale=1e4)


@harness("C16", bounds="kept array parameter of a block: pre-scope length 2, new length n in {1,2,3} (symbolic), "
                       "entries symbolic", stubs=STUBS)
def retain_state_kept_array_changes_length(ctx):
    a = mk_assembly(1)
    v = View(a)
    old = [ctx.real("o%d" % i, 0.0, 1e6) for i in range(2)]
    new = [ctx.real("n%d" % i, 0.0, 1e6) for i in range(3)]
    n = ctx.int("n", 1, 3)
    if KNOWN_DEFECT_kept_array_shape_change:
        ctx.assume(n == 2)
    n = int(n)
    v.b.p.mgFlux = old
    with v.a.retainState([v.b.p.paramDefs["mgFlux"]]):
        v.b.p.mgFlux = new[:n]
    got = v.b.p.mgFlux
    ctx.check("kept array has its new length", len(got) == n)
    for i in range(n):
        w = new[i]
        if ctx.canary and i == 1:
            w = w + ITE(AND(new[0] == old[0], new[1] > 5), 1, 0)
        ctx.check_eq("kept array entry %d" % i, got[i], w)


# a kept array keeps EVERY in-scope change, however small: "the parameters named to be kept ... retain their new values"
# is an exact statement.  The entries of a float array are concrete representatives (numpy float arrays do not carry
# solver terms): magnitudes from trace number densities to fluxes, relative changes from one part in 1e12 to 50 %.
TINY_MAGNITUDES = [1e-30, 1e-9, 1.0, 1e6]
TINY_CHANGES = [1e-12, 1e-6, 0.5]
TINY_PATTERNS = ["first entry", "last entry", "every entry", "no entry"]


@harness("C16", bounds="assembly of 2 blocks; ONE float-array parameter per instance (block mgFlux, component "
                       "detailedNDens, assembly detailedNDens), 3 entries of magnitude (symbolic choice) 1e-30 / 1e-9 / 1 / "
                       "1e6 (times 1, 2.5, 7; one variant with a NaN entry that does not change); inside a scope on the "
                       "assembly or on the block (symbolic) it is re-assigned with the first / the last / every / no "
                       "entry changed by a relative 1e-12 / 1e-6 / 0.5 (symbolic choices); named in the keep-set or not "
                       "(symbolic); a second array parameter of the same object, never kept, gets the same change",
         stubs=STUBS,
         instances={"quick": [dict(level="b", pname="mgFlux", other="adjMgFlux"),
                              dict(level="fuel", pname="detailedNDens", other="pinPercentBu")],
                    "thorough": [dict(level="a", pname="detailedNDens", other=None)]})
def kept_array_keeps_every_change_however_small(ctx, level, pname, other):
    v = View(mk_assembly(2))
    o = getattr(v, level)
    mag = ctx.choice("magnitude of the entries", TINY_MAGNITUDES)
    rel = ctx.choice("relative change", TINY_CHANGES)
    pattern = ctx.choice("changed", TINY_PATTERNS)
    nan = ctx.bool("the middle entry is NaN (before and after)")
    keep = ctx.bool("named in the keep-set")
    onBlock = ctx.bool("scope on the block (else on the assembly)")
    if level == "a":
        ctx.assume(NOT(onBlock))
    keep, nan = bool(keep), bool(nan)
    old = mag * numpy.array([1.0, 2.5, 7.0])
    if nan:
        old[1] = numpy.nan
    factor = numpy.ones(3)
    if pattern == "every entry":
        factor[:] = 1.0 + rel
    elif pattern != "no entry":
        factor[0 if pattern == "first entry" else 2] = 1.0 + rel
    new = old * factor
    changed = pattern != "no entry"
    assert (not numpy.array_equal(new, old, equal_nan=True)) == changed, "harness precondition: the change is representable"
    o.p[pname] = old.copy()
    if other:
        o.p[other] = old.copy()
    with (v.b if onBlock else v.a).retainState([o.p.paramDefs[pname]] if keep else []):
        o.p[pname] = new.copy()
        if other:
            o.p[other] = new.copy()
        inside = numpy.array(o.p[pname], copy=True)
    want = inside if keep else old
    if ctx.canary and keep and mag == TINY_MAGNITUDES[1] and rel == TINY_CHANGES[1] and pattern == "last entry" and not nan:
        want = old
    got = o.p[pname]
    ctx.check("inside the scope the parameter reads what was assigned", numpy.array_equal(inside, new, equal_nan=True))
    ctx.check("%s.%s after the scope: %s, entry for entry and exactly" %
              (level, pname, "the value it had when the scope ended (kept)" if keep else "its pre-scope value"),
              isinstance(got, numpy.ndarray) and got.shape == want.shape and numpy.array_equal(got, want, equal_nan=True))
    if other:
        ctx.check("%s.%s (not kept) is back at its pre-scope value, exactly" % (level, other),
                  numpy.array_equal(numpy.asarray(o.p[other]), old, equal_nan=True))


# ---------------------------------------------------------------------------
# (1e) what a scope does must not depend on which scopes the PROCESS has seen before
#
# State kept on classes / modules survives from one path to the next (all paths of a worker run in one process), so a
# dependence on "which type of object left a scope first in this process" would only be visible on the very first path.
# `fresh_process_state()` puts the class-level state of the parameter-collection types back to what it was when this
# file was imported (before any scope was opened in the process): attributes bound later are removed, attributes re-bound
# since are bound to their import-time value again.  On the unchanged tree this is a no-op (nothing is bound on these
# classes after import).


def _collection_types():
    out, todo = [], [pcmod.ParameterCollection]
    while todo:
        c = todo.pop()
        out.append(c)
        todo.extend(c.__subclasses__())
    return out


_IMPORT_TIME_CLASS_STATE = {c: dict(vars(c)) for c in _collection_types()}


def fresh_process_state():
    for c in _collection_types():
        then = _IMPORT_TIME_CLASS_STATE.setdefault(c, dict(vars(c)))
        for name, val in list(vars(c).items()):
            if name not in then:
                delattr(c, name)
            elif val is not then[name]:
                setattr(c, name, then[name])


STUBS_FRESH = STUBS + ["class-level state of the ParameterCollection types (attributes bound or re-bound on the classes "
                       "after this file was imported, e.g. lazily filled caches) is reset to its import-time state at the "
                       "start of every path, so that every path sees a process in which no scope has been left yet"]

FIRST_OBJECTS = ["nothing", "spent fuel pool", "ex-core structure", "free-standing plain Composite",
                 "free-standing plain Component", "reactor", "core", "assembly", "block", "fuel (Circle)", "duct (Hexagon)",
                 "stored assembly"]
# (label, object name, parameter, lo, hi): one parameter per collection type of the tree
HISTORY_QUANTITIES = [("core.keff", "core", "keff", 0.0, 3.0),
                      ("assembly.chargeTime", "a", "chargeTime", -10.0, 1e4),
                      ("block.power", "b", "power", 0.0, 1e9),
                      ("fuel.temperatureInC (defined for every component)", "fuel", "temperatureInC", 300.0, 700.0),
                      ("fuel.od (defined for circles)", "fuel", "od", 0.5, 0.75),
                      ("duct.op (defined for hexagons)", "duct", "op", 15.5, 15.9),
                      ("stored assembly.chargeTime (in the spent fuel pool)", "stored", "chargeTime", -10.0, 1e4)]
KEEP_CHOICES = ["nothing", "everything"] + [q[0] for q in HISTORY_QUANTITIES[:-1]]


@harness("C16", bounds="HISTORY of two scopes in a fresh process; mini reactor with core (2 assemblies x 1 block x 4 "
                       "components), spent fuel pool holding an assembly, an ex-core structure holding a block; FIRST scope "
                       "(no keep-set): a symbolic choice of 12: nothing / ONE object whose flags are assigned inside - spent "
                       "fuel pool, ex-core structure, a free-standing plain Composite, a free-standing plain Component "
                       "(the BASE collection types), reactor, core, assembly, block, Circle, Hexagon, stored assembly -, the "
                       "scope opened on the reactor or (symbolic) on that object itself; SECOND scope on the reactor: one "
                       "parameter of every collection type (core, assembly, block, component, Circle, Hexagon) assigned a "
                       "new value (old symbolic real, new = old + 1), keep-set a symbolic choice of nothing / everything / "
                       "each single one", stubs=STUBS_FRESH, max_paths=3000)
def keep_set_works_whatever_left_a_scope_first_in_the_process(ctx):
    fresh_process_state()
    r, core, sfp, stored, ex, blk = _mk_reactor_with_excore()
    a = list(core)[0]
    b = a[0]
    objs = {"core": core, "a": a, "b": b, "fuel": b[0], "duct": b[2], "stored": stored}
    first = ctx.choice("object assigned inside the first scope", FIRST_OBJECTS)
    own = ctx.bool("first scope opened on that object itself (else on the reactor)")
    keepWhat = ctx.choice("second scope keeps", KEEP_CHOICES)
    old = {q[0]: ctx.real(q[0] + " before", q[3], q[4]) for q in HISTORY_QUANTITIES}
    for label, on, pname, _lo, _hi in HISTORY_QUANTITIES:
        objs[on].p[pname] = old[label]
    target = {"nothing": None, "spent fuel pool": sfp, "ex-core structure": ex,
              "free-standing plain Composite": composites.Composite("loose"),
              "free-standing plain Component": components.Component("plain", "HT9", 25.0, 25.0),
              "reactor": r, "core": core, "assembly": a, "block": b, "fuel (Circle)": b[0], "duct (Hexagon)": b[2],
              "stored assembly": stored}[first]
    loose = first.startswith("free-standing")
    if target is None or loose:
        ctx.assume(own if loose else NOT(own))
    # -- first scope
    if target is not None:
        flags0 = target.p.flags
        with (target if bool(own) else r).retainState():
            target.p.flags = flags0 | Flags.FUEL | Flags.DEPLETABLE
            assert target.p.flags != flags0
        ctx.check("first scope: the flags of the %s are back" % first, target.p.flags == flags0)
        for label, on, pname, _lo, _hi in HISTORY_QUANTITIES:
            ctx.check_eq("first scope: %s untouched" % label, objs[on].p[pname], old[label])
    # -- second scope
    names = [q[0] for q in HISTORY_QUANTITIES]
    keepLabels = [] if keepWhat == "nothing" else (names[:-1] if keepWhat == "everything" else [keepWhat])
    keepSet = [objs[on].p.paramDefs[pname] for label, on, pname, _l, _h in HISTORY_QUANTITIES if label in keepLabels]
    with r.retainState(keepSet):
        for label, on, pname, _lo, _hi in HISTORY_QUANTITIES:
            objs[on].p[pname] = old[label] + 1
    for label, on, pname, _lo, _hi in HISTORY_QUANTITIES:
        # a keep-set names DEFINITIONS: the assembly's chargeTime definition covers the stored assembly as well
        isKept = any(objs[on].p.paramDefs[pname] is k for k in keepSet)
        want = old[label] + 1 if isKept else old[label]
        if ctx.canary and label == names[1] and first == "block" and keepWhat == names[1]:
            want = want + ITE(old[label] == 77, 1, 0)
        ctx.check_eq("second scope: %s %s" % (label, "keeps its new value (kept)" if isKept else
                                              "is back at its pre-scope value"), objs[on].p[pname], want)


# ---------------------------------------------------------------------------
# (2) copies are equal and independent


COPY_SLOTS = ("b.power", "b.mgFlux", "clad.numberDensities", "fuel.massHmBOL", "duct.temperatureInC", "fuel.od")


def _inplace(ctx, v):
    """mutate mutable parameter values in place (no assignment): must not show through to the other side"""
    v.clad.p.numberDensities["FE"] = ctx.real("inplaceFE", 0.0, 10.0)
    v.b.p.mgFlux[0] = ctx.real("inplaceMg", 0.0, 1e15)


@harness("C16", bounds="copy.deepcopy / pickle round trip (instance) of an assembly, a block, a component or a bare "
                       "ParameterCollection; 6 observed parameters with symbolic values; afterwards one side "
                       "(symbolic choice) is re-assigned and mutated in place with fresh symbolic values", stubs=STUBS,
         instances={"quick": [dict(what=w, how=h) for w in ("assembly", "block", "pcoll") for h in ("deepcopy", "pickle")]})
def copies_are_equal_and_independent(ctx, what, how):
    slots = [SLOTS[n] for n in COPY_SLOTS]
    a = mk_assembly(2)
    v = View(a)
    for s in slots:
        s.init(ctx, v)
    SLOTS["fuel.massHmBOL"].assign(ctx, v, "0")
    dup = copy.deepcopy if how == "deepcopy" else (lambda o: pickle.loads(pickle.dumps(o)))
    if what == "assembly":
        w = View(dup(a))
    elif what == "block":
        w = View(None, dup(v.b))
    else:
        # only the block's collection is copied: graft it on a fresh block to read it through the same accessors
        w = View(None, mk_block())
        slots = [SLOTS["b.power"], SLOTS["b.mgFlux"]]
        w.b.p = dup(v.b.p)
    o0 = snap(v, slots)
    c0 = snap(w, slots)
    for s in slots:
        hit = None
        if ctx.canary and s.name == "b.power":
            hit = o0[s.name][0] == 31337
        same_value(ctx, "copy carries an equal %s" % s.name, s, c0[s.name], o0[s.name], canary_hit=hit)
    ctx.check("copy is detached", w.b.parent is (w.a if w.a is not None else None) and
              (w.a is None or w.a.parent is None))
    if what != "pcoll":
        ctx.check("copy shares no object with the original",
                  not ({id(o) for o in v.objects()} & {id(o) for o in w.objects()}) and
                  not ({id(o.p) for o in v.objects()} & {id(o.p) for o in w.objects()}))
        ctx.check("the copied link points into the copy", w.clad.p.id.getLinkedComponent() is w.fuel)
    else:
        ctx.check("copy is another collection", w.b.p is not v.b.p)
    # change one side only
    onCopy = ctx.bool("change the copy")
    tgt, other, otherBefore = (w, v, o0) if onCopy else (v, w, c0)
    for s in slots:
        s.assign(ctx, tgt, "9")
    if what != "pcoll":
        _inplace(ctx, tgt)
    else:
        tgt.b.p.mgFlux[0] = ctx.real("inplaceMg", 0.0, 1e15)
    after = snap(other, slots)
    for s in slots:
        same_value(ctx, "changing one side leaves %s of the other side alone" % s.name, s, after[s.name],
                   otherBefore[s.name])


# ---------------------------------------------------------------------------
# (2b) serial numbers: inductive step over the global counter


@harness("C16", bounds="GLOBAL_SERIAL_NUM = s0, symbolic Int in [-1, 2^62] (inductive step: all earlier objects have "
                       "serial numbers <= s0); then an assembly (2 blocks x 3 components) is constructed and a "
                       "subtree (symbolic choice: assembly, block, component, bare collection) deep-copied, twice",
         stubs=STUBS)
def serial_numbers_fresh_and_unique(ctx):
    s0 = ctx.int("s0", -1, 2 ** 62)
    saved = pcmod.GLOBAL_SERIAL_NUM
    try:
        pcmod.GLOBAL_SERIAL_NUM = s0
        a = mk_assembly(2)
        v = View(a)
        live = serials(v)
        g1 = pcmod.GLOBAL_SERIAL_NUM
        ctx.check("constructed objects: serial numbers above every earlier one", AND(*[x > s0 for x in live]))
        ctx.check("constructed objects: counter covers them", AND(*[x <= g1 for x in live]))
        which = ctx.choice("subtree", ["assembly", "block", "component", "pcoll"])
        src = {"assembly": v.a, "block": v.b, "component": v.clad, "pcoll": v.b.p}[which]
        for rnd in range(2):
            g0 = pcmod.GLOBAL_SERIAL_NUM
            c = copy.deepcopy(src)
            if which == "assembly":
                new = serials(View(c))
            elif which == "block":
                new = serials(View(None, c))
            elif which == "component":
                new = [c.p.serialNum]
            else:
                new = [c.serialNum]
            g2 = pcmod.GLOBAL_SERIAL_NUM
            if ctx.canary and rnd == 1:
                new = [x - ITE(s0 == 4242, 20, 0) for x in new]
            ctx.check("copy %d: every serial number is greater than every live one" % rnd,
                      AND(*[x > g0 for x in new] + [x > y for x in new for y in live]))
            ctx.check("copy %d: counter covers the new numbers" % rnd, AND(*[x <= g2 for x in new]))
            live = live + new
            ctx.check("copy %d: no two live objects share a serial number" % rnd,
                      AND(*[live[i] != live[j] for i in range(len(live)) for j in range(i + 1, len(live))]))
    finally:
        pcmod.GLOBAL_SERIAL_NUM = saved if not is_sym(saved) else 10 ** 6


CREATED = ["deep copy of the block", "deep copy of the assembly", "deep copy of a component", "a new assembly",
           "a bare collection copied", "nothing"]


def _create(what, v):
    """-> (object kept alive, its serial numbers)"""
    if what == "deep copy of the block":
        c = copy.deepcopy(v.b)
        return c, serials(View(None, c))
    if what == "deep copy of the assembly":
        c = copy.deepcopy(v.a)
        return c, serials(View(c))
    if what == "deep copy of a component":
        c = copy.deepcopy(v.clad)
        return c, [c.p.serialNum]
    if what == "a new assembly":
        c = mk_assembly(1)
        return c, serials(View(c))
    if what == "a bare collection copied":
        c = copy.deepcopy(v.b.p)
        return c, [c.serialNum]
    return None, []


@harness("C16", bounds="GLOBAL_SERIAL_NUM = s0, symbolic Int in [-1, 2^62]; an assembly (2 blocks x 3 components) is "
                       "built; then a retain-state scope (root: assembly / block / clad component; one scope or two "
                       "nested ones; left normally or by an exception: all symbolic) in which the block power is "
                       "assigned a symbolic real and an object is CREATED and kept alive beyond the scope (symbolic "
                       "choice: deep copy of the block / the assembly / a component / a bare collection, a new assembly, "
                       "nothing); after the scope another object is created (deep copy of the block / of a component, a "
                       "new assembly); thorough tier: a second round repeats scope + creation", stubs=STUBS,
         max_paths=3000, instances={"quick": [dict(rounds=1)], "thorough": [dict(rounds=2)]})
def serial_numbers_unique_with_objects_created_inside_scopes(ctx, rounds):
    s0 = ctx.int("s0", -1, 2 ** 62)
    x = ctx.real("power assigned inside", 0.0, 1e9)
    rootName = ctx.choice("scope root", ["a", "b", "clad"])
    inside = ctx.choice("created inside the scope", CREATED)
    after = ctx.choice("created after the scope", [CREATED[0], CREATED[2], CREATED[3]])
    nested = ctx.bool("two nested scopes (the object is created in the inner one)")
    byExc = ctx.bool("the scope is left by an exception")
    nested, byExc = bool(nested), bool(byExc)
    saved = pcmod.GLOBAL_SERIAL_NUM
    try:
        pcmod.GLOBAL_SERIAL_NUM = s0
        v = View(mk_assembly(2))
        power0 = v.b.p.power
        live = serials(v)
        alive = []          # the created objects stay referenced until the end of the path
        for rnd in range(1, rounds + 1):
            root = getattr(v, rootName)
            try:
                with root.retainState():
                    if nested:
                        with root.retainState():
                            v.b.p.power = x
                            obj, new1 = _create(inside, v)
                    else:
                        v.b.p.power = x
                        obj, new1 = _create(inside, v)
                    if byExc:
                        raise _Leave()
            except _Leave:
                pass
            alive.append(obj)
            if rootName != "clad":
                ctx.check_eq("round %d: the block power is back" % rnd, v.b.p.power, power0)
            else:
                v.b.p.power = power0
            ctx.check("round %d: objects created inside the scope got numbers above every earlier live one" % rnd,
                      AND(*[n > y for n in new1 for y in live]))
            live = live + new1
            obj2, new2 = _create(after, v)
            alive.append(obj2)
            if ctx.canary and rnd == rounds:
                new2 = [n - ITE(s0 == 4242, len(new2) + 1, 0) for n in new2]
            ctx.check("round %d: objects created after the scope got numbers above every live one, those created inside "
                      "the scope included" % rnd, AND(*[n > y for n in new2 for y in live]))
            live = live + new2
            ctx.check("round %d: no two live objects share a serial number" % rnd,
                      AND(*[live[i] != live[j] for i in range(len(live)) for j in range(i + 1, len(live))]))
            ctx.check("round %d: the counter is not below any live serial number" % rnd,
                      AND(*[n <= pcmod.GLOBAL_SERIAL_NUM for n in live]))
            ctx.check("round %d: the objects of the assembly keep their serial numbers" % rnd,
                      all(bool(p == q) for p, q in zip(serials(v), live)))
    finally:
        pcmod.GLOBAL_SERIAL_NUM = saved if not is_sym(saved) else 10 ** 6


@harness("C16", bounds="assembly of 2 blocks x 3 components; the parameters of one object are transferred to another "
                       "object of the same class through Composite.copyParamsFrom or updateParamsFrom (symbolic choice), "
                       "the pair a symbolic choice of block -> block, fuel -> fuel, clad -> fuel (same class), assembly -> "
                       "a second assembly; the source's power / percentBu / chargeTime a symbolic real; afterwards the "
                       "target is re-assigned with a fresh symbolic value", stubs=STUBS)
def parameter_transfer_copies_values_not_serial_numbers(ctx):
    v = View(mk_assembly(2))
    other = mk_assembly(1)
    pair = ctx.choice("pair", ["block -> block", "fuel -> fuel", "clad -> fuel", "assembly -> assembly"])
    update = ctx.bool("updateParamsFrom (else copyParamsFrom)")
    x = ctx.real("x", 0.0, 100.0)
    y = ctx.real("y", 0.0, 100.0)
    src, dst, pname = {"block -> block": (v.b, v.b1, "power"), "fuel -> fuel": (v.fuel, v.b1[0], "percentBu"),
                       "clad -> fuel": (v.clad, v.fuel, "percentBu"),
                       "assembly -> assembly": (v.a, other, "chargeTime")}[pair]
    src.p[pname] = x
    live = [o for o in v.objects()] + [other, other[0]] + list(other[0])
    ser0 = [o.p.serialNum for o in live]
    ctx.check("before: no two live objects share a serial number", len(set(ser0)) == len(ser0))
    if update:
        dst.updateParamsFrom(src)
    else:
        dst.copyParamsFrom(src)
    got = dst.p[pname]
    if ctx.canary:
        got = got + ITE(AND(x == 42, update), 1, 0)
    ctx.check_eq("the target carries the source's value", got, x)
    ser1 = [o.p.serialNum for o in live]
    if KNOWN_DEFECT_params_from_copies_serial_number and _HIDE:
        ctx.note("KNOWN_DEFECT_params_from_copies_serial_number: serial-number obligations skipped")
    else:
        ctx.check("after the transfer no two live objects share a serial number", len(set(ser1)) == len(ser1))
        ctx.check("the source keeps its serial number", src.p.serialNum == ser0[[o is src for o in live].index(True)])
    dst.p[pname] = y
    ctx.check_eq("changing the target afterwards does not show in the source", src.p[pname], x)


# ---------------------------------------------------------------------------
# (3) read-only reactor


def _targets(r, core, a):
    b = a[0]
    return [
        ("reactor cycle", r, "cycle", lambda x: setattr(r.p, "cycle", x)),
        ("core keff", core, "keff", lambda x: setattr(core.p, "keff", x)),
        ("assembly chargeTime", a, "chargeTime", lambda x: a.p.__setitem__("chargeTime", x)),
        ("block power", b, "power", lambda x: setattr(b.p, "power", x)),
        ("block mgFlux", b, "mgFlux", lambda x: setattr(b.p, "mgFlux", [x, x])),
        ("block height via setHeight", b, "height", lambda x: b.setHeight(x)),
        ("component temperature via setTemperature", b[2], "temperatureInC", lambda x: b[2].setTemperature(x)),
        ("component od via setDimension", b[0], "od", lambda x: b[0].setDimension("od", x)),
        ("component numberDensities", b[1], "numberDensities", lambda x: setattr(b[1].p, "numberDensities", {"FE": x})),
        ("component volume cache", b[1], "volume", lambda x: setattr(b[1].p, "volume", x)),
        ("block update()", b, "power", lambda x: b.p.update({"power": x})),
        ("second assembly block flux", None, "flux", None),
    ]


@harness("C16", bounds="mini reactor (reactor > core > 2 assemblies > 1 block > 4 components) made read-only; target "
                       "object / parameter / setter API a symbolic choice of 12; attempted value a symbolic real",
         stubs=STUBS)
def read_only_reactor_refuses_every_assignment(ctx):
    r, core, (a0, a1) = _build.mk_core([(0, 0), (1, 0)], nblocks=1)
    x = ctx.real("x", 1.0, 650.0)
    tg = _targets(r, core, a0)
    b1 = a1[0]
    tg[-1] = ("second assembly block flux", b1, "flux", lambda y: setattr(b1.p, "flux", y))
    allObjs = [r, core] + [o for a in (a0, a1) for o in [a] + [b for b in a] + [c for b in a for c in b]]

    def values():
        out = []
        for _n, obj, pname, _f in tg:
            val = obj.p[pname]
            out.append(dict(val) if isinstance(val, dict) else (None if val is None else (
                tuple(val) if hasattr(val, "__len__") and not isinstance(val, str) else val)))
        return out

    # writable before
    b1.p.flux = x
    ctx.check_eq("writable before", b1.p.flux, x)
    makeParametersReadOnly(r)
    ctx.check("every collection in the reactor is read-only", all(o.p.readOnly for o in allObjs))
    before = values()
    k = ctx.int("target", 0, len(tg) - 1)
    name, obj, pname, setter = tg[int(k)]
    refused = False
    try:
        setter(x + 1)
    except RuntimeError:
        refused = True
    if ctx.canary:
        refused = AND(refused, NOT(AND(k == 7, x == 333)))
    ctx.check("assignment is refused: " + name, refused)
    after = values()
    ctx.check("no observed value changed", all(_plain_eq(p, q) for p, q in zip(before, after)))
    # cannot be made writable again
    back = False
    try:
        obj.p.readOnly = False
    except RuntimeError:
        back = True
    ctx.check("a read-only collection cannot be made writable", back and obj.p.readOnly)


def _walk(o):
    """every object of a tree, by plain iteration over children (not through iterChildren, which the code under test uses)"""
    yield o
    for c in o:
        yield from _walk(c)


def _mk_reactor_with_excore():
    """mini reactor whose content is NOT all in the core: core (2 assemblies) + spent fuel pool holding a discharged
    assembly + another ex-core structure holding a block"""
    from armi.reactor.excoreStructure import ExcoreStructure
    from armi.reactor.spentFuelPool import SpentFuelPool

    r, core, (a0, a1) = _build.mk_core([(0, 0), (1, 0)], nblocks=1)
    sfp = SpentFuelPool("sfp")
    sfp.spatialGrid = grids.CartesianGrid.fromRectangle(50.0, 50.0, numRings=2)
    sfp.spatialGrid.armiObject = sfp
    r.add(sfp)
    stored = _build.mk_assembly(1)
    sfp.add(stored, sfp.spatialGrid[0, 0, 0])
    ex = ExcoreStructure("storage rack")
    ex.spatialGrid = grids.CartesianGrid.fromRectangle(10.0, 10.0, numRings=2)
    ex.spatialGrid.armiObject = ex
    r.add(ex)
    blk = _build.mk_block()
    ex.add(blk, ex.spatialGrid[1, 0, 0])
    return r, core, sfp, stored, ex, blk


_RO_PREFERRED = ("cycle", "keff", "chargeTime", "power", "temperatureInC")


def _some_parameter(o):
    """a parameter of `o` to try to assign: a well-known scalar if the class has one, else ANY defined parameter (the
    pool and the bare ex-core structure only define ``serialNum`` and ``flags``)"""
    names = o.p.paramDefs.names
    for n in _RO_PREFERRED:
        if n in names:
            return n
    return "serialNum"


@harness("C16", bounds="mini reactor with content INSIDE and OUTSIDE the core: core (2 assemblies x 1 block x 4 "
                       "components), spent fuel pool holding a discharged assembly, a second ex-core structure holding "
                       "a block (27 objects); after makeParametersReadOnly(reactor) an assignment of a symbolic real is "
                       "attempted on ONE object, a symbolic choice over ALL objects of the tree (enumerated by plain "
                       "iteration over children), through p.name = x, p[name] = x, p.update({name: x}), the history form "
                       "p[(name, timestep)] = x, the removal del p[name], or a transfer of all parameters from another "
                       "object of the same class (o.copyParamsFrom(other) / o.updateParamsFrom(other), the other object a "
                       "writeable copy with other values) (symbolic choice)", stubs=STUBS)
def read_only_reactor_covers_every_object(ctx):
    r, core, sfp, stored, ex, blk = _mk_reactor_with_excore()
    objs = list(_walk(r))
    must = [r, core, sfp, stored, stored[0], stored[0][0], ex, blk, blk[1]] + list(core)
    assert all(any(o is m for o in objs) for m in must), "harness precondition: the walk reaches every system"
    x = ctx.real("x", 1.0, 650.0)
    k = ctx.int("object", 0, len(objs) - 1)
    how = ctx.choice("way of assignment", RO_WAYS)
    if KNOWN_DEFECT_readonly_history_and_delete and _HIDE and how in ("p[(name, timestep)] = x", "del p[name]"):
        ctx.note("KNOWN_DEFECT_readonly_history_and_delete: %s skipped" % how)
        return
    if KNOWN_DEFECT_readonly_copy_params_from and _HIDE and how == "o.copyParamsFrom(other)":
        ctx.note("KNOWN_DEFECT_readonly_copy_params_from: %s skipped" % how)
        return
    ctx.check("writable before", not any(o.p.readOnly for o in objs))
    donor = None
    if how in RO_TRANSFERS:
        # another object of the same class (a detached, writeable copy made beforehand) that carries a different value
        donor = copy.deepcopy(objs[int(k)])
        dn = _some_parameter(donor)
        donor.p[dn] = (x + 1) if dn != "serialNum" else donor.p.serialNum
        donor.p.flags = donor.p.flags | Flags.FUEL | Flags.DEPLETABLE | Flags.B
    makeParametersReadOnly(r)
    for n, o in enumerate(objs):
        ctx.check("object %d of the tree is read-only: %s > %s" % (n, _where(o, core), type(o).__name__), o.p.readOnly)
    o = objs[int(k)]
    name = _some_parameter(o)

    def state():
        """what the collection answers for that parameter: value, presence, value recorded for a time step"""
        hasHist = (name, 3) in o.p
        return (read_param(o, name), name in o.p, o.p[(name, 3)] if hasHist else None, hasHist)

    before = state()
    flags0 = o.p.flags
    refused = False
    try:
        if how == "p[name] = x":
            o.p[name] = x + 1
        elif how == "p.name = x":
            setattr(o.p, name, x + 1)
        elif how == "p.update({name: x})":
            o.p.update({name: x + 1})
        elif how == "p[(name, timestep)] = x":
            o.p[(name, 3)] = x + 1
        elif how == "o.copyParamsFrom(other)":
            o.copyParamsFrom(donor)
        elif how == "o.updateParamsFrom(other)":
            o.updateParamsFrom(donor)
        else:
            del o.p[name]
    except RuntimeError:
        refused = True
    if ctx.canary:
        refused = AND(refused, NOT(AND(k == len(objs) - 3, x == 333)))
    what = "%s > %s .p.%s, %s" % (_where(o, core), type(o).__name__, name, how)
    ctx.check("assignment is refused: " + what, refused)
    ctx.check("... the object is still read-only: " + what, o.p.readOnly)
    ctx.check("... its flags did not change: " + what, o.p.flags == flags0)
    after = state()
    ctx.check("... and nothing the collection reports for it changed: " + what,
              all(_plain_eq(p, q) for p, q in zip(_flat(before), _flat(after))))


RO_TRANSFERS = ["o.copyParamsFrom(other)", "o.updateParamsFrom(other)"]
RO_WAYS = ["p.name = x", "p[name] = x", "p.update({name: x})", "p[(name, timestep)] = x", "del p[name]"] + RO_TRANSFERS


def _flat(st):
    (val, has), present, hist, histPresent = st
    return [val, has, present, hist, histPresent]


def _where(o, core):
    while o is not None:
        if o is core:
            return "core"
        if o.parent is not None and o.parent.parent is None:
            return type(o).__name__
        o = o.parent
    return "reactor"


def _plain_eq(p, q):
    if p is None or q is None:
        return p is None and q is None
    if isinstance(p, dict):
        return set(p) == set(q) and all(bool(p[k] == q[k]) for k in p)
    if isinstance(p, tuple):
        return len(p) == len(q) and all(bool(x == y) for x, y in zip(p, q))
    return bool(p == q)


@harness("C16", bounds="read-only mini reactor; Component.setNumberDensity / Block.setNumberDensity with a symbolic "
                       "density (these update the parameter's dict in place)", stubs=STUBS)
def read_only_reactor_number_density_setters(ctx):
    r, core, (a0,) = _build.mk_core([(0, 0)], nblocks=1)
    b = a0[0]
    clad = b[1]
    n0 = ctx.real("n0", 0.0, 10.0)
    x = ctx.real("x", 0.0, 10.0)
    clad.p.numberDensities = {"FE": n0}
    makeParametersReadOnly(r)
    viaBlock = ctx.bool("through the block")
    refused = False
    try:
        (b if viaBlock else clad).setNumberDensity("FE", x)
    except RuntimeError:
        refused = True
    if ctx.canary:
        refused = AND(refused, NOT(AND(viaBlock, x == 2.5)))
    ctx.check("setNumberDensity is refused", refused)
    if not KNOWN_DEFECT_readonly_inplace_ndens:
        ctx.check_eq("... and the density did not change", clad.getNumberDensity("FE"), n0)
    else:
        ctx.note("KNOWN_DEFECT_readonly_inplace_ndens: value-unchanged obligation skipped")
