"""C20 (all but the label<->number clause): representative blocks are true weighted means of the eligible
members; creating them leaves the members alone; environment groups partition the burnup/temperature axis."""
import os
import random

from symx.core import AND, OR, NOT, IMPLIES, IFF, ITE, MAX, MIN, CLOSE, Sym, is_sym
from symx.engine import harness
from symx import shims

import armi.reactor.composites as compmod
import armi.reactor.components.component as cmod
import armi.reactor.blocks as blkmod
import armi.physics.neutronics.crossSectionGroupManager as xm
import armi.materials.material as matmod
from armi.utils.units import TRACE_NUMBER_DENSITY

from harness import _build
from armi.reactor import components as _components
from armi.reactor.flags import Flags as _Flags

shims.patch(compmod, np=shims.np_shim)
shims.patch(cmod, np=shims.np_shim, float=shims.float_shim)
shims.patch(blkmod, np=shims.np_shim)
shims.patch(xm, np=shims.np_shim)
shims.patch(matmod, np=shims.np_shim)

STUBS = ["composites.np / component.np / blocks.np / crossSectionGroupManager.np / materials.material.np -> "
         "object-array aware numpy shim (np.isnan(proxy)=False)",
         "component.float -> identity on proxies",
         "component volumes are the real geometry at the build temperatures, cached before the symbolic "
         "temperatures are assigned (the temperature is only the averaged quantity, not a driver of expansion)"]

SEED = int(os.environ.get("VERIF_SEED", "0") or 0)

# which component holds which nuclide.  "X" symbolic density in [1e-6,1]; "X?" symbolic in [0,1] (exactly zero
# allowed: counted as trace in temperatures); "X=0" held with a concrete zero density (a massless component)
PATTERNS = {
    "typical": {"fuel": ["U235?", "U238"], "clad": ["FE"], "duct": ["FE=0"]},
    "shared": {"fuel": ["U235?", "FE"], "clad": ["FE"], "duct": ["FE"]},
    "sparse": {"fuel": ["U235?"], "clad": ["FE=0"], "duct": ["FE=0"]},
}
EXTRA_COMPONENTS = {"liner": 0.05, "intercoolant": 0.03}     # FE density of the extra component of an odd member
TLO, THI = 25.0, 750.0     # deg C, inside the validity range of the material correlations (no range warnings)
NUCS = ["U235", "U238", "FE", "PU239"]     # PU239 is in the problem but in no block


def heights(n, symbolic_ctx=None):
    """Pairwise different block heights: concrete per VERIF_SEED (quick) or symbolic (thorough)."""
    if symbolic_ctx is not None:
        return [symbolic_ctx.real("h%d" % k, 1.0, 400.0) for k in range(n)]
    rng = random.Random(1000 + SEED)
    hs = []
    while len(hs) < n:
        h = round(rng.uniform(5.0, 60.0), 3)
        if all(abs(h - x) > 0.5 for x in hs):
            hs.append(h)
    return hs


class Member:
    """One block of the collection together with the symbols injected into it."""

    def __init__(self, ctx, k, btype, pattern, zeroFlux=True, burn=True, h=None, zeroAt=None, symT=True, fat=False,
                 odd=None, order=None, extra=None):
        self.k = k
        self.b = b = _build.mk_block(btype, height=10.0 if is_sym(h) else h, intercoolant=(odd == "outer"))
        b.name = "B%04d" % k
        self.order = order
        if order is not None:
            # the order in which the components are ADDED to the block (a blueprint may list the duct or the clad before
            # the fuel); mk_block adds them in ascending size
            comps = {c.name: c for c in b}
            b.removeAll(recomputeAreaFractions=False)
            for name in list(order) + [n for n in comps if n not in order]:
                b.add(comps[name])
            assert [c.name for c in b][:len(order)] == list(order)
        if odd == "inner":
            # another pin design: annular fuel around a central liner (one more component, innermost)
            b.getComponentByName("fuel").setDimension("id", 0.3)
            b.add(_components.Circle("liner", "HT9", Tinput=25.0, Thot=600, od=0.3, id=0.0, mult=127.0))
            b.clearCache()
        if fat:
            # a member with a different cross-sectional area (fewer pins, wider duct): weights that should contain the
            # volume must not be confused with height-only weights
            b.getComponentByName("fuel").setDimension("mult", 61.0)
            b.getComponentByName("clad").setDimension("mult", 61.0)
            b.getComponentByName("duct").setDimension("op", 19.0)
            b.clearCache()
        self.vol = {}
        if is_sym(h):
            b.p.height = h
            b.clearCache()
        for c in b:
            if is_sym(h):
                c.p.volume = None
            self.vol[c.name] = c.getVolume()          # cached in c.p.volume from here on
        self.V = sum(self.vol.values())
        # the member's component volumes as its own API reports them: volume fraction x block volume
        # (equal to getVolume() of the component up to rounding; C02 checks that relation on its own)
        self.vf = {c.name: f for c, f in b.getVolumeFractions()}
        for name, v in self.vol.items():
            if is_sym(v) or v > 0:            # (a member of zero height has no volumes to compare)
                ctx.check_close("member %d: volume fraction x block volume = volume of %s" % (k, name),
                                self.vf[name] * self.V, v, scale=v)
        self.h = h
        self.dens = {}
        self.T = {}
        for c in b:
            nd = {}
            if c.name in EXTRA_COMPONENTS:
                # the additional component of a member with another layout: concrete content and temperature (no inputs
                # that exist only for some layouts)
                c.p.numberDensities = {"FE": EXTRA_COMPONENTS[c.name]}
                self.dens[(c.name, "FE")] = EXTRA_COMPONENTS[c.name]
                self.T[c.name] = c.temperatureInC
                continue
            for spec in PATTERNS[pattern].get(c.name, []):
                nuc = spec.rstrip("?").split("=")[0]
                if spec.endswith("=0"):
                    nd[nuc] = self.dens[(c.name, nuc)] = 0.0
                    continue
                lo = 0.0 if spec.endswith("?") and (zeroAt is None or k in zeroAt) else 1e-6
                nd[nuc] = self.dens[(c.name, nuc)] = ctx.real("n%d_%s_%s" % (k, c.name, nuc), lo, 1.0)
            for (cn, nuc), x in (extra or {}).items():
                if cn == c.name:
                    nd[nuc] = self.dens[(cn, nuc)] = x       # a nuclide that only this member holds
            c.p.numberDensities = nd
            if symT:
                self.T[c.name] = ctx.real("T%d_%s" % (k, c.name), TLO, THI)
                c.temperatureInC = self.T[c.name]
            else:
                self.T[c.name] = c.temperatureInC
        self.flux = ctx.real("flux%d" % k, 0.0 if zeroFlux else 1e-3, 1e3)
        b.p.flux = self.flux
        if burn:
            self.bu = ctx.real("bu%d" % k, 0.0, 100.0)
            self.hm = ctx.real("hm%d" % k, 0.0, 1e5)
        else:
            self.bu, self.hm = 0.0, 0.0
        b.p.percentBu = self.bu
        b.p.massHmBOL = self.hm

    def twin(self, fluxFactor=1.0):
        """A second, independent block carrying the same values (weighting parameter optionally rescaled)."""
        b = _build.mk_block(self.b.getType(), height=self.h, intercoolant=False)
        b.name = self.b.name + "t"
        for c in b:
            c0 = self.b.getComponentByName(c.name)
            c.getVolume()
            c.p.numberDensities = dict(c0.p.numberDensities)
            c.temperatureInC = c0.temperatureInC
        b.p.flux = self.flux * fluxFactor
        b.p.percentBu = self.bu
        b.p.massHmBOL = self.hm
        return b

    # the member's own values
    def N(self, nuc):
        """homogenised density by definition: sum(v n)/V"""
        return sum(self.vol[c] * n for (c, k), n in self.dens.items() if k == nuc) / self.V

    def values(self, ctx, nucs):
        """homogenised densities as the member's public getter reports them (cross-checked with the definition)"""
        self.x = dict(zip(nucs, self.b.getNuclideNumberDensities(nucs)))
        if not is_sym(self.V) and self.V == 0:
            return              # a member of zero height: no volume-weighted definition to compare with
        for nuc in nucs:
            ctx.check_close("member %d: N(%s) is the volume-weighted mean of its components" % (self.k, nuc),
                            self.x[nuc], self.N(nuc), scale=self.N(nuc) + 1e-30)

    def snapshot(self):
        b = self.b
        s = {"flux": b.p.flux, "bu": b.p.percentBu, "hm": b.p.massHmBOL, "h": b.p.height, "env": b.p.envGroup,
             "xs": b.p.xsType, "name": b.name, "ncomp": len(b), "V": b.getVolume()}
        for c in b:
            s["T_" + c.name] = c.temperatureInC
            s["vol_" + c.name] = c.getVolume()
            s["nucs_" + c.name] = tuple(sorted(c.p.numberDensities))
            for nuc, n in c.p.numberDensities.items():
                s["n_%s_%s" % (c.name, nuc)] = n
        return s


def same(a, b):
    return a == b


def check_unchanged(ctx, members, before, what):
    for m, old in zip(members, before):
        new = m.snapshot()
        ctx.check("%s: member %d keeps its set of recorded items" % (what, m.k), sorted(new) == sorted(old))
        for key in old:
            if key in new:
                ctx.check("%s leaves member %d %s unchanged" % (what, m.k, key), same(new[key], old[key]))


def weights(members, weighted):
    """w_b = weighting parameter x volume; an all-zero parameter means plain volume weights (as coded and
    documented in getWeight: 'don't return 0')."""
    if not weighted:
        return [m.V for m in members]
    allzero = AND(*[m.flux == 0 for m in members])
    return [ITE(allzero, 1.0, m.flux) * m.V for m in members]


def wmean(ws, xs):
    return sum(w * x for w, x in zip(ws, xs)) / sum(ws)


def make_collection(kind, valid, byComponent=False):
    cls = {"flux": xm.FluxWeightedAverageBlockCollection, "volume": xm.AverageBlockCollection,
           "median": xm.MedianBlockCollection}[kind]
    return cls(list(NUCS), validBlockTypes=valid, averageByComponent=byComponent)


CASES = {
    # name: (block types, validBlockTypes)
    "all3": (("fuel", "fuel", "fuel"), None),
    "all2": (("fuel", "fuel"), None),
    "one": (("fuel",), None),
    "last_out": (("fuel", "fuel", "reflector"), ["fuel"]),
    "first_out": (("reflector", "fuel", "fuel"), ["fuel"]),
    # compound (multi-word) valid types: a member is eligible only if it has EVERY word of at least one valid type;
    # members that share just one word with a valid type ('outer fuel' / 'inner reflector' against 'inner fuel') are not
    "compound_mid_out": (("inner fuel", "outer fuel", "inner fuel"), ["inner fuel"]),
    "compound_first_out": (("inner reflector", "inner fuel", "inner fuel"), ["inner fuel"]),
    "compound_two_types": (("axial shield", "radial shield", "inner fuel"), ["axial shield", "inner fuel"]),
    "compound_last_out": (("outer fuel", "control", "inner reflector"), ["outer fuel", "control"]),
    # ... and a member with MORE words than a one-word valid type is eligible
    "superset_in": (("inner fuel", "outer fuel", "inner reflector"), ["fuel"]),
}


def eligible(btype, valid):
    """From the property text ("all valid-block-type filters"; a block HAS a type when it carries all of its words): a
    member is eligible iff there is no filter or it has every word of at least one of the valid types."""
    if not valid:
        return True
    words = set(btype.split())
    return any(set(t.split()) <= words for t in valid)


# orders in which the three components of a member are added to it (the first one is the ascending-size order of
# _build.mk_block, which is how most inputs happen to list them)
ORDERS = [["fuel", "clad", "duct"], ["duct", "clad", "fuel"], ["clad", "duct", "fuel"], ["duct", "fuel", "clad"]]


def holder_sets(types, valid):
    """Which members hold a nuclide that the others do not have at all: every single member (eligible or not, first or
    not) and all eligible members but the first one."""
    n = len(types)
    el = [k for k, t in enumerate(types) if eligible(t, valid)]
    sets = [(k,) for k in range(n)]
    if len(el) > 2:
        sets.append(tuple(el[1:]))
    return sets


def build(ctx, case, pattern, symH=False, allZeros=False, orders=None, someHold=None, **kw):
    """allZeros: every "X?" density of every member may be exactly zero (2^n trace/non-trace paths); otherwise only
    the one of a single eligible member (quick tier).
    orders: the order in which the components are added to the members is a symbolic choice among these.
    someHold: a nuclide (held by the fuel with a symbolic density) that only some members have; which ones is a
    symbolic choice (holder_sets)."""
    types, valid = CASES[case]
    hs = heights(len(types), ctx if symH else None)
    n = len(types)
    kw.setdefault("zeroAt", None if symH or allZeros else (min(1, n - 1),))
    fatFirst = kw.pop("fatFirst", False)
    flat = kw.pop("flat", None)
    if flat is not None:
        hs[flat] = 0.0            # a member of zero height (hence zero volume)
    if orders:
        kw["order"] = ctx.choice("componentOrder", orders)
    extras = [None] * n
    if someHold:
        xs = [ctx.real("n%d_fuel_%s" % (k, someHold), 1e-6, 1.0) for k in range(n)]     # (declared on every path)
        holders = ctx.choice("membersHolding" + someHold, holder_sets(types, valid))
        extras = [({("fuel", someHold): xs[k]} if k in holders else None) for k in range(n)]
    # (a member of zero height keeps its concrete build temperatures: its zero volumes cannot be cached, see STUBS)
    members = [Member(ctx, k, t, pattern, h=hs[k], fat=(fatFirst and k == 0), extra=extras[k],
                      **dict(kw, **({"symT": False} if k == flat else {})))
               for k, t in enumerate(types)]
    for m in members:
        m.values(ctx, NUCS)
    for m, t in zip(members, types):
        # harness precondition: every word of the type name became a flag of the block (so that words = flags)
        assert all(m.b.hasFlags(_Flags.fromString(w)) for w in t.split()) and bin(int(m.b.p.flags)).count("1") == len(t.split())
    elig = [m for m, t in zip(members, types) if eligible(t, valid)]
    return members, elig, valid


def mixed_zero(elig, weighted):
    if not weighted:
        return False
    z = [m.flux == 0 for m in elig]
    return AND(OR(*z), NOT(AND(*z)))


@harness("C20", bounds="<=3 real HexBlocks x 3 components, concrete pairwise different heights (VERIF_SEED) -> "
                       "concrete volumes; symbolic: flux in [0,1e3] incl. exactly 0, densities in [0 or 1e-6, 1], "
                       "component temperatures in [25,750] C; nuclide placement patterns and block-type filters "
                       "enumerated; thorough: symbolic block heights in [1,400]",
         stubs=STUBS, qtimeout_ms=20000, raises=(),
         instances={"quick": [dict(case="all3", pattern="typical", kind="flux"),
                              dict(case="all2", pattern="shared", kind="flux"),
                              dict(case="last_out", pattern="shared", kind="flux"),
                              dict(case="first_out", pattern="typical", kind="volume"),
                              dict(case="one", pattern="sparse", kind="flux"),
                              dict(case="all2", pattern="typical", kind="flux", symH=True),
                              dict(case="compound_mid_out", pattern="shared", kind="flux"),
                              # a nuclide that only some members hold (which ones: solver-chosen, the first eligible
                              # member -- the template of the representative block -- or a later one)
                              dict(case="all2", pattern="sparse", kind="volume", someHold="PU239"),
                              dict(case="first_out", pattern="sparse", kind="flux", someHold="PU239")],
                    "thorough": [dict(case=c, pattern=p, kind=k, symH=s, allZeros=True)
                                 for c in ("all3", "last_out", "first_out", "compound_mid_out", "compound_two_types",
                                           "superset_in") for p in PATTERNS
                                 for k in ("flux", "volume") for s in (False, True)] +
                                [dict(case=c, pattern=p, kind=k, someHold="PU239")
                                 for c in ("all3", "last_out", "first_out", "compound_mid_out")
                                 for p in ("typical", "sparse") for k in ("flux", "volume")]})
def average_block_is_weighted_mean(ctx, case, pattern, kind, symH=False, allZeros=False, someHold=None):
    members, elig, valid = build(ctx, case, pattern, symH=symH, allZeros=allZeros, burn=False, someHold=someHold)
    weighted = kind == "flux"
    col = make_collection(kind, valid)
    col.extend(m.b for m in members)
    before = [m.snapshot() for m in members]
    try:
        rep = col.createRepresentativeBlock()
        raised = False
    except ValueError:
        raised = True
    mixed = mixed_zero(elig, weighted)
    if ctx.canary and len(elig) > 1:
        mixed = AND(mixed, elig[0].flux != 0)
    ctx.check("ValueError iff eligible members mix zero and non-zero weighting parameter", IFF(raised, mixed))
    check_unchanged(ctx, members, before, "createRepresentativeBlock")
    if raised:
        return
    ws = weights(elig, weighted)
    ctx.check("representative is a new object", all(rep is not m.b for m in members))
    avg = col._getAverageNumberDensities()
    for nuc in NUCS:
        xs = [m.x[nuc] for m in elig]
        want = wmean(ws, xs)
        if ctx.canary and nuc == "U235":
            want = want * ITE(elig[0].flux > 900, 1.01, 1.0)
        scale = sum(xs) + 1e-30
        ctx.check_close("averaged N(%s) = sum(w x)/sum(w) over eligible members" % nuc, avg[nuc], want, scale=scale)
        ctx.check_close("representative block holds the averaged N(%s)" % nuc, rep.getNumberDensity(nuc), want,
                        scale=scale)
        ctx.check("averaged N(%s) within [min,max] of the members" % nuc,
                  AND(avg[nuc] >= MIN(*xs) - 1e-12, avg[nuc] <= MAX(*xs) + 1e-12))
        ctx.check("members agree on N(%s) => the average is that value" % nuc,
                  IMPLIES(AND(*[x == xs[0] for x in xs[1:]]) if len(xs) > 1 else True,
                          CLOSE(avg[nuc], xs[0], scale=scale)))
    check_nuclide_temperatures(ctx, col, elig, ws)


def check_nuclide_temperatures(ctx, col, elig, ws):
    """T(nuc) = sum(w n v T)/sum(w n v) over the components of the eligible members that hold the nuclide,
    zero densities counted as trace (documented in getBlockNuclideTemperatureAvgTerms)."""
    for nuc in NUCS:
        num, den, Ts, As = 0.0, 0.0, [], []
        for m, w in zip(elig, ws):
            for (c, k), n in m.dens.items():
                if k == nuc:
                    nn = ITE(n == 0, TRACE_NUMBER_DENSITY, n)
                    a = w * nn * m.vf[c] * m.V          # weight x atoms of the nuclide in that component
                    num = num + a * m.T[c]
                    den = den + a
                    Ts.append(m.T[c])
                    As.append(a)
        got = col.avgNucTemperatures[nuc]
        if not Ts:
            ctx.check("temperature of a nuclide held by no member is reported as 0", got == 0.0)
            continue
        ctx.check_close("T(%s) = sum(w n v T)/sum(w n v) over eligible members" % nuc, got * den, num,
                        scale=den * THI)
        ctx.check("T(%s): the weights of that mean are positive (=> a convex combination)" % nuc,
                  AND(*[a > 0 for a in As]))
        if len(Ts) <= 3:
            ctx.check("T(%s) within [min,max] of the holders' temperatures" % nuc,
                      AND(got >= MIN(*Ts) - 1e-9, got <= MAX(*Ts) + 1e-9))
        ctx.check("holders agree on T(%s) => that value" % nuc,
                  IMPLIES(AND(*[t == Ts[0] for t in Ts[1:]]) if len(Ts) > 1 else True,
                          CLOSE(got, Ts[0], scale=THI)))


@harness("C20", bounds="as average_block_is_weighted_mean, component-level averaging (averageByComponent=True): "
                       "per matching component densities and temperatures; one component without nuclides "
                       "(zero mass -> documented plain mean of temperatures)",
         stubs=STUBS, qtimeout_ms=20000,
         instances={"quick": [dict(case="all3", pattern="typical", kind="flux"),
                              dict(case="last_out", pattern="shared", kind="flux"),
                              dict(case="first_out", pattern="shared", kind="volume"),
                              dict(case="all2", pattern="typical", kind="flux", symH=True),
                              dict(case="compound_first_out", pattern="typical", kind="volume"),
                              # the order in which the components were added to the blocks is solver-chosen
                              dict(case="all2", pattern="typical", kind="volume", orders=ORDERS[:3])],
                    "thorough": [dict(case=c, pattern=p, kind=k, symH=s, allZeros=True)
                                 for c in ("all3", "all2", "last_out", "first_out", "compound_mid_out",
                                           "compound_last_out") for p in PATTERNS
                                 for k in ("flux", "volume") for s in (False, True)] +
                                [dict(case=c, pattern=p, kind=k, orders=ORDERS)
                                 for c in ("all3", "first_out") for p in ("typical", "shared")
                                 for k in ("flux", "volume")] +
                                [dict(case=c, pattern="sparse", kind=k, someHold="PU239")
                                 for c in ("all3", "first_out", "compound_mid_out") for k in ("flux", "volume")] +
                                [dict(case="last_out", pattern="sparse", kind="flux", orders=ORDERS[1:3],
                                      someHold="PU239")]})
def component_average_is_weighted_mean(ctx, case, pattern, kind, symH=False, allZeros=False, orders=None,
                                       someHold=None):
    members, elig, valid = build(ctx, case, pattern, symH=symH, allZeros=allZeros, burn=False, orders=orders,
                                 someHold=someHold)
    weighted = kind == "flux"
    col = make_collection(kind, valid, byComponent=True)
    col.extend(m.b for m in members)
    before = [m.snapshot() for m in members]
    masses = [{c.name: c.getMass() for c in m.b} for m in elig]      # the members' own component masses
    try:
        rep = col.createRepresentativeBlock()
        raised = False
    except ValueError:
        raised = True
    ctx.check("ValueError iff eligible members mix zero and non-zero weighting parameter",
              IFF(raised, mixed_zero(elig, weighted)))
    check_unchanged(ctx, members, before, "createRepresentativeBlock (by component)")
    if raised:
        return
    ws = weights(elig, weighted)
    names = [c.name for c in members[0].b]
    ctx.check("representative has the members' components", sorted(c.name for c in rep) == sorted(names))
    for rc in rep:
        cname = rc.name
        for nuc in NUCS:
            xs = [m.dens.get((cname, nuc), 0.0) for m in elig]
            want = wmean(ws, xs)
            if ctx.canary and nuc == "U235" and cname == "fuel":
                want = want * ITE(elig[0].flux > 900, 1.01, 1.0)
            got = rc.getNumberDensity(nuc)
            scale = sum(xs) + 1e-30
            ctx.check_close("%s: averaged N(%s) = sum(w x)/sum(w) over eligible members" % (cname, nuc), got, want,
                            scale=scale)
            if any(is_sym(x) for x in xs):
                ctx.check("%s: averaged N(%s) within [min,max] of the members" % (cname, nuc),
                          AND(got >= MIN(*xs) - 1e-12, got <= MAX(*xs) + 1e-12))
                ctx.check("%s: members agree on N(%s) => that value" % (cname, nuc),
                          IMPLIES(AND(*[x == xs[0] for x in xs[1:]]) if len(xs) > 1 else True,
                                  CLOSE(got, xs[0], scale=scale)))
        # component temperature: block weight (without the block height, which the mass already carries) x mass
        Ts = [m.T[cname] for m in elig]
        mw = [w / m.b.getHeight() * mm[cname] for m, w, mm in zip(elig, ws, masses)]
        tot = sum(mw)
        got = rc.temperatureInC
        plain = sum(Ts) / len(Ts)
        # (for a massless component both sides of the first relation vanish; the second one then fixes the value)
        ctx.check_close("%s: temperature x sum(w m) = sum(w m T)  (mass-and-weight weighted mean)" % cname, got * tot,
                        sum(a * t for a, t in zip(mw, Ts)), scale=tot * THI + 1e-30)
        ctx.check("%s: massless component => plain mean of the members' temperatures (as documented)" % cname,
                  IMPLIES(tot == 0, CLOSE(got, plain, scale=THI)))
        ctx.check("%s: temperature within [min,max] of the members" % cname,
                  AND(got >= MIN(*Ts) - 1e-9, got <= MAX(*Ts) + 1e-9))
        ctx.check("%s: members agree on the temperature => that value" % cname,
                  IMPLIES(AND(*[t == Ts[0] for t in Ts[1:]]) if len(Ts) > 1 else True, CLOSE(got, Ts[0], scale=THI)))
    check_nuclide_temperatures(ctx, col, elig, ws)


# The property: "the representative block of a group is built only from the group's eligible members ... the
# averaged burnup is the heavy-metal-weighted mean".  _calcWeightedBurnup loops over ALL members.
KNOWN_DEFECT_burnup_counts_ineligible_members = False  # repaired in /repo (fix: 3bb5d80)

# Reported by an independent engineer and confirmed on the unchanged tree: _calcWeightedBurnup divides the block weight
# by b.getVolume() to take the volume out again, but getWeight() uses `block.getVolume() or 1.0` ("don't return 0"): a
# member of zero volume (zero height) makes createRepresentativeBlock of an averaging collection raise
# ZeroDivisionError, although the rest of the averaging copes with it.  Plain-Python reproduction:
#   bs = [mk_block("fuel", height=h, intercoolant=False) for h in (0.0, 20.0)]; col = AverageBlockCollection(nucs);
#   col.extend(bs); col.createRepresentativeBlock()  ->  ZeroDivisionError at crossSectionGroupManager.py:262
# Patch: /tmp/scratch/triage/KNOWN_DEFECT_burnup_divides_by_zero_volume.diff; the zero-height instances below are
# switched on when the flag is False.
KNOWN_DEFECT_burnup_divides_by_zero_volume = False  # repaired in /repo (fix: 0c4ac9e)
_FLAT = [] if KNOWN_DEFECT_burnup_divides_by_zero_volume else [dict(case="all3", kind="flux", flat=1),
                                                                 dict(case="first_out", kind="volume", flat=2)]


@harness("C20", bounds="<=3 real HexBlocks; symbolic percentBu in [0,100], massHmBOL in [0,1e5] (incl. 0), flux in "
                       "[0,1e3] incl. 0; block-type filters enumerated; instances with one member of zero height (zero volume)",
         stubs=STUBS, qtimeout_ms=20000,
         instances={"quick": [dict(case="all3", kind="flux"), dict(case="all2", kind="volume"),
                              dict(case="last_out", kind="flux"), dict(case="first_out", kind="volume"),
                              dict(case="all3", kind="flux", fatFirst=True), dict(case="all2", kind="volume", fatFirst=True),
                              dict(case="compound_two_types", kind="flux"), dict(case="superset_in", kind="volume")]
                             + _FLAT,
                    "thorough": [dict(case=c, kind=k, fatFirst=f) for c in CASES for k in ("flux", "volume")
                                 for f in (False, True)] +
                                [dict(i, flat=f) for i in _FLAT for f in (0, 1, 2)]})
def averaged_burnup_is_heavy_metal_weighted_mean(ctx, case, kind, fatFirst=False, flat=None):
    members, elig, valid = build(ctx, case, "sparse", burn=True, fatFirst=fatFirst, flat=flat)
    weighted = kind == "flux"
    col = make_collection(kind, valid)
    col.extend(m.b for m in members)
    before = [m.snapshot() for m in members]
    try:
        rep = col.createRepresentativeBlock()
    except ValueError:
        ctx.check("ValueError only for mixed zero / non-zero weighting parameter", mixed_zero(elig, weighted))
        return
    check_unchanged(ctx, members, before, "createRepresentativeBlock")
    who = members if KNOWN_DEFECT_burnup_counts_ineligible_members else elig
    # heavy-metal weight: initial heavy-metal mass x weighting parameter (volume is already inside the mass);
    # a zero parameter counts as 1 (eligible members are all-zero or all-positive here)
    hw = [m.hm * (ITE(m.flux == 0, 1.0, m.flux) if weighted else 1.0) for m in who]
    tot = sum(hw)
    got = rep.p.percentBu
    num = sum(w * m.bu for w, m in zip(hw, who))
    if ctx.canary:
        num = num * ITE(who[0].bu > 90, 1.01, 1.0)
    ctx.check_close("burnup x sum(hm w) = sum(hm w bu) over eligible members", got * tot, num, scale=tot * 100 + 1e-30)
    ctx.check("no heavy metal at all => burnup reported as 0", IMPLIES(tot == 0, got == 0))
    bus = [m.bu for m, w in zip(who, hw)]
    ctx.check("averaged burnup within [min,max] of the members (or 0 without heavy metal)",
              OR(tot == 0, AND(got >= MIN(*bus) - 1e-9, got <= MAX(*bus) + 1e-9)))


# Reported by an independent engineer and confirmed on the unchanged tree: MedianBlockCollection._makeRepresentativeBlock
# calls lfpCollection.setGasRemovedFrac(...), a method that LumpedFissionProductCollection does not have (nothing in
# armi defines it): whenever the median member carries lumped fission products (fpModel MO99 / infinitelyDilute),
# createRepresentativeBlock raises AttributeError.  Plain-Python reproduction:
#   b = mk_block("fuel"); b.setLumpedFissionProducts(lumpedFissionProductFactory({"fpModel": "MO99"}))
#   col = MedianBlockCollection(nucs); col.append(b); col.createRepresentativeBlock()
#   -> AttributeError: 'LumpedFissionProductCollection' object has no attribute 'setGasRemovedFrac'
# Patch: /tmp/scratch/triage/KNOWN_DEFECT_median_block_with_lumped_fission_products_raises.diff; the instances whose
# members carry lumped fission products are switched on when the flag is False.
KNOWN_DEFECT_median_block_with_lumped_fission_products_raises = False  # repaired in /repo (fix: 542c3ce)
_LFP = [] if KNOWN_DEFECT_median_block_with_lumped_fission_products_raises else [dict(case="all2", wparam="flux", lfp=True)]


def lfp_content(col):
    """{lumped fission product: {nuclide: yield}} of a collection (None when there is none)"""
    return None if col is None else {name: {nb.name: y for nb, y in lfp.items()} for name, lfp in col.items()}


@harness("C20", bounds="<=3 real HexBlocks; symbolic percentBu in [0,100] (ties included), flux in [1e-3,1e3], "
                       "densities, temperatures; weighting parameter None (volume) or flux; type filters enumerated; "
                       "instances whose members carry lumped fission products (the MO99 model's collection)",
         stubs=STUBS, qtimeout_ms=20000,
         instances={"quick": [dict(case="all3", wparam=None), dict(case="all3", wparam="flux"),
                              dict(case="all2", wparam="flux"), dict(case="last_out", wparam="flux"),
                              dict(case="first_out", wparam=None), dict(case="one", wparam=None),
                              dict(case="compound_mid_out", wparam="flux"), dict(case="compound_last_out", wparam=None)]
                             + _LFP,
                    "thorough": [dict(case=c, wparam=w, pattern=p) for c in CASES for w in (None, "flux")
                                 for p in ("typical", "shared")] +
                                [dict(i, case=c) for i in _LFP for c in ("all2", "all3", "first_out")]})
def median_block_is_a_member_with_middle_weighted_burnup(ctx, case, wparam, pattern="typical", lfp=False):
    members, elig, valid = build(ctx, case, pattern, burn=True, zeroFlux=False)
    col = make_collection("median", valid)
    col.weightingParam = wparam
    col.extend(m.b for m in members)
    lfps = {}
    if lfp:
        from armi.physics.neutronics.fissionProductModel import lumpedFissionProduct as lfpmod
        from armi.physics.neutronics.fissionProductModel.fissionProductModelSettings import CONF_FP_MODEL

        for m in members:
            lfps[m.k] = lfpmod.lumpedFissionProductFactory({CONF_FP_MODEL: "MO99"})      # one collection per member
            m.b.setLumpedFissionProducts(lfps[m.k])
        lfpBefore = {k: lfp_content(c) for k, c in lfps.items()}
        assert all(lfpBefore.values())
    before = [m.snapshot() for m in members]
    rep = col.createRepresentativeBlock()
    check_unchanged(ctx, members, before, "createRepresentativeBlock (median)")
    if lfp:
        for m in members:
            ctx.check("member %d keeps its lumped fission products" % m.k,
                      m.b.getLumpedFissionProductCollection() is lfps[m.k] and lfp_content(lfps[m.k]) == lfpBefore[m.k])
    chosen = [m for m in members if m.b.name == rep.name]
    ctx.check("the representative is a copy of exactly one member", len(chosen) == 1 and rep is not chosen[0].b)
    if len(chosen) != 1:
        return
    ch = chosen[0]
    ctx.check("... of an eligible member", ch in elig)
    if lfp:
        ctx.check("the representative carries the lumped fission products (names, nuclide yields) of its member",
                  lfp_content(rep.getLumpedFissionProductCollection()) == lfpBefore[ch.k])
    snap = before[ch.k]
    for c in rep:
        ctx.check("copy keeps temperature of %s" % c.name, same(c.temperatureInC, snap["T_" + c.name]))
        for nuc, n in c.p.numberDensities.items():
            ctx.check("copy keeps N(%s) of %s" % (nuc, c.name), same(n, snap["n_%s_%s" % (c.name, nuc)]))
    ctx.check("copy keeps burnup, heavy metal, flux", AND(same(rep.p.percentBu, snap["bu"]),
                                                        same(rep.p.massHmBOL, snap["hm"]),
                                                        same(rep.p.flux, snap["flux"])))
    # weighted burnup = burnup x (weighting parameter x volume); the chosen one is the floor(n/2)-th order statistic
    key = {m.k: m.bu * (m.flux if wparam else 1.0) * m.V for m in elig}
    n = len(elig)
    nless = sum(ITE(key[m.k] < key[ch.k], 1, 0) for m in elig)
    nleq = sum(ITE(key[m.k] <= key[ch.k], 1, 0) for m in elig)
    bound = n // 2
    if ctx.canary:
        bound = bound - ITE(elig[0].bu > 90, 1, 0)
    ctx.check("at most floor(n/2) eligible members lie strictly below the chosen weighted burnup", nless <= bound)
    ctx.check("at least floor(n/2)+1 eligible members lie at or below it", nleq >= n // 2 + 1)
    # nuclide temperatures are those of the chosen member alone
    check_nuclide_temperatures(ctx, col, [ch], [1.0])


@harness("C20", bounds="2 real HexBlocks (+ twins carrying the same values); symbolic flux in [1e-3,1e3], densities, "
                       "temperatures, burnup, heavy metal; common rescaling factor k in [1e-3,1e3] of all weights",
         stubs=STUBS, qtimeout_ms=20000,
         instances={"quick": [dict(pattern="typical", byComponent=False), dict(pattern="shared", byComponent=True)],
                    "thorough": [dict(pattern=p, byComponent=bc) for p in PATTERNS for bc in (False, True)]})
def average_unchanged_by_duplicating_members_or_rescaling_weights(ctx, pattern, byComponent):
    members, elig, valid = build(ctx, "all2", pattern, burn=True, zeroFlux=False)
    k = ctx.real("k", 1e-3, 1e3)

    def run(blocks):
        col = make_collection("flux", None, byComponent=byComponent)
        col.extend(blocks)
        rep = col.createRepresentativeBlock()
        out = {"bu": rep.p.percentBu}
        for nuc in NUCS:
            out["N_" + nuc] = rep.getNumberDensity(nuc)
            out["T_" + nuc] = col.avgNucTemperatures[nuc]
        for c in rep:
            out["Tc_" + c.name] = c.temperatureInC
            for nuc in c.p.numberDensities:
                out["Nc_%s_%s" % (c.name, nuc)] = c.getNumberDensity(nuc)
        return out

    base = run([m.b for m in members])
    dup = run([m.b for m in members] + [m.twin() for m in members])
    resc = run([m.twin(fluxFactor=k) for m in members])
    if ctx.canary:
        resc["N_U235"] = resc["N_U235"] * ITE(k > 900, 1.01, 1.0)
    ctx.check("same set of results", sorted(base) == sorted(dup) == sorted(resc))
    for key, v in base.items():
        scale = {"b": 100.0, "N": 1.0, "T": THI}[key[0]]
        ctx.check_close("duplicating every member leaves %s unchanged" % key, dup[key], v, scale=scale)
        ctx.check_close("rescaling all weights leaves %s unchanged" % key, resc[key], v, scale=scale)


# ---------------------------------------------------------------------------------------------------------------
# partition: environment (burnup x temperature) groups and cross-section groups


class _NS:
    def __init__(self, **kw):
        self.__dict__.update(kw)


def make_manager(buBounds, tempBounds):
    """A CrossSectionGroupManager without reactor/operator: only the attributes the grouping methods read."""
    from armi.physics.neutronics.crossSectionSettings import XSSettings
    from armi.physics.neutronics.const import CONF_CROSS_SECTION

    csm = object.__new__(xm.CrossSectionGroupManager)
    xs = XSSettings()
    xs.setDefaults(xm.AVERAGE_BLOCK_COLLECTION, None)
    csm.cs = {CONF_CROSS_SECTION: xs, "tempGroups": list(tempBounds), "buGroups": list(buBounds)}
    csm.r = _NS(blueprints=_NS(allNuclidesInProblem=list(NUCS)))
    csm._envGroupUpdatesEnabled = True
    csm._setBuGroupBounds(list(buBounds))            # the real validators
    csm._setTempGroupBounds(list(tempBounds))
    return csm


def group_index(x, bounds):
    """Index of the half-open interval (lower, upper] that holds x; the last group is unbounded above."""
    return sum(ITE(x > u, 1, 0) for u in bounds)


XS_TYPES = ("A", "B", "A")


@harness("C20", bounds="3 real HexBlocks with XS types A,B,A; symbolic burnup in [0,100]; nb<=3 symbolic ascending "
                       "burnup boundaries in (0,100] and nt<=2 symbolic ascending temperature boundaries in "
                       "[25,750] C; symbolic fuel temperature and densities (temperature isotope U238 in the fuel)",
         stubs=STUBS, qtimeout_ms=20000, max_paths=6000,
         instances={"quick": [dict(nb=2, nt=0), dict(nb=1, nt=1), dict(nb=2, nt=1), dict(nb=0, nt=0), dict(nb=3, nt=0),
                              dict(nb=2, nt=0, enabled=False)],
                    "thorough": [dict(nb=b, nt=t) for b in range(4) for t in range(3)] +
                                [dict(nb=3, nt=2, enabled=False)]})
def environment_groups_partition_burnup_and_temperature(ctx, nb, nt, enabled=True):
    ub = [ctx.real("ub%d" % i, 0.0, 100.0, lo_open=True) for i in range(nb)]
    ut = [ctx.real("ut%d" % i, TLO, THI) for i in range(nt)]
    for a, b in zip(ub, ub[1:]):
        ctx.assume(a < b)
    for a, b in zip(ut, ut[1:]):
        ctx.assume(a < b)
    csm = make_manager(ub, ut)
    if not enabled:
        ctx.check("disableEnvGroupUpdates reports the previous state", csm.disableEnvGroupUpdates() is True)
    members = []
    hs = heights(len(XS_TYPES))
    for k, xs in enumerate(XS_TYPES):
        m = Member(ctx, k, "fuel", "typical", h=hs[k], burn=True, zeroAt=())
        m.b.p.xsType = xs
        members.append(m)
    before = [m.snapshot() for m in members]
    groups = csm._addXsGroupsFromBlocks({}, [m.b for m in members])
    nBu = nb + 1
    single = (nb == 0 and nt == 0) or not enabled       # nothing to update / updates switched off
    ids = []
    for m, old in zip(members, before):
        num = m.b.p.envGroupNum
        if single:
            ctx.check("a single environment group (or updates disabled): env group left alone whatever the burnup",
                      AND(num == (ITE(m.bu > 99, 1, 0) if ctx.canary else 0), m.b.p.envGroup == "A"))
            bg = tg = 0
        else:
            bg, tg = num % nBu, num // nBu
            wb = group_index(m.bu, ub)
            wt = group_index(m.T["fuel"], ut)
            if ctx.canary and m.k == 1:
                # deliberately wrong: upper boundary exclusive (differs only when the burnup sits on a boundary)
                wb = sum(ITE(m.bu >= u, 1, 0) for u in ub) if ub else wb + ITE(m.bu > 99, 1, 0)
            ctx.check_eq("member %d: burnup group = the interval (lower, upper] holding its burnup" % m.k, bg, wb)
            ctx.check_eq("member %d: temperature group = the interval (lower, upper] holding T(U238)" % m.k, tg, wt)
            ctx.check("member %d: env group letter follows the group number" % m.k,
                      m.b.p.envGroup == "ABCDEFGHIJKLMNOPQRSTUVWXYZ"[num])
        sfx = m.b.getMicroSuffix()
        ctx.check("member %d: group id = XS type + env group letter" % m.k, sfx == XS_TYPES[m.k] + m.b.p.envGroup)
        holders = [key for key, col in groups.items() if any(x is m.b for x in col)]
        ctx.check("member %d is in exactly one group, the one named by its id" % m.k, holders == [sfx])
        ctx.check("member %d appears once in that group" % m.k, sum(1 for x in groups[sfx] if x is m.b) == 1)
        ids.append((XS_TYPES[m.k], bg, tg, sfx))
        # nothing but the env group changes on the block
        new = m.snapshot()
        for key in old:
            if key != "env":
                ctx.check("grouping leaves member %d %s unchanged" % (m.k, key), same(new[key], old[key]))
    ctx.check("no block is lost or duplicated", sum(len(col) for col in groups.values()) == len(members))
    for i in range(len(ids)):
        for j in range(i + 1, len(ids)):
            ctx.check("members %d,%d share a group iff same XS type and same environment group" % (i, j),
                      (ids[i][3] == ids[j][3]) == (ids[i][:3] == ids[j][:3]))


# envGroupNum == 52 is accepted by the parameter setter (it refuses only > 52) and maps to chr(123) = '{', which is
# not a letter and does not map back to 52.
KNOWN_DEFECT_env_group_number_52_maps_to_brace = False  # repaired in /repo (fix: e84d4ee)


@harness("C20", bounds="environment group number n in [0,60] symbolic (forked over its values) on a real HexBlock",
         stubs=STUBS, max_paths=200)
def environment_group_number_and_letter_correspond(ctx):
    import string

    n = ctx.int("n", 0, 60)
    b = _build.mk_block("fuel", intercoolant=False)
    try:
        b.p.envGroupNum = n
        refused = False
    except RuntimeError:
        refused = True
    limit = 52 + (1 if KNOWN_DEFECT_env_group_number_52_maps_to_brace else 0)
    if ctx.canary:
        limit = limit - ITE(n == 37, 20, 0)
    ctx.check("group numbers beyond the 52 letters are refused, the others accepted", IFF(refused, n >= limit))
    if refused:
        return
    letter = b.p.envGroup
    if KNOWN_DEFECT_env_group_number_52_maps_to_brace and bool(n == 52):
        return
    ctx.check("the env group letter is one of the 52 admissible letters", letter in string.ascii_letters)
    ctx.check("the group id ends with that letter", b.getMicroSuffix() == b.p.xsType + letter)
    b2 = _build.mk_block("fuel", intercoolant=False)
    b2.p.envGroup = letter
    ctx.check_eq("letter -> number inverts number -> letter (distinct numbers give distinct group ids)",
                 b2.p.envGroupNum, n)


@harness("C20", bounds="1-D cylindrical representation: the matching component of <=3 real blocks; symbolic block "
                       "weights in [0,1e3] (incl. all zero), densities; concrete component areas (concrete temperatures)",
         stubs=STUBS, qtimeout_ms=20000,
         instances={"quick": [dict(n=3, pattern="shared", comp="fuel"), dict(n=2, pattern="typical", comp="clad")],
                    "thorough": [dict(n=n, pattern=p, comp=c) for n in (1, 2, 3) for p in PATTERNS
                                 for c in ("fuel", "clad", "duct")
                                 if any(not spec.endswith("=0") for spec in PATTERNS[p].get(c, []))]})
def cylindrical_component_average_is_area_and_weight_weighted_mean(ctx, n, pattern, comp):
    hs = heights(n)
    members = [Member(ctx, k, "fuel", pattern, h=hs[k], burn=False, zeroAt=(0,), symT=False) for k in range(n)]
    ws = [ctx.real("w%d" % k, 0.0, 1e3) for k in range(n)]
    comps = [[c for c in m.b if c.name == comp][0] for m in members]
    for k, c in enumerate(comps):
        c.setTemperature(c.temperatureInC + 70.0 * k)      # different (concrete) hot areas in every member
        c.p.numberDensities = {nuc: x for (cn, nuc), x in members[k].dens.items() if cn == comp}   # (re-inject)
    areas = [c.getArea() for c in comps]
    ctx.check("members have pairwise different component areas", len(set(areas)) == len(areas))
    col = xm.CylindricalComponentsAverageBlockCollection(list(NUCS))
    names, dens = col._getAverageComponentNucs(comps, ws)
    tot = sum(w * a for w, a in zip(ws, areas))
    held = sorted(set(k for m in members for (c, k) in m.dens if c == comp))
    ctx.check("averaged nuclides = union of the members' nuclides", list(names) == held)
    for nuc, got in zip(names, dens):
        xs = [m.dens.get((comp, nuc), 0.0) for m in members]
        num = sum(w * a * x for w, a, x in zip(ws, areas, xs))
        if ctx.canary:
            num = num * ITE(ws[0] > 900, 1.01, 1.0)
        ctx.check_close("N(%s) x sum(w A) = sum(w A x)" % nuc, got * tot, num, scale=tot + 1e-30)
        ctx.check("all weights zero => N(%s) reported as 0" % nuc, IMPLIES(tot == 0, got == 0))
        ctx.check("N(%s) within [min,max] of the members (or 0 without weight)" % nuc,
                  OR(tot == 0, AND(got >= MIN(*xs) - 1e-12, got <= MAX(*xs) + 1e-12)))


# ---------------------------------------------------------------------------------------------------------------
# component-level averaging is only possible when ALL eligible members have the same component layout; otherwise the
# documented fall-back is the block-level average ("Number densities will be smeared in representative block")

# AverageBlockCollection._checkBlockSimilarity compares the component flags of each member with those of the
# reference member with zip(), i.e. only over the common prefix: a member that has the reference layout PLUS further
# components after it (e.g. a fuel block with an inter-duct coolant around the duct, layout "outer" below) is accepted as
# similar.  Component-level averaging then raises IndexError when that member comes first and otherwise drops the
# content of its additional component (plain-Python reproduction in the report).  The "outer" layout instances are
# switched on when this flag is False.
KNOWN_DEFECT_similarity_check_compares_only_common_prefix = False  # repaired in /repo (fix: 15743d2)
ODD_LAYOUTS = ("inner",) if KNOWN_DEFECT_similarity_check_compares_only_common_prefix else ("inner", "outer")


@harness("C20", bounds="component-level averaging requested (averageByComponent=True) for 3-4 real HexBlocks of which "
                       "one - at a solver-chosen position first / middle / last, or none - has another component layout "
                       "(annular fuel around a liner: 4 components instead of 3; thorough also: an additional outer "
                       "component); concrete pairwise different heights; symbolic flux in [1e-3,1e3], densities in "
                       "[1e-6,1], component temperatures in [25,750] C; the additional component has concrete content",
         stubs=STUBS, qtimeout_ms=20000,
         instances={"quick": [dict(n=3, kind="flux", layout="inner", pattern="sparse"),
                              dict(n=4, kind="volume", layout="inner")],
                    # (4 members with flux weights AND symbolic temperatures: 15-25 min per instance and solver
                    # unknowns on the weighted-mean identities: left out, stated as outside the bound; 4 members run
                    # with volume weights, flux weights with 3 members)
                    "thorough": [dict(n=n, kind=k, layout=l, pattern=p, temps=True) for n in (3, 4)
                                 for k in ("flux", "volume") for l in ODD_LAYOUTS for p in ("typical", "shared")
                                 if not (n == 4 and k == "flux")]})
def component_average_only_when_all_members_are_alike(ctx, n, kind, layout, pattern="typical", temps=False):
    hs = heights(n)
    pos = ctx.choice("oddMember", list(range(n)) + [None])        # which member has the other layout (None: all alike)
    members = [Member(ctx, k, "fuel", pattern, h=hs[k], burn=False, zeroFlux=False, zeroAt=(),
                      odd=(layout if k == pos else None)) for k in range(n)]
    for m in members:
        m.values(ctx, NUCS)
    weighted = kind == "flux"
    col = make_collection(kind, None, byComponent=True)
    col.extend(m.b for m in members)
    before = [m.snapshot() for m in members]
    flags = [[c.p.flags for c in sorted(m.b.getComponents())] for m in members]
    alike = all(f == flags[0] for f in flags)
    ctx.check("the chosen member (and only it) has another component layout", alike == (pos is None))
    rep = col.createRepresentativeBlock()
    check_unchanged(ctx, members, before, "createRepresentativeBlock (by component requested)")
    ctx.check("representative is a new object", all(rep is not m.b for m in members))
    ctx.check("the members count as similar iff they all have the same components in the same order",
              bool(col._checkBlockSimilarity()) == alike)
    ws = weights(members, weighted)
    for nuc in NUCS:
        xs = [m.x[nuc] for m in members]
        want = wmean(ws, xs)
        if ctx.canary and nuc == "U235":
            want = want * ITE(members[0].flux > 900, 1.01, 1.0)
        scale = sum(xs) + 1e-30
        ctx.check_close("representative block: N(%s) = sum(w x)/sum(w) over the members (component by component when "
                        "all are alike, block-level otherwise)" % nuc, rep.getNumberDensity(nuc), want, scale=scale)
        ctx.check("N(%s) within [min,max] of the members" % nuc,
                  AND(rep.getNumberDensity(nuc) >= MIN(*xs) - 1e-12, rep.getNumberDensity(nuc) <= MAX(*xs) + 1e-12))
    if not temps:
        return          # (quick tier: the component-level values and the nuclide temperatures have harnesses of their own)
    if alike:
        for rc in rep:
            for nuc in NUCS:
                xs = [m.dens.get((rc.name, nuc), 0.0) for m in members]
                ctx.check_close("all alike: %s N(%s) = sum(w x)/sum(w) of the members' matching component" % (rc.name, nuc),
                                rc.getNumberDensity(nuc), wmean(ws, xs), scale=sum(xs) + 1e-30)
    check_nuclide_temperatures(ctx, col, members, ws)
