"""C20 (all but the label<->number clause): representative blocks are true weighted means of the eligible
members; creating them leaves the members alone; environment groups partition the burnup/temperature axis."""
import os
import random

from symx.core import AND, OR, NOT, IMPLIES, IFF, ITE, MAX, MIN, CLOSE, Sym, is_sym
from symx.engine import harness
from symx import shims

import armi.reactor.composites as compmod
import armi.reactor.components.component as cmod
import armi.reactor.blocks as blkmod
import armi.physics.neutronics.crossSectionGroupManager as xm
from armi.utils.units import TRACE_NUMBER_DENSITY

from harness import _build

shims.patch(compmod, np=shims.np_shim)
shims.patch(cmod, np=shims.np_shim, float=shims.float_shim)
shims.patch(blkmod, np=shims.np_shim)
shims.patch(xm, np=shims.np_shim)

STUBS = ["composites.np / component.np / blocks.np / crossSectionGroupManager.np -> object-array aware numpy shim",
         "component.float -> identity on proxies",
         "component volumes are the real geometry at the build temperatures, cached before the symbolic "
         "temperatures are assigned (the temperature is only the averaged quantity, not a driver of expansion)"]

SEED = int(os.environ.get("VERIF_SEED", "0") or 0)

# which component holds which nuclide; a trailing '0' marks a density that may be exactly zero (trace branch)
PATTERNS = {
    "typical": {"fuel": ["U235", "U238"], "clad": ["FE"]},
    "shared": {"fuel": ["U235", "FE"], "clad": ["FE"], "duct": ["FE"]},
    "sparse": {"fuel": ["U235"]},
}
ZERO_OK = {("fuel", "U235")}
NUCS = ["U235", "U238", "FE", "PU239"]     # PU239 is in the problem but in no block


def heights(n, symbolic_ctx=None):
    """Pairwise different block heights: concrete per VERIF_SEED (quick) or symbolic (thorough)."""
    if symbolic_ctx is not None:
        return [symbolic_ctx.real("h%d" % k, 1.0, 400.0) for k in range(n)]
    rng = random.Random(1000 + SEED)
    hs = []
    while len(hs) < n:
        h = round(rng.uniform(5.0, 60.0), 3)
        if all(abs(h - x) > 0.5 for x in hs):
            hs.append(h)
    return hs


class Member:
    """One block of the collection together with the symbols injected into it."""

    def __init__(self, ctx, k, btype, pattern, symH=False, zeroFlux=True, burn=True, zeros=ZERO_OK, h=None):
        self.k = k
        self.b = b = _build.mk_block(btype, height=10.0 if is_sym(h) else h, intercoolant=False)
        b.name = "B%04d" % k
        self.vol = {}
        if is_sym(h):
            b.p.height = h
            b.clearCache()
        for c in b:
            if is_sym(h):
                c.p.volume = None
            self.vol[c.name] = c.getVolume()          # cached in c.p.volume from here on
        self.V = sum(self.vol.values())
        self.h = h
        self.dens = {}
        self.T = {}
        for c in b:
            nd = {}
            for nuc in PATTERNS[pattern].get(c.name, []):
                lo = 0.0 if (c.name, nuc) in zeros else 1e-6
                nd[nuc] = self.dens[(c.name, nuc)] = ctx.real("n%d_%s_%s" % (k, c.name, nuc), lo, 1.0)
            c.p.numberDensities = nd
            self.T[c.name] = ctx.real("T%d_%s" % (k, c.name), 0.0, 3000.0)
            c.temperatureInC = self.T[c.name]
        self.flux = ctx.real("flux%d" % k, 0.0 if zeroFlux else 1e-3, 1e3)
        b.p.flux = self.flux
        if burn:
            self.bu = ctx.real("bu%d" % k, 0.0, 100.0)
            self.hm = ctx.real("hm%d" % k, 0.0, 1e5)
        else:
            self.bu, self.hm = 0.0, 0.0
        b.p.percentBu = self.bu
        b.p.massHmBOL = self.hm

    # the member's own values (plain definitions from the injected symbols)
    def N(self, nuc):
        return sum(self.vol[c] * n for (c, k), n in self.dens.items() if k == nuc) / self.V

    def snapshot(self):
        b = self.b
        s = {"flux": b.p.flux, "bu": b.p.percentBu, "hm": b.p.massHmBOL, "h": b.p.height, "env": b.p.envGroup,
             "xs": b.p.xsType, "name": b.name, "ncomp": len(b), "V": b.getVolume()}
        for c in b:
            s["T_" + c.name] = c.temperatureInC
            s["vol_" + c.name] = c.getVolume()
            s["nucs_" + c.name] = tuple(sorted(c.p.numberDensities))
            for nuc, n in c.p.numberDensities.items():
                s["n_%s_%s" % (c.name, nuc)] = n
        return s


def same(a, b):
    if is_sym(a) or is_sym(b):
        return a == b
    return a == b


def check_unchanged(ctx, members, before, what):
    for m, old in zip(members, before):
        new = m.snapshot()
        ctx.check("%s: member %d keeps its set of recorded items" % (what, m.k), sorted(new) == sorted(old))
        for key in old:
            if key in new:
                ctx.check("%s leaves member %d %s unchanged" % (what, m.k, key), same(new[key], old[key]))


def weights(members, weighted):
    """w_b = weighting parameter x volume; an all-zero parameter means plain volume weights (as coded and
    documented in getWeight: 'don't return 0')."""
    if not weighted:
        return [m.V for m in members]
    allzero = AND(*[m.flux == 0 for m in members])
    return [ITE(allzero, 1.0, m.flux) * m.V for m in members]


def wmean(ws, xs):
    return sum(w * x for w, x in zip(ws, xs)) / sum(ws)


def make_collection(kind, valid, byComponent=False):
    cls = {"flux": xm.FluxWeightedAverageBlockCollection, "volume": xm.AverageBlockCollection,
           "median": xm.MedianBlockCollection}[kind]
    return cls(list(NUCS), validBlockTypes=valid, averageByComponent=byComponent)


CASES = {
    # name: (block types, validBlockTypes)
    "all3": (("fuel", "fuel", "fuel"), None),
    "all2": (("fuel", "fuel"), None),
    "one": (("fuel",), None),
    "last_out": (("fuel", "fuel", "reflector"), ["fuel"]),
    "first_out": (("reflector", "fuel", "fuel"), ["fuel"]),
}


def build(ctx, case, pattern, symH=False, **kw):
    types, valid = CASES[case]
    hs = heights(len(types), ctx if symH else None)
    members = [Member(ctx, k, t, pattern, h=hs[k], **kw) for k, t in enumerate(types)]
    elig = [m for m, t in zip(members, types) if valid is None or t in valid]
    return members, elig, valid


def mixed_zero(elig, weighted):
    if not weighted:
        return False
    z = [m.flux == 0 for m in elig]
    return AND(OR(*z), NOT(AND(*z)))


@harness("C20", bounds="<=3 real HexBlocks x 3 components, concrete pairwise different heights (VERIF_SEED) -> "
                       "concrete volumes; symbolic: flux in [0,1e3] incl. exactly 0, densities in [0 or 1e-6, 1], "
                       "component temperatures in [0,3000] C; nuclide placement patterns and block-type filters "
                       "enumerated; thorough: symbolic block heights in [1,400]",
         stubs=STUBS, qtimeout_ms=20000, raises=(),
         instances={"quick": [dict(case="all3", pattern="typical", kind="flux"),
                              dict(case="all2", pattern="shared", kind="flux"),
                              dict(case="last_out", pattern="shared", kind="flux"),
                              dict(case="first_out", pattern="typical", kind="volume"),
                              dict(case="one", pattern="sparse", kind="flux")],
                    "thorough": [dict(case=c, pattern=p, kind=k, symH=s)
                                 for c in ("all3", "last_out", "first_out") for p in PATTERNS
                                 for k in ("flux", "volume") for s in (False, True)]})
def average_block_is_weighted_mean(ctx, case, pattern, kind, symH=False):
    members, elig, valid = build(ctx, case, pattern, symH=symH, burn=False)
    weighted = kind == "flux"
    col = make_collection(kind, valid)
    col.extend(m.b for m in members)
    before = [m.snapshot() for m in members]
    try:
        rep = col.createRepresentativeBlock()
        raised = False
    except ValueError:
        raised = True
    mixed = mixed_zero(elig, weighted)
    if ctx.canary and len(elig) > 1:
        mixed = AND(mixed, elig[0].flux != 0)
    ctx.check("ValueError iff eligible members mix zero and non-zero weighting parameter", IFF(raised, mixed))
    check_unchanged(ctx, members, before, "createRepresentativeBlock")
    if raised:
        return
    ws = weights(elig, weighted)
    ctx.check("representative is a new object", all(rep is not m.b for m in members))
    avg = col._getAverageNumberDensities()
    for nuc in NUCS:
        xs = [m.N(nuc) for m in elig]
        want = wmean(ws, xs)
        if ctx.canary and nuc == "FE":
            want = sum(xs) / len(xs)
        scale = sum(xs) + 1e-30
        ctx.check_close("averaged N(%s) = sum(w x)/sum(w) over eligible members" % nuc, avg[nuc], want, scale=scale)
        ctx.check_close("representative block holds the averaged N(%s)" % nuc, rep.getNumberDensity(nuc), want,
                        scale=scale)
        tol = 1e-9 * scale
        ctx.check("averaged N(%s) within [min,max] of the members" % nuc,
                  AND(avg[nuc] >= MIN(*xs) - tol, avg[nuc] <= MAX(*xs) + tol))
        ctx.check("members agree on N(%s) => the average is that value" % nuc,
                  IMPLIES(AND(*[x == xs[0] for x in xs[1:]]) if len(xs) > 1 else True,
                          CLOSE(avg[nuc], xs[0], scale=scale)))
    # nuclide temperatures: T = sum(w n v T)/sum(w n v), zero densities counted as trace
    for nuc in NUCS:
        num, den, Ts = 0.0, 0.0, []
        for m, w in zip(elig, ws):
            for (c, k), n in m.dens.items():
                if k == nuc:
                    nn = ITE(n == 0, TRACE_NUMBER_DENSITY, n)
                    num = num + w * nn * m.vol[c] * m.T[c]
                    den = den + w * nn * m.vol[c]
                    Ts.append(m.T[c])
        got = col.avgNucTemperatures[nuc]
        if not Ts:
            ctx.check("temperature of a nuclide held by no member is reported as 0", got == 0.0)
            continue
        ctx.check_close("T(%s) = sum(w n v T)/sum(w n v) over eligible members" % nuc, got * den, num,
                        scale=den * 3000.0)
        ctx.check("T(%s) within [min,max] of the holders' temperatures" % nuc,
                  AND(got >= MIN(*Ts) - 1e-6, got <= MAX(*Ts) + 1e-6))
        ctx.check("holders agree on T(%s) => that value" % nuc,
                  IMPLIES(AND(*[t == Ts[0] for t in Ts[1:]]) if len(Ts) > 1 else True,
                          CLOSE(got, Ts[0], scale=3000.0)))
