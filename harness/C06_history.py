"""C06 (history clause): "a parameter history returns for each step the value (or the default if unset) that the same
object, matched by identity even after it moved, had at that step".

The real ``Database.open/getHistories/getHistory/genTimeStepGroups`` run on the in-memory stand-in for the h5py file
objects of C06_split.  Every snapshot holds a layout (type / serial number / index-in-data / location per object, in
the order the objects had at that write, which changes when objects move) and one data array per parameter and type;
the *values* are independent symbols, one per (object, step), so a mix-up between objects or steps cannot cancel.  The
order of the objects at each write, which objects exist at which step, which are asked for and whether a parameter
was stored at all at a step are solver-chosen (forked).  How the real Layout and the parameter arrays are encoded in
HDF5 is outside this technique; the lookup arithmetic from (object identity, step) to a position in the stored
arrays is what is decided here.
"""
import itertools
import types

import numpy as np

from symx.core import AND, OR, NOT, ITE
from symx.engine import harness
from symx import shims

from harness import C06_split as SP
from harness._util_C15 import pick, flag

import armi.bookkeeping.db.database as dbmod
from armi.bookkeeping.db.database import Database, getH5GroupName

STUBS = [SP.STUBS[1], SP.STUBS[3],
         "database.Layout -> reader stub that hands back the arrays kept in the snapshot's layout group (type, "
         "serialNum, indexInData, location), as the real Layout does after decoding them from HDF5",
         "datasets -> numpy object arrays (symbolic values inside) indexed with a list of positions, empty attrs",
         "objects asked for -> bare instances of the real HexAssembly / HexBlock / Reactor classes (object.__new__) "
         "carrying only .p (serialNum and live values) and .parent; parameter defaults come from the real definitions"]

NAME = "symxhist.h5"
_DONE = []


class _StubLayout:
    def __init__(self, version, h5group=None, comp=None):
        lay = h5group["layout"]
        self.type = lay["type"][()]
        self.serialNum = lay["serialNum"][()]
        self.indexInData = lay["indexInData"][()]
        self.location = lay["location"][()]


class ADataset(SP.SDataset):
    def __init__(self, owner, arr):
        SP.SDataset.__init__(self, owner, arr)
        self.attrs = {}

    def __getitem__(self, k):
        self.owner._alive()
        return self.value[k]


class _P:
    """what getHistories uses of a parameter collection: .serialNum and p[name] for the live value"""

    def __init__(self, serialNum, live):
        self.serialNum = serialNum
        self._live = live

    def __getitem__(self, name):
        return self._live[name]


def _install():
    SP._install(symbolicMembers=False)      # (nothing symbolic is put into a set here: the builtin set stays)
    if _DONE:
        return
    shims.patch(dbmod, Layout=_StubLayout)
    _DONE.append(True)


def _objarr(vals):
    a = np.empty(len(vals), dtype=object)
    for i, v in enumerate(vals):
        a[i] = v
    return a


STEPS = [(0, 0), (0, 1), (1, 0), (1, 1)]
# which of the discrete choices are left to the solver in an instance (the others sit at their plain value: objects
# in creation order, nobody absent, parameter stored everywhere, everything asked for, all steps)
MOVES = ("order", "skipA")
POPULATION = ("orderLast", "absent", "unset")
HIST_QUICK = [dict(N=3, T=2, byName=True, free=MOVES), dict(N=3, T=2, byName=True, free=POPULATION),
              dict(N=2, T=3, byName=False, free=("order", "absent", "skipB")),
              dict(N=2, T=2, byName=True, free=("order", "explicit", "skipB")),
              dict(N=2, T=3, byName=True, free=("now", "explicit", "absent", "unset")),
              dict(N=2, T=3, byName=False, free=("now", "orderLast", "skipA"))]
HIST_THOROUGH = [dict(N=3, T=3, byName=True, free=MOVES + ("skipB",)), dict(N=4, T=2, byName=True, free=MOVES),
                 dict(N=3, T=3, byName=True, free=POPULATION + ("skipA", "explicit")),
                 dict(N=3, T=2, byName=True, free=MOVES + POPULATION),
                 dict(N=3, T=3, byName=False, free=("order", "skipA", "explicit")),
                 dict(N=3, T=3, byName=False, free=("orderLast", "absent", "skipB")),
                 dict(N=3, T=3, byName=True, free=("now", "orderLast", "absent", "unset", "explicit")),
                 dict(N=3, T=4, byName=False, free=("now", "orderLast", "absent", "explicit"))]


@harness("C06", bounds="N = 2..3 (thorough: 4) assemblies with one block each, T = 2..3 snapshots; solver-chosen per "
                       "instance: the order of the assemblies (their positions) at every snapshot (any permutation), "
                       "one assembly absent from one snapshot, the assembly parameter not stored at one snapshot, "
                       "one assembly / one block not asked for, steps given as an explicit (reversed) list, the "
                       "step the live reactor is at (any step holding a snapshot - a reactor sitting at an earlier "
                       "step of a complete database, its state changed since that write - or the next, unwritten "
                       "one); the "
                       "stored values and the live values are independent symbolic reals in [-1e3,1e3]; parameters "
                       "named explicitly (incl. location) or all (params=None)", stubs=STUBS, max_paths=40000,
         instances={"quick": HIST_QUICK, "thorough": HIST_THOROUGH})
def history_follows_the_object_by_identity(ctx, N, T, byName, free):
    from armi.reactor import parameters
    from armi.reactor.assemblies import HexAssembly
    from armi.reactor.blocks import HexBlock
    from armi.reactor.reactors import Reactor

    _install()
    SP.FS.clear()
    steps = STEPS[:T]
    perms = list(itertools.permutations(range(N)))
    # -- inputs (all declared before any branching)
    vA = [[ctx.real("chargeTime_a%d_t%d" % (i, t), -1e3, 1e3) for t in range(T)] for i in range(N)]
    vB = [[ctx.real("power_b%d_t%d" % (i, t), -1e3, 1e3) for t in range(T)] for i in range(N)]
    liveA = [ctx.real("chargeTime_a%d_now" % i, -1e3, 1e3) for i in range(N)]
    liveB = [ctx.real("power_b%d_now" % i, -1e3, 1e3) for i in range(N)]
    order = [ctx.int("order_t%d" % t, 0, len(perms) - 1) for t in range(T)]
    absentWho = ctx.int("absentAssembly", -1, N - 1)           # -1: nobody is ever absent
    absentAt = ctx.int("absentAtStep", 0, T - 1)
    unsetAt = ctx.int("chargeTimeNotStoredAtStep", -1, T - 1)   # -1: stored everywhere
    skipA = ctx.int("assemblyNotAskedFor", -1, N - 1)           # -1: all asked for
    skipB = ctx.int("blockNotAskedFor", -1, N - 1)
    explicitSteps = ctx.bool("explicitStepList")
    nowAt = ctx.int("reactorIsAtStep", 0, T)                    # T: the step after the last snapshot (not written)
    if "now" not in free:
        ctx.assume(nowAt == T)
    for t in range(T):
        if not ("order" in free or ("orderLast" in free and t == T - 1)):
            ctx.assume(order[t] == 0)
    if "absent" not in free:
        ctx.assume(AND(absentWho == -1, absentAt == 0))
    ctx.assume(OR(absentWho >= 0, absentAt == 0))
    if "unset" not in free or not byName:
        # with params=None only what a snapshot stores is reported for it; "default if unset" is about named parameters
        ctx.assume(unsetAt == -1)
    if "skipA" not in free:
        ctx.assume(skipA == -1)
    if "skipB" not in free:
        ctx.assume(skipB == -1)
    if "explicit" not in free:
        ctx.assume(NOT(explicitSteps))
    order = [perms[pick(o, 0, len(perms) - 1)] for o in order]
    absentWho, absentAt = pick(absentWho, -1, N - 1), pick(absentAt, 0, T - 1)
    unsetAt = pick(unsetAt, -1, T - 1)
    skipA, skipB = pick(skipA, -1, N - 1), pick(skipB, -1, N - 1)
    asked, askedB = [i != skipA for i in range(N)], [i != skipB for i in range(N)]
    explicitSteps = flag(explicitSteps)
    nowAt = pick(nowAt, 0, T)

    # -- the file as a run wrote it
    f = SP._FakeH5py.File(NAME, "w")
    f.attrs["databaseVersion"] = "3.4"
    serialA = [100 + 7 * i for i in range(N)]
    serialB = [500 + 3 * i for i in range(N)]
    locAt = {}
    for t, (c, n) in enumerate(steps):
        g = f.create_group(getH5GroupName(c, n))
        g.attrs["cycle"], g.attrs["timeNode"] = c, n
        here = [i for i in order[t] if not (i == absentWho and t == absentAt)]    # assemblies, in position order
        typ, ser, idx, loc = ["Reactor", "Core"], [1, 2], [0, 0], [(0, 0, 0), (0, 0, 0)]
        for k, i in enumerate(here):
            typ += ["HexAssembly", "HexBlock"]
            ser += [serialA[i], serialB[i]]
            idx += [k, k]
            loc += [(k + 1, t, 0), (0, 0, 1)]
            locAt[i, t] = (k + 1, t, 0)
        lay = g.create_group("layout")
        lay.members += [("type", SP.SDataset(f, np.array(typ))), ("serialNum", SP.SDataset(f, np.array(ser))),
                        ("indexInData", SP.SDataset(f, np.array(idx))), ("location", SP.SDataset(f, loc))]
        ga, gb = g.create_group("HexAssembly"), g.create_group("HexBlock")
        if t != unsetAt:
            ga.members.append(("chargeTime", ADataset(f, _objarr([vA[i][t] for i in here]))))
        ga.members.append(("numMoves", ADataset(f, _objarr([10 * i + t for i in here]))))
        gb.members.append(("power", ADataset(f, _objarr([vB[i][t] for i in here]))))
    f.close()

    # -- the live objects; current time: a step that has not been written, or a step that has a snapshot (whose
    #    values then are what the history reports for it: the live values are independent symbols, i.e. the state
    #    has changed since that write)
    now = (steps[-1][0], steps[-1][1] + 1) if nowAt == T else steps[nowAt]
    r = object.__new__(Reactor)
    r.p = types.SimpleNamespace(cycle=now[0], timeNode=now[1])
    r.parent = None
    A, B = [], []
    for i in range(N):
        a = object.__new__(HexAssembly)
        a.p = _P(serialA[i], {"chargeTime": liveA[i], "numMoves": -1})
        a.parent = r
        a.spatialLocator = types.SimpleNamespace(indices=("live", i))
        b = object.__new__(HexBlock)
        b.p = _P(serialB[i], {"power": liveB[i]})
        b.parent = a
        A.append(a)
        B.append(b)
    comps = [A[i] for i in range(N) if asked[i]] + [B[i] for i in range(N) if askedB[i]]
    which = list(reversed(steps)) if explicitSteps else None        # an explicit list, not in chronological order
    before = f._plain()
    with Database(NAME, "r") as db:
        if byName:
            hA = db.getHistories([c for c in comps if c in A], ["chargeTime", "location"], which) if any(asked) else {}
            hB = db.getHistories([c for c in comps if c in B], ["power"], which) if any(askedB) else {}
            hist = dict(hA)
            hist.update(hB)
        else:
            hist = db.getHistories(comps, None, which)
        if len(comps) == 1 and byName:
            one = db.getHistory(comps[0], ["power"] if comps[0] in B else ["chargeTime", "location"], which)
            ctx.check("getHistory of one object is its entry of getHistories",
                      {p: dict(h) for p, h in one.items()} == {p: dict(h) for p, h in hist[comps[0]].items()})
    ctx.check("a history query does not change the file", f._plain() == before)
    ctx.check("one history per object asked for, and for nothing else",
              len(hist) == len(comps) and all(c in hist for c in comps))

    default = parameters.byNameAndType("chargeTime", HexAssembly).default
    for i in range(N):
        for kind, objs, ask in (("a", A, asked), ("b", B, askedB)):
            if not ask[i]:
                continue
            h = hist[objs[i]]
            pname = "chargeTime" if kind == "a" else "power"
            written = [t for t in range(T) if not (i == absentWho and t == absentAt)]
            wantSteps = [steps[t] for t in written] + ([now] if nowAt not in written else [])
            ctx.check("%s%d %s: one entry per snapshot holding the object, plus the live state if the current step "
                      "has none" % (kind, i, pname), sorted(h[pname].keys()) == sorted(wantSteps))
            for t in written:
                if steps[t] not in h[pname]:
                    continue
                want = (vA[i][t] if t != unsetAt else default) if kind == "a" else vB[i][t]
                if ctx.canary and kind == "a" and i == N - 1 and t == T - 1:
                    want = want + ITE(AND(want > 500.0, liveA[0] < -250.0), 1.0, 0.0)
                ctx.check_close("%s%d %s at step %d: the value this object had at that write (default if not stored)"
                                % (kind, i, pname, t), h[pname][steps[t]], want, scale=1.0e3)
            if now in h[pname] and nowAt not in written:
                ctx.check_close("%s%d %s now (no snapshot of it at the current step): the live value"
                                % (kind, i, pname), h[pname][now],
                                liveA[i] if kind == "a" else liveB[i], scale=1.0e3)
            if kind == "a" and byName:
                ctx.check("a%d location: where this object sat at each write" % i,
                          all(tuple(h["location"].get(steps[t], ())) == locAt[i, t] for t in written))
            if kind == "a" and not byName:
                if True:
                    ctx.check("a%d: every stored parameter comes back when none is named" % i,
                              all(h["numMoves"].get(steps[t]) == 10 * i + t for t in written))
