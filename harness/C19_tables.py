"""C19 (table half): finite checks of the tables themselves, run on the REAL module-level directories.

Property text: "each nuclide belongs to the element with its atomic number, natural abundances of an element sum to one
(or the element has none), and every decay or transmutation product named in the burn chain exists with branching
fractions in [0, 1]".

These are obligations over finite data (no arithmetic to be symbolic about); the one symbolic input of each harness
is the table row that is examined, which the solver enumerates (every row is a path) and which lets the canary show
that a single bad row anywhere in the table is found.
"""
import os

from symx.engine import harness

from armi import context
from armi.nucDirectory import elements
from armi.nucDirectory import nuclideBases as nb

STUBS = ["none: armi.nucDirectory tables as built at import; nuclideBases.imposeBurnChain is run once per process on "
         "armi/resources/burn-chain.yaml of the tree under test (armi does this when a case is set up)"]

STRIDE = 60          # the engine enumerates at most 64 values of one symbolic integer: row k stands for rows k, k+60, ...
ABUNDANCE_TOL = 1e-4  # abundances are tabulated with 6-8 decimals; the unchanged table is within 3.1e-5 of one


def burn_entries():
    """(parent nuclide, 'decay' | 'transmutation', entry) for every entry of the burn chain."""
    if not nb.burnChainImposed:
        with open(os.path.join(context.RES, "burn-chain.yaml")) as stream:
            nb.imposeBurnChain(stream)
    out = []
    for n in nb.instances:
        out.extend((n, "decay", d) for d in n.decays)
        out.extend((n, "transmutation", t) for t in n.trans)
    return out


@harness("C19", bounds="every decay and transmutation entry that imposeBurnChain builds from armi/resources/"
                       "burn-chain.yaml (exhaustive; the row examined is the symbolic input)", stubs=STUBS)
def burn_chain_branches_are_fractions_and_products_exist(ctx):
    entries = burn_entries()
    k = int(ctx.int("row", 0, STRIDE - 1))
    ctx.check("the burn chain is not empty and fits the enumeration", 0 < len(entries) <= 64 * STRIDE)
    for idx in range(k, len(entries), STRIDE):
        parent, kind, t = entries[idx]
        what = "%s of %s by %s to %s" % (kind, parent.name, t.type, "/".join(t.productNuclides))
        branch = t.branch
        if ctx.canary and idx == len(entries) - 7:
            branch = branch + 1.5
        inRange = isinstance(branch, (int, float)) and 0.0 <= branch <= 1.0
        ctx.check("branching fraction lies in [0, 1]" + ("" if inRange else ": %s has %r" % (what, branch)), inRange)
        known = [p in nb.byName for p in t.productNuclides]
        ctx.check("every product named exists in the nuclide directory" + ("" if all(known) else ": " + what),
                  len(known) > 0 and all(known))
        ctx.check("the entry belongs to the nuclide it is filed under", t.parent is parent)


@harness("C19", bounds="every element Z = 1..120 of elements.byZ and every nuclide of nuclideBases.instances "
                       "(exhaustive; the atomic number examined is the symbolic input)", stubs=STUBS)
def every_nuclide_is_a_member_of_the_element_with_its_atomic_number(ctx):
    k = int(ctx.int("zRow", 0, STRIDE - 1))
    zMax = max(max(elements.byZ), max(n.z for n in nb.instances))
    ctx.check("the table fits the enumeration", zMax <= 64 * STRIDE and zMax <= 2 * STRIDE)
    for z in range(k + 1, zMax + 1, STRIDE):
        mine = [n for n in nb.instances if n.z == z]
        e = elements.byZ.get(z)
        if e is None:
            ctx.check("no nuclide without an element (Z=%d)" % z, not mine)
            continue
        want = 1
        if ctx.canary and z == 97:
            want = 2
        hits = [sum(1 for m in e.nuclides if m is n) for n in mine]
        bad = [n.name for n, h in zip(mine, hits) if h != want]
        ctx.check("each nuclide with this atomic number is listed exactly once by its element"
                  + ("" if not bad else ": Z=%d %s lists %s; not (once): %s"
                     % (z, e.symbol, [m.name for m in e.nuclides][:6], bad[:6])), not bad)
        ctx.check("each such nuclide points to that element", all(n.element is e for n in mine))
        ctx.check("the element lists nothing else",
                  all(m.z == z and any(m is n for n in mine) for m in e.nuclides))
        s = sum(m.abundance for m in e.nuclides if isinstance(m, nb.NuclideBase))
        ctx.check("natural abundances sum to one, or the element has none"
                  + ("" if s == 0.0 or abs(s - 1.0) <= ABUNDANCE_TOL else ": Z=%d sum %r" % (z, s)),
                  s == 0.0 or abs(s - 1.0) <= ABUNDANCE_TOL)
        ctx.check("abundances are fractions", all(0.0 <= m.abundance <= 1.0 for m in e.nuclides))
