"""C19 (table half): finite checks of the tables themselves, run on the REAL module-level directories.

Property text: "each nuclide belongs to the element with its atomic number, natural abundances of an element sum to one
(or the element has none), and every decay or transmutation product named in the burn chain exists with branching
fractions in [0, 1]".

These are obligations over finite data (no arithmetic to be symbolic about); the one symbolic input of each harness
is the table row that is examined, which the solver enumerates (every row is a path) and which lets the canary show
that a single bad row anywhere in the table is found.
"""
import os

from symx.engine import harness

from armi import context
from armi.nucDirectory import elements
from armi.nucDirectory import nucDir
from armi.nucDirectory import nuclideBases as nb

STUBS = ["none: armi.nucDirectory tables as built at import; nuclideBases.imposeBurnChain is run once per process on "
         "armi/resources/burn-chain.yaml of the tree under test (armi does this when a case is set up)"]

STRIDE = 60          # the engine enumerates at most 64 values of one symbolic integer: row k stands for rows k, k+60, ...
ABUNDANCE_TOL = 1e-4  # abundances are tabulated with 6-8 decimals; the unchanged table is within 3.1e-5 of one


def burn_entries():
    """(parent nuclide, 'decay' | 'transmutation', entry) for every entry of the burn chain."""
    if not nb.burnChainImposed:
        with open(os.path.join(context.RES, "burn-chain.yaml")) as stream:
            nb.imposeBurnChain(stream)
    out = []
    for n in nb.instances:
        out.extend((n, "decay", d) for d in n.decays)
        out.extend((n, "transmutation", t) for t in n.trans)
    return out


@harness("C19", bounds="every decay and transmutation entry that imposeBurnChain builds from armi/resources/"
                       "burn-chain.yaml (exhaustive; the row examined is the symbolic input)", stubs=STUBS)
def burn_chain_branches_are_fractions_and_products_exist(ctx):
    entries = burn_entries()
    k = int(ctx.int("row", 0, STRIDE - 1))
    ctx.check("the burn chain is not empty and fits the enumeration", 0 < len(entries) <= 64 * STRIDE)
    for idx in range(k, len(entries), STRIDE):
        parent, kind, t = entries[idx]
        what = "%s of %s by %s to %s" % (kind, parent.name, t.type, "/".join(t.productNuclides))
        branch = t.branch
        if ctx.canary and idx == len(entries) - 7:
            branch = branch + 1.5
        inRange = isinstance(branch, (int, float)) and 0.0 <= branch <= 1.0
        ctx.check("branching fraction lies in [0, 1]" + ("" if inRange else ": %s has %r" % (what, branch)), inRange)
        known = [p in nb.byName for p in t.productNuclides]
        ctx.check("every product named exists in the nuclide directory" + ("" if all(known) else ": " + what),
                  len(known) > 0 and all(known))
        ctx.check("the entry belongs to the nuclide it is filed under", t.parent is parent)


@harness("C19", bounds="every element Z = 1..120 of elements.byZ and every nuclide of nuclideBases.instances "
                       "(exhaustive; the atomic number examined is the symbolic input)", stubs=STUBS)
def every_nuclide_is_a_member_of_the_element_with_its_atomic_number(ctx):
    k = int(ctx.int("zRow", 0, STRIDE - 1))
    zMax = max(max(elements.byZ), max(n.z for n in nb.instances))
    ctx.check("the table fits the enumeration", zMax <= 64 * STRIDE and zMax <= 2 * STRIDE)
    for z in range(k + 1, zMax + 1, STRIDE):
        mine = [n for n in nb.instances if n.z == z]
        e = elements.byZ.get(z)
        if e is None:
            ctx.check("no nuclide without an element (Z=%d)" % z, not mine)
            continue
        want = 1
        if ctx.canary and z == 97:
            want = 2
        hits = [sum(1 for m in e.nuclides if m is n) for n in mine]
        bad = [n.name for n, h in zip(mine, hits) if h != want]
        ctx.check("each nuclide with this atomic number is listed exactly once by its element"
                  + ("" if not bad else ": Z=%d %s lists %s; not (once): %s"
                     % (z, e.symbol, [m.name for m in e.nuclides][:6], bad[:6])), not bad)
        ctx.check("each such nuclide points to that element", all(n.element is e for n in mine))
        ctx.check("the element lists nothing else",
                  all(m.z == z and any(m is n for n in mine) for m in e.nuclides))
        s = sum(m.abundance for m in e.nuclides if isinstance(m, nb.NuclideBase))
        ctx.check("natural abundances sum to one, or the element has none"
                  + ("" if s == 0.0 or abs(s - 1.0) <= ABUNDANCE_TOL else ": Z=%d sum %r" % (z, s)),
                  s == 0.0 or abs(s - 1.0) <= ABUNDANCE_TOL)
        ctx.check("abundances are fractions", all(0.0 <= m.abundance <= 1.0 for m in e.nuclides))
        # the same statement through the natural-isotopics API (what materials and elemental expansion use): the
        # natural isotopics of an element are exactly its nuclides (isotopes AND isomers) with abundance > 0
        abundant = [m for m in e.nuclides if isinstance(m, nb.NuclideBase) and m.abundance > 0.0]
        if ctx.canary and z == 97:
            abundant = abundant + [mine[0]]
        natural = e.getNaturalIsotopics()
        lost = [m.name for m in abundant if not any(m is x for x in natural)]
        added = [x.name for x in natural if not any(m is x for m in abundant)]
        ctx.check("getNaturalIsotopics() is exactly the nuclides of the element with abundance > 0, each once"
                  + ("" if not (lost or added) and len(natural) == len(abundant)
                     else ": Z=%d %s missing %s, not abundant %s, %d listed" % (z, e.symbol, lost, added, len(natural))),
                  not lost and not added and len(natural) == len(abundant))
        sn = sum(x.abundance for x in natural)
        okn = (not natural and s == 0.0) or abs(sn - 1.0) <= ABUNDANCE_TOL
        ctx.check("the abundances of getNaturalIsotopics() sum to one, or the element has none"
                  + ("" if okn else ": Z=%d %s sum %r" % (z, e.symbol, sn)), okn)
        viaDir = nucDir.getNaturalIsotopics(z=z)
        ctx.check("nucDir.getNaturalIsotopics(z) lists the same (mass number, abundance) pairs",
                  sorted(viaDir) == sorted((x.a, x.abundance) for x in abundant))
        differ = [n.name for n in mine if isinstance(n, (nb.NuclideBase, nb.NaturalNuclideBase))
                  and [id(x) for x in n.getNaturalIsotopics()] != [id(x) for x in natural]]
        ctx.check("every nuclide of the element reports the natural isotopics of its element"
                  + ("" if not differ else ": Z=%d %s" % (z, differ[:6])), not differ)
        if abundant and not (ctx.canary and z == 97):
            w = sum(x.weight * x.abundance for x in abundant) / sum(x.abundance for x in abundant)
            ctx.check("the standard weight of the element is the abundance-weighted mean of its natural isotopics",
                      e.standardWeight is not None and abs(e.standardWeight - w) <= 1e-9 * w)
        ctx.check("the element is naturally occurring exactly when it has natural isotopics",
                  bool(e.isNaturallyOccurring()) == bool(abundant))


# ---------------------------------------------------------------------------------------------------------
# "Every nuclide of the directory can be retrieved through each identifier it has ..., each lookup returns that same
# nuclide, no two nuclides share an identifier"

# (identifier kind, index of the module, how a nuclide reports that identifier; None / '' = it has none of that kind)
IDENTIFIERS = [
    ("name", "byName", lambda n: n.name),
    ("label", "byLabel", lambda n: n.label),
    ("database name", "byDBName", lambda n: n.getDatabaseName()),
    ("MC2-2 id", "byMcc2Id", lambda n: n.getMcc2Id()),
    ("MC2-3 id", "byMcc3Id", lambda n: n.getMcc3Id()),
    ("MC2-3 id (ENDF/B-VII.0)", "byMcc3IdEndfbVII0", lambda n: n.getMcc3IdEndfbVII0()),
    ("MC2-3 id (ENDF/B-VII.1)", "byMcc3IdEndfbVII1", lambda n: n.getMcc3IdEndfbVII1()),
    ("MCNP id", "byMcnpId", lambda n: n.getMcnpId() if isinstance(n, nb.IMcnpNuclide) else None),
    ("AAAZZZS id", "byAAAZZZSId", lambda n: n.getAAAZZZSId() if isinstance(n, nb.NuclideBase) else None),
]
# every real nuclide / element has these; the MC2 ids exist only for the nuclides of the MC2 libraries
MUST_HAVE = {"name": object, "label": object, "database name": object, "MCNP id": nb.IMcnpNuclide,
             "AAAZZZS id": nb.NuclideBase}

# Candidate genuine defect on the unchanged tree (reported by an independent engineer; plain-Python reproduction:
#   from armi.nucDirectory import nuclideBases as nb
#   nb.byName['DUMP1'].getMcc3Id() == nb.byName['DUMP2'].getMcc3Id() == 'DUMMY'; nb.byMcc3Id['DUMMY'].name == 'DUMP2'
# ): the two dummy nuclides DUMP1 and DUMP2 share the MC2-3 identifier 'DUMMY' in mcc-nuclides.yaml (both libraries),
# so DUMP1 cannot be retrieved through byMcc3Id / byMcc3IdEndfbVII0 / byMcc3IdEndfbVII1 (DUMP2, read later, wins).
# With the flag set, the obligation for exactly that identifier states the defect instead (the lookup gives the
# other dummy nuclide); every other nuclide and identifier is unaffected.
KNOWN_DEFECT_dummy_nuclides_share_mcc3_id = False  # recorded in known_findings.jsonl
SHARED_DUMMY_ID = ("DUMMY", ("DUMP1", "DUMP2"))
# Documented, not a defect (I_ARMI_ND_ISOTOPES6, updateNuclideBasesForSpecialCases): "AM242" / "nAm242" are second
# keys for Am-242m, whose own name is AM242M (the ground state is AM242G).  No two nuclides share an identifier
# through it; the key -> nuclide direction below allows exactly these aliases.
DOCUMENTED_ALIASES = {("byName", "AM242"): "AM242M", ("byDBName", "nAm242"): "AM242M"}


@harness("C19", bounds="every nuclide of nuclideBases.instances (about 4700; the row examined is the symbolic input) x "
                       "every identifier kind: name, label, database name, MC2-2 id, MC2-3 id (generic, ENDF/B-VII.0, "
                       "ENDF/B-VII.1), MCNP id, AAAZZZS id; and every key of every index", stubs=STUBS)
def every_identifier_of_a_nuclide_looks_up_that_same_nuclide(ctx):
    k = int(ctx.int("row", 0, STRIDE - 1))
    rows = list(nb.instances)
    ctx.check("the table is not empty", len(rows) > 0)
    for idx in range(k, len(rows), STRIDE):     # the STRIDE values of `row` together cover every row
        n = rows[idx]
        for kind, indexName, getter in IDENTIFIERS:
            index = getattr(nb, indexName)
            ident = getter(n)
            if ctx.canary and idx == len(rows) - 40 and kind == "label":
                ident = rows[idx - 1].label
            if ident is None or ident == "":
                must = MUST_HAVE.get(kind)
                ctx.check("every nuclide has a %s" % kind + ("" if must is None or not isinstance(n, must)
                                                                else ": %s has none" % n.name),
                          must is None or not isinstance(n, must))
                continue
            found = index.get(ident)
            if (KNOWN_DEFECT_dummy_nuclides_share_mcc3_id and kind.startswith("MC2-3") and ident == SHARED_DUMMY_ID[0]
                    and n.name in SHARED_DUMMY_ID[1]):
                ctx.note("KNOWN_DEFECT_dummy_nuclides_share_mcc3_id: DUMP1 and DUMP2 share the %s 'DUMMY'" % kind)
                ctx.check("known defect: the shared MC2-3 id 'DUMMY' finds one of the two dummy nuclides (must be: "
                          "each its own)", found is not None and found.name in SHARED_DUMMY_ID[1])
                continue
            ok = found is n
            ctx.check("%s[%s of the nuclide] is that same nuclide" % (indexName, kind)
                      + ("" if ok else ": %s reports %r, which finds %s"
                         % (n.name, ident, "nothing" if found is None else found.name)), ok)
        ctx.check("the generic MC2-3 id is the ENDF/B-VII.1 one (byMcc3Id is documented as the VII.1 index)"
                  + ("" if n.getMcc3Id() == n.getMcc3IdEndfbVII1() else ": %s" % n.name),
                  n.getMcc3Id() == n.getMcc3IdEndfbVII1())
    # the other direction, per index: every key is the identifier of the nuclide it finds (so that a key cannot find a
    # nuclide that does not carry it), apart from the documented Am-242 aliases; one index per path
    if k < len(IDENTIFIERS):
        kind, indexName, getter = IDENTIFIERS[k]
        index = getattr(nb, indexName)
        stray = [(key, v.name) for key, v in index.items()
                 if getter(v) != key and DOCUMENTED_ALIASES.get((indexName, key)) != v.name]
        ctx.check("every key of %s is the %s of the nuclide it finds" % (indexName, kind)
                  + ("" if not stray else ": %s" % stray[:5]), not stray)
        ctx.check("every nuclide found through %s is a nuclide of the directory" % indexName,
                  all(nb.byName.get(v.name) is v for v in index.values()))
    ctx.check("byMcc3Id is the ENDF/B-VII.1 index", nb.byMcc3Id is nb.byMcc3IdEndfbVII1
              or dict(nb.byMcc3Id) == dict(nb.byMcc3IdEndfbVII1))
