"""C06 (the load clause on the real load path): "loading a snapshot returns the state as of that write whatever happened
later ... a parameter history returns for each step the value ... that the same object, matched by identity even after
it moved, had at that step."

What runs: the reactor of harness/C04_roundtrip (built by the REAL ``Blueprints.load`` + ``reactors.factory``) and the
REAL ``Database.open/writeInputsToDB/writeToDB/load/getHistories`` on the REAL HDF5 library (h5py on its in-memory
'core' driver), with the machinery of C04_roundtrip.  Two things are decided here:

* which snapshot ``Database.load(cycle, node)`` answers with, for every way of naming one that the method documents -
  a node counted from the beginning of the cycle, or (negative) "indexed from EOC backwards like a list" - when the
  cycles of the run have DIFFERENT numbers of nodes (a detailed ``cycles`` history in the settings): the snapshot of
  that cycle and that node, or a refusal if the cycle has no such node; never another snapshot;
* that the identity of objects (their serial number, which histories are matched by) stays an identity after a load:
  a run that goes on after loading a snapshot - in the writing process or in a new one (restart) - and creates objects
  (fuel management charges a fresh assembly) gives them serial numbers that no loaded object has, so that the histories
  of old and new objects stay apart.

The (cycle, node) asked for, and the history of the reactor before the snapshot, are symbolic (enumerated by forking);
parameter values are concrete (they go through typed numpy arrays and HDF5).
"""
import numpy as np

from symx.core import AND, OR, NOT, ITE
from symx.engine import harness

from harness import C04_roundtrip as RT

import armi.bookkeeping.db.database as dbmod
from armi.bookkeeping.db.database import Database

STUBS = [RT.STUBS[1], RT.STUBS[2], RT.STUBS[3],
         "database.int / Database.timeNodeGroupPattern: the symbolic-string replacements that the naming harness of C06 "
         "installs are taken out again for this harness (it runs on the unmodified module namespaces)",
         "reactor -> built by the real Blueprints.load + reactors.factory from the YAML text of harness/C04_roundtrip "
         "(hex third core, 3 assemblies x 3 blocks, pin lattice block, Cartesian spent fuel pool); the same text and the "
         "settings are stored with writeInputsToDB",
         "which_snapshot_a_load_returns: the file (one snapshot per node of every cycle, written by the real "
         "writeToDB) is written once per worker process and only read by the paths",
         "a restart in a new process -> the process-wide serial-number counter is put back to its start-of-process "
         "value (-1) before the load"]


def _install():
    RT._install()
    if "int" in vars(dbmod):
        del dbmod.int
    Database.timeNodeGroupPattern = getattr(Database.timeNodeGroupPattern, "_real", Database.timeNodeGroupPattern)


def _settings(stepsPerCycle):
    """settings of a run whose cycles have the given numbers of burn steps (detailed cycle history)"""
    from armi import settings

    new = {"trackAssems": True, "inputHeightsConsideredHot": True}
    if stepsPerCycle is not None:
        cycles = [{"name": "cycle%d" % k, "step days": [30.0 / n] * n, "power fractions": [1.0] * n}
                  for k, n in enumerate(stepsPerCycle)]
        new.update({"nCycles": len(cycles), "cycles": cycles, "burnSteps": None, "cycleLength": None,
                    "availabilityFactor": None})
    return settings.Settings().modified(newSettings=new)


def _build(cs):
    from armi.reactor import blueprints, reactors

    bp = blueprints.Blueprints.load(RT.BLUEPRINT)
    return bp, reactors.factory(cs, bp)


def marker(cycle, node):
    """a number that names the step (exactly representable)"""
    return 1.0 + cycle / 8.0 + node / 64.0


# ---------------------------------------------------------------------------------------------------------------------
_FILES = {}


def _written_file(stepsPerCycle, simple=False):
    """one snapshot per node of every cycle (a cycle of n burn steps has the nodes 0..n), each holding the marker of
    its step in core.p.keff, reactor time and the burnup of every fuel block; afterwards the live reactor moves on"""
    key = (simple,) + tuple(stepsPerCycle)
    if key not in _FILES:
        if simple:        # simple cycle settings: nCycles x burnSteps, every cycle alike
            cs = _settings(None).modified(newSettings={"nCycles": len(stepsPerCycle), "burnSteps": stepsPerCycle[0]})
        else:
            cs = _settings(stepsPerCycle)
        bp, r = _build(cs)
        store = RT._Store(cs)
        for cycle, steps in enumerate(stepsPerCycle):
            for node in range(steps + 1):
                r.p.cycle, r.p.timeNode, r.p.time = cycle, node, marker(cycle, node)
                r.core.p.keff = marker(cycle, node)
                for a in r.core:
                    for b in RT.fuel_blocks(a):
                        b.p.percentBu = marker(cycle, node) + b.spatialLocator.k
                store.save(r)
        # "whatever happened later"
        r.core.p.keff = 99.0
        r.p.cycle, r.p.timeNode = 0, 0
        _FILES[key] = (cs, bp, store)
    return _FILES[key]


UNEQUAL = (3, 1, 2)       # burn steps per cycle: the cycles have 4, 2 and 3 nodes


@harness("C06", bounds="file holding one snapshot per node of every cycle of a run whose cycles have (3, 1, 2) burn steps "
                       "(thorough: also (1, 3), (2, 2, 2), and simple cycle settings with the default 4 burn steps); "
                       "Database.load(cycle, node) for every cycle and every node in "
                       "[-(most nodes)-2, (most nodes)+1], symbolic (forked), with the settings and blueprints handed "
                       "over or re-read from the file; parameter values concrete",
         stubs=STUBS, max_paths=2000, raises=(),
         instances={"quick": [dict(steps=UNEQUAL)],
                    "thorough": [dict(steps=UNEQUAL), dict(steps=(1, 3)), dict(steps=(2, 2, 2)),
                                 dict(steps=(4, 4), simple=True)]})
def which_snapshot_a_load_returns(ctx, steps, simple=False):
    _install()
    RT._fresh_process_state()
    most = max(steps) + 1
    cycle = ctx.int("cycle", 0, len(steps) - 1)
    node = ctx.int("node", -most - 2, most + 1)
    fromFile = ctx.bool("settingsAndBlueprintsReadFromTheFile")
    cycle = RT.pick(cycle, 0, len(steps) - 1)
    node = RT.pick(node, -most - 2, most + 1)
    fromFile = True if fromFile else False
    cs, bp, store = _written_file(steps, simple)
    nodes = steps[cycle] + 1              # nodes of THAT cycle: 0 .. number of its burn steps
    want = node if node >= 0 else nodes + node         # "indexed from EOC backwards like a list"
    exists = 0 <= want < nodes
    if ctx.canary and cycle == 1 and node == -2:
        want = want + 1
    try:
        r2 = store.db.load(cycle, node) if fromFile else store.db.load(cycle, node, cs=cs, bp=bp)
        refused = False
    except (ValueError, KeyError, IndexError):
        refused = True
    ctx.check("a (cycle, node) that names a written snapshot is loaded; one that names none is refused, never "
              "answered with another snapshot", refused == (not exists))
    if refused or not exists:
        return
    ctx.check_eq("the loaded reactor is at the (cycle, node) asked for, the node counted within that cycle",
                 (int(r2.p.cycle), int(r2.p.timeNode)), (cycle, want))
    bu = sorted(float(b.p.percentBu) for a in r2.core for b in RT.fuel_blocks(a))
    wantBu = sorted(marker(cycle, want) + b.spatialLocator.k for a in r2.core for b in RT.fuel_blocks(a))
    ctx.check_eq("the loaded reactor holds the state as of that write",
                 (float(r2.core.p.keff), float(r2.p.time), bu), (marker(cycle, want), marker(cycle, want), wantBu))


# ---------------------------------------------------------------------------------------------------------------------
def charge_fresh(r, cs, old):
    """fuel management: a newly fabricated assembly of the same design takes the place of one in the core"""
    loc = old.spatialLocator
    fresh = r.core.createAssemblyOfType(old.getType(), cs=cs)
    r.core.removeAssembly(old, discharge=False)
    r.core.add(fresh, loc)
    return fresh


def serials(o):
    return [int(x.p.serialNum) for _, x in RT.walk(o)]


NONE_OR_ANY = (0, 1, 2, 3)


@harness("C06", bounds="reactor of harness/C04_roundtrip; solver-chosen history before the snapshot: which assembly "
                       "(none / 1st / 2nd / 3rd) was replaced by a freshly built one (fuel management), which was "
                       "discharged to the spent fuel pool; whether the snapshot is loaded in the writing process or "
                       "after a restart in a new process (serial-number counter at its start-of-process value); which "
                       "assembly of the loaded core (counted cyclically) is then replaced by a freshly built one before the next snapshot "
                       "is written.  Quick: fresh in {none, 2nd}, discharged in {none, 3rd}; thorough: all.  Parameter "
                       "values concrete.", stubs=STUBS, max_paths=2000, raises=(),
         instances={"quick": [dict(fresh=(0, 1), gone=(0, 3), later=(1,))],
                    "thorough": [dict(fresh=NONE_OR_ANY, gone=NONE_OR_ANY, later=(1, 2, 3))]})
def objects_created_after_a_load_are_new_objects(ctx, fresh, gone, later):
    _install()
    RT._fresh_process_state()
    from armi.reactor.parameters import parameterCollections

    charged = ctx.int("assemblyReplacedByAFreshOneBeforeTheSnapshot", 0, 3)
    discharged = ctx.int("assemblyDischargedToPool", 0, 3)
    newProcess = ctx.bool("loadedAfterARestartInANewProcess")
    after = ctx.int("assemblyReplacedByAFreshOneAfterTheLoad", 1, 3)
    ctx.assume(OR(*[charged == k for k in fresh]))
    ctx.assume(OR(*[discharged == k for k in gone]))
    ctx.assume(OR(*[after == k for k in later]))
    ctx.assume(OR(charged == 0, charged != discharged))
    charged, discharged, after = RT.pick(charged, 0, 3), RT.pick(discharged, 0, 3), RT.pick(after, 1, 3)
    newProcess = True if newProcess else False

    counterAtStart = parameterCollections.GLOBAL_SERIAL_NUM
    cs = _settings(None)
    bp, r = _build(cs)
    assems = list(r.core)
    if charged:
        charge_fresh(r, cs, RT._assembly(assems, charged))
    if discharged:
        RT.discharge(r, RT._assembly(assems, discharged))
    r.p.cycle, r.p.timeNode, r.p.time = 0, 1, 10.0
    for a in r.core:
        for b in a:
            b.p.percentBu = 1.0 + int(b.p.serialNum) / 1024.0
    r.sort()
    saved = sorted(serials(r))
    store = RT._Store(cs)
    try:
        store.save(r)
        if newProcess:
            parameterCollections.GLOBAL_SERIAL_NUM = -1
        try:
            r2 = store.db.load(0, 1, cs=cs, bp=bp)
            loaded = sorted(serials(r2))
            ctx.check_eq("the loaded objects carry the serial numbers they were saved with", loaded, saved)
            # the run goes on: fuel management puts a new assembly in the place of one in the core
            kept = {int(b.p.serialNum): b for a in r2.core for b in a}
            inCore = list(r2.core)
            old = inCore[(after - 1) % len(inCore)]       # (two assemblies are left in the core after a discharge)
            for b in old:
                kept.pop(int(b.p.serialNum))
            new = charge_fresh(r2, cs, old)
            newSerials = serials(new)
            if ctx.canary and (charged, discharged, newProcess) == (fresh[-1], gone[0], True):
                loaded = loaded + newSerials[:1]
            ctx.check_eq("objects created after the load have serial numbers that no loaded object has (they are new "
                         "objects: histories are matched by serial number)",
                         sorted(set(newSerials) & set(loaded)), [])
            ctx.check("objects created after the load have pairwise different serial numbers",
                      len(set(newSerials)) == len(newSerials))
            # ... and the next snapshot is written: the histories of old and new objects stay apart
            r2.p.timeNode, r2.p.time = 2, 20.0
            for a in r2.core:
                for b in a:
                    b.p.percentBu = 2.0 + int(b.p.serialNum) / 1024.0 + (0.25 if b.parent is new else 0.0)
            store.db.writeToDB(r2)
            newBlocks, oldBlocks = list(new), list(kept.values())
            hist = store.db.getHistories(newBlocks + oldBlocks, ["percentBu"])
            gotNew = [sorted(dict(hist[b]["percentBu"]).items()) for b in newBlocks]
            gotOld = [sorted(dict(hist[b]["percentBu"]).items()) for b in oldBlocks]
            ctx.check_eq("history of a block created after the load: the step written after its creation, nothing "
                         "from the steps at which it did not exist",
                         gotNew, [[((0, 2), float(b.p.percentBu))] for b in newBlocks])
            ctx.check_eq("history of a loaded block that is still in the core: its own value at either step",
                         gotOld, [[((0, 1), 1.0 + int(b.p.serialNum) / 1024.0), ((0, 2), float(b.p.percentBu))]
                                  for b in oldBlocks])
        finally:
            if newProcess:
                parameterCollections.GLOBAL_SERIAL_NUM = max(parameterCollections.GLOBAL_SERIAL_NUM, counterAtStart,
                                                             max(saved))
    finally:
        store.close()
